#!/venv/bin/python
"""Confirm a seeded change and record which checks catch it.

  seeded.py confirm <id> <dir-with-patch.diff,demo.py,meta.json> [--skip-suite]
      1. fresh scratch worktree of /repo HEAD under /tmp
      2. demo on the unmodified tree must exit 0; apply patch; demo must exit non-zero
      3. whole suite on the patched worktree must pass (PYTHONPATH points at the worktree)
      4. every property check is run against the patched tree (run.py --src); rules that report are recorded
      5. artefacts copied to /verif/seeded/<id>/ ; scratch worktree removed
  seeded.py rerun-scratch [jobs]   the same against scratch copies of /repo/src, several at a time (development shortcut)
  seeded.py rerun            re-run all checks against every kept change (apply to /repo, run, undo) and rewrite INDEX.md
"""
import json
import os
import re
import shutil
import subprocess
import sys
import time

VERIF = os.path.dirname(os.path.dirname(os.path.abspath(__file__)))
PROPS = [f"C{i:02d}" for i in range(1, 21)]
PY = "/venv/bin/python"


def sh(cmd, **kw):
    return subprocess.run(cmd, shell=isinstance(cmd, str), capture_output=True, text=True, **kw)


def run_checks(src):
    caught = {}
    for p in PROPS:
        r = sh([PY, os.path.join(VERIF, "run.py"), p, "--src", src, "--no-evidence"], cwd=VERIF)
        rules = sorted(set(re.findall(r"\[(C\d\d\.R\w+)\]", "\n".join(l for l in r.stdout.splitlines() if not l.startswith("KNOWN-FINDING")))))
        if r.returncode == 1:
            lines = [l.strip() for l in r.stdout.splitlines() if l.startswith("  ") and "[" + p in l]
            caught[p] = {"rules": rules, "reports": [l[:400] for l in lines][:6]}
        elif r.returncode == 2:
            caught[p] = {"rules": ["ANALYSIS-ERROR"], "reports": [r.stdout.strip().splitlines()[-1][:300] if r.stdout.strip() else ""]}
    return caught


def confirm(cid, srcdir, skip_suite=False):
    wt = f"/tmp/cf_{cid}"
    sh(f"git -C /repo worktree remove --force {wt}")
    shutil.rmtree(wt, ignore_errors=True)
    r = sh(f"git -C /repo worktree add -q --detach {wt} HEAD")
    assert r.returncode == 0, r.stderr
    env = dict(os.environ, PYTHONPATH=f"{wt}/src")
    res = {"id": cid, "confirmed_at": time.strftime("%Y-%m-%d %H:%M:%S")}
    try:
        patch = os.path.join(srcdir, "patch.diff")
        demo = os.path.join(srcdir, "demo.py")
        a = sh([PY, demo], env=env, cwd=wt, timeout=180)
        res["demo_unmodified"] = {"exit": a.returncode, "tail": (a.stdout + a.stderr)[-300:]}
        ap = sh(f"git -C {wt} apply {patch}")
        res["patch_applies"] = ap.returncode == 0
        if ap.returncode != 0:
            res["error"] = ap.stderr[-300:]
            return res
        comp = sh([PY, "-m", "compileall", "-q", f"{wt}/src"], env=env)
        res["compiles"] = comp.returncode == 0
        b = sh([PY, demo], env=env, cwd=wt, timeout=180)
        res["demo_modified"] = {"exit": b.returncode, "tail": (b.stdout + b.stderr)[-400:]}
        if not skip_suite:
            t0 = time.time()
            s = sh(f"cd {wt} && {PY} -m pytest -q -p no:cacheprovider --timeout=900 -n 8 2>&1 | tail -3", env=env)
            m = re.search(r"(\d+) passed", s.stdout)
            f = re.search(r"(\d+) failed", s.stdout)
            res["suite"] = {"passed": int(m.group(1)) if m else 0, "failed": int(f.group(1)) if f else 0,
                            "wall_s": round(time.time() - t0), "tail": s.stdout[-200:]}
        res["caught_by"] = run_checks(f"{wt}/src/xstate_statemachine")
    finally:
        sh(f"git -C /repo worktree remove --force {wt}")
        shutil.rmtree(wt, ignore_errors=True)
    ok = res.get("demo_unmodified", {}).get("exit") == 0 and res.get("demo_modified", {}).get("exit", 0) != 0 and \
        (skip_suite or (res["suite"]["failed"] == 0 and res["suite"]["passed"] >= 2806))
    res["kept"] = bool(ok)
    if ok:
        dst = os.path.join(VERIF, "seeded", cid)
        os.makedirs(dst, exist_ok=True)
        shutil.copy(patch, os.path.join(dst, "patch.diff"))
        shutil.copy(demo, os.path.join(dst, "demo.py"))
        meta = {}
        mp = os.path.join(srcdir, "meta.json")
        if os.path.exists(mp):
            try:
                meta = json.load(open(mp))
            except Exception:
                meta = {"raw": open(mp).read()[:2000]}
        out = {"id": cid, "breaks_property": meta.get("property", cid[:3]), "author": "independent sub-agent (given only the property text and a scratch worktree)",
               "summary": meta.get("summary"), "needs_to_manifest": meta.get("needs_to_manifest"), "files_changed": meta.get("files_changed"),
               "what_i_ran": {"demo on unmodified worktree": res["demo_unmodified"], "demo with the patch": res["demo_modified"],
                              "whole suite with the patch": res.get("suite"), "all 20 checks against the patched tree (run.py --src)": "see caught_by"},
               "caught_by": res["caught_by"]}
        if meta.get("rebased"):
            out["rebased"] = meta["rebased"]
        if meta.get("side_observations_unmodified_tree"):
            out["side_observations_unmodified_tree"] = meta["side_observations_unmodified_tree"]
        orig = os.path.join(srcdir, "patch.orig.diff")
        if os.path.exists(orig):
            shutil.copy(orig, os.path.join(dst, "patch.orig.diff"))
        json.dump(out, open(os.path.join(dst, "meta.json"), "w"), indent=1)
    return res


def write_index():
    rows = []
    base = os.path.join(VERIF, "seeded")
    for d in sorted(os.listdir(base)):
        mp = os.path.join(base, d, "meta.json")
        if not os.path.exists(mp):
            continue
        m = json.load(open(mp))
        cb = m.get("caught_by", {})
        own = m.get("breaks_property")
        caught = "; ".join(f"{p}: {', '.join(v['rules'])}" for p, v in sorted(cb.items())) or "**not caught**"
        rows.append(f"| `{d}` | {own} | {str(m.get('summary'))[:160]} | {str(m.get('needs_to_manifest'))[:140]} | {caught} |")
    with open(os.path.join(base, "INDEX.md"), "w") as fh:
        fh.write("# Seeded changes and the checks that report them\n\n"
                 "Written by independent sub-agents (property text + scratch worktree only), each confirmed by tools/seeded.py: demo passes on the\n"
                 "unmodified tree, fails with the patch, and the whole unedited suite passes with the patch.\n\n"
                 "| id | property | change | needs | reported by |\n|---|---|---|---|---|\n" + "\n".join(rows) + "\n")


def rerun():
    base = os.path.join(VERIF, "seeded")
    for d in sorted(os.listdir(base)):
        patch = os.path.join(base, d, "patch.diff")
        if not os.path.exists(patch):
            continue
        st = sh("git -C /repo status --porcelain")
        assert not st.stdout.strip(), "/repo has local changes"
        ap = sh(f"git -C /repo apply {patch}")
        try:
            if ap.returncode != 0:
                print(d, "patch no longer applies:", ap.stderr[:200])
                continue
            caught = run_checks("/repo/src/xstate_statemachine")
        finally:
            sh("git -C /repo checkout -- .")
        mp = os.path.join(base, d, "meta.json")
        m = json.load(open(mp))
        m["caught_by"] = caught
        json.dump(m, open(mp, "w"), indent=1)
        print(d, {p: v["rules"] for p, v in caught.items()} or "NOT CAUGHT")
    write_index()


def _scratch_one(d):
    """All twenty checks (one process, tools/run_all.py) against a scratch copy of /repo/src with one kept patch applied."""
    import tempfile
    base = os.path.join(VERIF, "seeded")
    patch = os.path.join(base, d, "patch.diff")
    work = tempfile.mkdtemp(prefix="xsm_seed_")
    try:
        os.makedirs(os.path.join(work, "src"))
        shutil.copytree("/repo/src/xstate_statemachine", os.path.join(work, "src", "xstate_statemachine"), ignore=shutil.ignore_patterns("__pycache__"))
        r = sh(["patch", "-p1", "-s", "-i", patch], cwd=work)
        if r.returncode != 0:
            return d, None, (r.stdout + r.stderr)[-200:]
        r = sh([PY, os.path.join(VERIF, "tools", "run_all.py"), os.path.join(work, "src", "xstate_statemachine")], cwd=VERIF)
        res = json.loads(r.stdout.strip().splitlines()[-1])
        caught = {}
        for p_, v in res.items():
            if v["rc"] == 1:
                caught[p_] = {"rules": sorted(set(v["rules"])), "reports": [x[:400] for x in v["reports"]][:6]}
            elif v["rc"] == 2:
                caught[p_] = {"rules": ["ANALYSIS-ERROR"], "reports": [x[:300] for x in v["reports"]][:1]}
        return d, caught, ""
    finally:
        shutil.rmtree(work, ignore_errors=True)


def rerun_scratch(jobs=8):
    """Like rerun, but every kept patch is applied to its own scratch copy of /repo/src (removed at once), several at a time."""
    import multiprocessing as mp
    base = os.path.join(VERIF, "seeded")
    ds = [d for d in sorted(os.listdir(base)) if os.path.exists(os.path.join(base, d, "patch.diff"))]
    with mp.Pool(jobs) as pool:
        for d, caught, err in pool.imap_unordered(_scratch_one, ds):
            if caught is None:
                print(d, "patch no longer applies:", err)
                continue
            mp_ = os.path.join(base, d, "meta.json")
            m = json.load(open(mp_))
            m["caught_by"] = caught
            json.dump(m, open(mp_, "w"), indent=1)
            print(d, {p_: v["rules"] for p_, v in caught.items()} or "NOT CAUGHT")
    write_index()


if __name__ == "__main__":
    if sys.argv[1] == "rerun-scratch":
        rerun_scratch(int(sys.argv[2]) if len(sys.argv) > 2 else 8)
    elif sys.argv[1] == "confirm":
        r = confirm(sys.argv[2], sys.argv[3], "--skip-suite" in sys.argv)
        print(json.dumps(r, indent=1)[:3000])
        write_index()
    elif sys.argv[1] == "rerun":
        rerun()
