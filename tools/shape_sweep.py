#!/venv/bin/python
"""shape_sweep.py [-j N] [--modules a,b] [--kinds swap,nest]: apply one behaviour-preserving control-flow rewrite at a time and check
that all twenty checks stay silent (development tool, companion of alpha_sweep.py).

  swap : if c: A else: B          ->  if not c: B else: A
  nest : if c: <..leaves>; REST   ->  if c: <..leaves> else: REST        (guard clause to if/else; REST non-empty, body always leaves)
  unnest : the reverse;   demorgan : a and b -> not (not a or not b);   name : if T: -> cond = T; if cond:
"""
import ast, copy, json, multiprocessing as mp, os, shutil, subprocess, sys, tempfile
V = os.path.dirname(os.path.dirname(os.path.abspath(__file__)))
SRC = "/repo/src/xstate_statemachine"


def leaves(body):
    if not body:
        return False
    last = body[-1]
    if isinstance(last, (ast.Return, ast.Raise, ast.Continue, ast.Break)):
        return True
    if isinstance(last, ast.If) and last.orelse:
        return leaves(last.body) and leaves(last.orelse)
    return False


def sites(tree, kind):
    """(block owner index path) of every applicable site: list of (node, field, index)."""
    out = []
    for n in ast.walk(tree):
        for fld in ("body", "orelse", "finalbody"):
            blk = getattr(n, fld, None)
            if not (isinstance(blk, list) and blk and isinstance(blk[0], ast.stmt)):
                continue
            for i, s in enumerate(blk):
                if not isinstance(s, ast.If):
                    continue
                if kind == "swap" and s.orelse:
                    out.append((n, fld, i))
                if kind == "nest" and not s.orelse and leaves(s.body) and i + 1 < len(blk):
                    out.append((n, fld, i))
                if kind == "unnest" and s.orelse and leaves(s.body) and not (len(s.orelse) == 1 and isinstance(s.orelse[0], ast.If) and False):
                    out.append((n, fld, i))
                if kind == "demorgan" and isinstance(s.test, ast.BoolOp):
                    out.append((n, fld, i))
                if kind == "name" and not isinstance(s.test, ast.Name) and not any(isinstance(y, (ast.NamedExpr, ast.Await)) for y in ast.walk(s.test)):
                    out.append((n, fld, i))
    return out


def neg(t):
    if isinstance(t, ast.UnaryOp) and isinstance(t.op, ast.Not):
        return t.operand
    return ast.UnaryOp(op=ast.Not(), operand=t)


def job(a):
    rel, kind, k = a
    d = tempfile.mkdtemp(prefix="xsm_shape_")
    try:
        dst = os.path.join(d, "xstate_statemachine")
        shutil.copytree(SRC, dst, ignore=shutil.ignore_patterns("__pycache__"))
        p = os.path.join(dst, rel)
        tree = ast.parse(open(p, encoding="utf8").read())
        n, fld, i = sites(tree, kind)[k]
        blk = getattr(n, fld)
        s = blk[i]
        where = f"{rel}:{s.lineno}"
        if kind == "swap":
            s.test, s.body, s.orelse = neg(s.test), s.orelse, s.body
        elif kind == "nest":
            s.orelse = blk[i + 1:]
            del blk[i + 1:]
        elif kind == "unnest":
            rest = s.orelse
            s.orelse = []
            blk[i + 1:i + 1] = rest
        elif kind == "demorgan":
            t = s.test
            inner = ast.BoolOp(op=ast.Or() if isinstance(t.op, ast.And) else ast.And(), values=[neg(v) for v in t.values])
            s.test = ast.UnaryOp(op=ast.Not(), operand=inner)
        elif kind == "name":
            nm = f"cond_{s.lineno}"
            blk.insert(i, ast.Assign(targets=[ast.Name(id=nm, ctx=ast.Store())], value=s.test))
            s.test = ast.Name(id=nm, ctx=ast.Load())
        ast.fix_missing_locations(tree)
        open(p, "w", encoding="utf8").write(ast.unparse(tree) + "\n")
        r = subprocess.run(["/venv/bin/python", f"{V}/tools/run_all.py", dst], capture_output=True, text=True, cwd=V)
        res = json.loads(r.stdout.strip().splitlines()[-1])
        if res:
            return (where, kind, {k_: (v["rules"], (v["reports"] or [""])[0][:220]) for k_, v in res.items()})
        return None
    finally:
        shutil.rmtree(d, ignore_errors=True)


def main():
    j = int(sys.argv[sys.argv.index("-j") + 1]) if "-j" in sys.argv else 8
    mods = sys.argv[sys.argv.index("--modules") + 1].split(",") if "--modules" in sys.argv else ["base_interpreter.py", "interpreter.py", "sync_interpreter.py"]
    kinds = sys.argv[sys.argv.index("--kinds") + 1].split(",") if "--kinds" in sys.argv else ["swap", "nest"]
    jobs = []
    for rel in mods:
        tree = ast.parse(open(os.path.join(SRC, rel), encoding="utf8").read())
        for kind in kinds:
            jobs.extend((rel, kind, k) for k in range(len(sites(tree, kind))))
    print(len(jobs), "rewrites", flush=True)
    bad = 0
    with mp.Pool(j) as pool:
        for r in pool.imap_unordered(job, jobs, chunksize=2):
            if r:
                bad += 1
                print("ALARM", r[0], r[1], json.dumps(r[2])[:700], flush=True)
    print("done:", bad, "of", len(jobs), "rewrites raise an alarm")


if __name__ == "__main__":
    main()
