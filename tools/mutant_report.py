#!/venv/bin/python
"""mutant_report.py: digest of the mutation survey (tools/mutants.py) - development tool.

  mutant_report.py summary                      counts per module: reported by a rule / killed by tests / survivors
  mutant_report.py survivors [--file f] [--func s]   unreported survivors grouped by function (diagnostic-only mutants dropped)
  mutant_report.py batches <outdir> [--size N]   write triage batches (one markdown file per batch) for sub-agents
"""
import ast
import json
import os
import sys
from collections import Counter, defaultdict

WORK = "/tmp/xsm_mutants"
SRC = "/repo/src/xstate_statemachine"


def load():
    ms = {str(m["id"]): m for m in json.load(open(os.path.join(WORK, "mutants.json")))}
    st = json.load(open(os.path.join(WORK, "static.json")))
    ts = json.load(open(os.path.join(WORK, "tests.json"))) if os.path.exists(os.path.join(WORK, "tests.json")) else {}
    return ms, st, ts


_trees = {}


def stmt_at(rel, line, end_line):
    if rel not in _trees:
        _trees[rel] = ast.parse(open(os.path.join(SRC, rel), encoding="utf8").read())
    best = None
    for n in ast.walk(_trees[rel]):
        if isinstance(n, ast.stmt) and n.lineno <= line and (n.end_lineno or n.lineno) >= end_line:
            if best is None or (n.end_lineno - n.lineno) <= (best.end_lineno - best.lineno):
                best = n
    return best


def diagnostic_only(m):
    s = stmt_at(m["file"], m["line"], m["end_line"])
    if s is None:
        return False
    if isinstance(s, ast.Expr) and isinstance(s.value, ast.Call) and isinstance(s.value.func, ast.Attribute) and \
            isinstance(s.value.func.value, ast.Name) and s.value.func.value.id in ("logger", "logging", "warnings"):
        return True
    if m["func"].endswith(("__repr__", "__str__")) or ".__repr__" in m["func"]:
        return True
    if isinstance(s, ast.Raise) and m["op"] != "del-stmt":
        return True              # the message / arguments of a raise
    return False


def status(sid, st, ts):
    res = st.get(sid, {})
    if "_error" in res:
        return "analysis-error"
    rcs = [x.get("rc") for x in res.values() if isinstance(x, dict)]
    if 1 in rcs:
        return "reported"
    if 2 in rcs:
        return "analysis-error"
    t = ts.get(sid)
    if t is None:
        return "untested"
    return t["status"]


def summary():
    ms, st, ts = load()
    c = defaultdict(Counter)
    for sid, m in ms.items():
        c[m["file"]][status(sid, st, ts)] += 1
        c["TOTAL"][status(sid, st, ts)] += 1
    keys = ["reported", "analysis-error", "killed", "survived", "survived-sample", "uncovered", "untested", "timeout"]
    print("| module | " + " | ".join(keys) + " |")
    print("|---|" + "---|" * len(keys))
    for f in sorted(c):
        print(f"| {f} | " + " | ".join(str(c[f].get(k, 0)) for k in keys) + " |")


def survivors(file=None, func=None):
    ms, st, ts = load()
    groups = defaultdict(list)
    for sid, m in ms.items():
        if file and m["file"] != file:
            continue
        if func and func not in m["func"]:
            continue
        s = status(sid, st, ts)
        if s not in ("survived", "survived-sample", "uncovered"):
            continue
        if diagnostic_only(m):
            continue
        groups[(m["file"], m["func"])].append((m["line"], sid, m["op"], m["detail"], s, ts.get(sid, {}).get("n_tests", 0)))
    return groups


def main():
    cmd = sys.argv[1] if len(sys.argv) > 1 else "summary"
    arg = lambda k, d=None: (sys.argv[sys.argv.index(k) + 1] if k in sys.argv else d)
    if cmd == "summary":
        summary()
    elif cmd == "survivors":
        g = survivors(arg("--file"), arg("--func"))
        for (f, fn), rows in sorted(g.items()):
            print(f"## {f} :: {fn}  ({len(rows)})")
            for r in sorted(rows):
                print(f"   L{r[0]} #{r[1]} [{r[2]}] {r[3][:110]}  ({r[4]}, {r[5]} tests)")
    elif cmd == "batches":
        out = sys.argv[2]
        size = int(arg("--size", "45"))
        os.makedirs(out, exist_ok=True)
        texts = json.load(open(os.path.join(WORK, "texts.json")))
        g = survivors(arg("--file"))
        flat = []
        for (f, fn), rows in sorted(g.items()):
            for r in sorted(rows):
                flat.append((f, fn, r))
        import difflib
        nb = 0
        for i in range(0, len(flat), size):
            nb += 1
            with open(os.path.join(out, f"batch_{nb:02d}.md"), "w") as fh:
                for f, fn, r in flat[i:i + size]:
                    sid = r[1]
                    orig = open(os.path.join(SRC, f), encoding="utf8").read().splitlines(keepends=True)
                    new = texts[sid].splitlines(keepends=True)
                    d = "".join(difflib.unified_diff(orig, new, f"a/src/xstate_statemachine/{f}", f"b/src/xstate_statemachine/{f}", n=4))
                    fh.write(f"### mutant {sid}  ({f} :: {fn}, line {r[0]}, operator {r[2]}; tests executing the line: {r[5]})\n\n```diff\n{d}```\n\n")
            with open(os.path.join(out, f"batch_{nb:02d}.json"), "w") as fh:
                json.dump({r[1]: texts[r[1]] for _, _, r in flat[i:i + size]}, fh)
        print(nb, "batches,", len(flat), "mutants")


if __name__ == "__main__":
    main()
