#!/venv/bin/python
"""run_all.py <src-dir> [--tier quick|thorough]: all twenty checks against one source tree in one process
(one parse, one resolver).  Development tool used by tools/mutants.py and tools/seeded.py; prints one JSON
object {property: {"rc": 0|1|2, "rules": [...], "reports": [...]}} on the last line.  Never writes evidence."""
import contextlib
import importlib
import io
import json
import os
import re
import sys
import traceback

HERE = os.path.dirname(os.path.dirname(os.path.abspath(__file__)))
sys.path.insert(0, HERE)


def main() -> int:
    src = sys.argv[1]
    tier = sys.argv[sys.argv.index("--tier") + 1] if "--tier" in sys.argv else "quick"
    os.environ["XSM_VERIF_SRC"] = src
    from sa.program import AnalysisError, Program
    from sa.calls import Resolver
    from sa.report import Check
    from run import Ctx
    out = {}
    try:
        program = Program()
        resolver = Resolver(program)
    except Exception as e:                       # unparsable variant
        print(json.dumps({"_error": f"{type(e).__name__}: {e}"}))
        return 2
    for i in range(1, 21):
        prop = f"C{i:02d}"
        buf = io.StringIO()
        rc = 0
        try:
            with contextlib.redirect_stdout(buf):
                check = Check(prop, tier, program)
                check.write_files = False
                mod = importlib.import_module(f"rules.{prop}")
                mod.run(Ctx(program, resolver, check, tier))
                rc = check.finish()
        except AnalysisError as e:
            rc = 2
            buf.write(f"ANALYSIS-ERROR {e}\n")
            from sa.report import load_known
            kk = {k["key"] for k in load_known().get("findings", []) if k.get("property") == prop}
            if any(f.key not in kk for f in check.findings):
                with contextlib.redirect_stdout(buf):
                    rc = check.finish()
        except Exception:
            rc = 2
            buf.write("ANALYSIS-ERROR internal: " + traceback.format_exc()[-400:] + "\n")
        text = buf.getvalue()
        lines = [l for l in text.splitlines() if not l.startswith("KNOWN-FINDING")]
        rules = sorted(set(re.findall(r"\[(C\d\d\.R\w+)\]", "\n".join(lines))))
        if rc:
            reps = [l.strip()[:300] for l in lines if l.startswith("  ") and "[" + prop in l] or [l[:300] for l in lines if "ANALYSIS-ERROR" in l]
            out[prop] = {"rc": rc, "rules": rules if rc == 1 else ["ANALYSIS-ERROR"], "reports": reps[:4]}
    print(json.dumps(out))
    return 0


if __name__ == "__main__":
    sys.exit(main())
