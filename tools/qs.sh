#!/bin/sh
# qs.sh <worktree>...: which rules report the change in each worktree (all 20 checks, one process)
for wt in "$@"; do echo "=== $wt"; /venv/bin/python /verif/tools/run_all.py $wt/src/xstate_statemachine | tail -1 | /venv/bin/python -c "
import json,sys
d=json.loads(sys.stdin.read())
for k,v in d.items(): print(' ',k,v['rc'],v['rules'],(v['reports'] or [''])[0][:200])
print('  (nothing)' if not d else '')"; done
