#!/venv/bin/python
"""Mutation survey of the checkers (development tool; never registered in MANIFEST.json, decides nothing).

  mutants.py gen    [--modules a,b,...]            -> work/mutants.json   (single-node AST mutants of /repo/src)
  mutants.py static [-j N]                         -> work/static.json    (which rules report each mutant; one process per mutant,
                                                                          all twenty checks, scratch copy removed at once)
  mutants.py tests  [-j N] [--cov <.coverage>]     -> work/tests.json     (for mutants no rule reports: do the tests that execute
                                                                          the mutated line still pass?  survivors = realistic
                                                                          test-passing changes the checkers do not see)
  mutants.py show   [--survivors] [--func name]

A mutant is applied to the original source text (the node's own span is replaced by the unparsed mutated node), so
line numbers of everything above the mutated statement are unchanged and the coverage map still applies.
The work directory is /tmp/xsm_mutants (scratch, outside /repo and /verif); only summaries are copied to /verif.
"""
import argparse
import ast
import copy
import json
import multiprocessing as mp
import os
import re
import shutil
import sqlite3
import subprocess
import sys
import tempfile
import time

VERIF = os.path.dirname(os.path.dirname(os.path.abspath(__file__)))
SRC = "/repo/src/xstate_statemachine"
WORK = "/tmp/xsm_mutants"
PY = "/venv/bin/python"
DEFAULT_MODULES = ["base_interpreter.py", "interpreter.py", "sync_interpreter.py", "models.py", "resolver.py", "helpers.py",
                   "logic_loader.py", "machine_logic.py", "factory.py", "actions.py", "pythonic.py", "task_manager.py",
                   "cli/ir.py", "cli/emit.py", "cli/builders.py", "cli/extractor.py", "cli/validation.py"]

CMP_SWAP = {ast.Eq: ast.NotEq, ast.NotEq: ast.Eq, ast.Lt: ast.LtE, ast.LtE: ast.Lt, ast.Gt: ast.GtE, ast.GtE: ast.Gt,
            ast.Is: ast.IsNot, ast.IsNot: ast.Is, ast.In: ast.NotIn, ast.NotIn: ast.In}


def is_logger_call(n):
    return isinstance(n, ast.Expr) and isinstance(n.value, ast.Call) and isinstance(n.value.func, ast.Attribute) and \
        isinstance(n.value.func.value, ast.Name) and n.value.func.value.id in ("logger", "logging", "warnings")


def is_docstring(n):
    return isinstance(n, ast.Expr) and isinstance(n.value, ast.Constant) and isinstance(n.value.value, str)


class Gen:
    def __init__(self, rel, text):
        self.rel = rel
        self.text = text
        self.lines = text.splitlines(keepends=True)
        self.tree = ast.parse(text)
        self.out = []
        self.func = []

    def seg(self, node):
        return ast.get_source_segment(self.text, node)

    def emit(self, node, new_node_or_text, op, detail):
        """Replace *node*'s span by the new text."""
        new = new_node_or_text if isinstance(new_node_or_text, str) else ast.unparse(new_node_or_text)
        l0, c0, l1, c1 = node.lineno, node.col_offset, node.end_lineno, node.end_col_offset
        # col offsets are utf8 byte offsets
        first = self.lines[l0 - 1].encode("utf8")
        last = self.lines[l1 - 1].encode("utf8")
        indent = " " * (len(self.lines[l0 - 1]) - len(self.lines[l0 - 1].lstrip())) if isinstance(node, ast.stmt) else ""
        if isinstance(node, ast.stmt) and "\n" in new:
            new = new.replace("\n", "\n" + indent)
        before = first[:c0].decode("utf8")
        after = last[c1:].decode("utf8")
        if not isinstance(node, ast.stmt) and not isinstance(new_node_or_text, str):
            new = "(" + new + ")"
        mutated = "".join(self.lines[:l0 - 1]) + before + new + after + "".join(self.lines[l1:])
        try:
            compile(mutated, self.rel, "exec")
        except SyntaxError:
            return
        self.out.append({"file": self.rel, "line": l0, "end_line": l1, "op": op, "detail": detail[:160], "func": ".".join(self.func) or "<module>",
                         "orig": (self.seg(node) or "")[:200], "new": new[:200], "_text": mutated})

    def visit(self, node):
        if isinstance(node, (ast.FunctionDef, ast.AsyncFunctionDef, ast.ClassDef)):
            self.func.append(node.name)
            for ch in ast.iter_child_nodes(node):
                self.visit(ch)
            self.func.pop()
            return
        self.mutate(node)
        for ch in ast.iter_child_nodes(node):
            self.visit(ch)

    def mutate(self, n):
        if isinstance(n, ast.stmt) and not self.func:
            return                                        # module level: imports, constants, class bodies are handled via visit
        # ---- statements
        if isinstance(n, (ast.Expr, ast.Assign, ast.AugAssign, ast.AnnAssign, ast.Delete, ast.Raise)) and not is_logger_call(n) and not is_docstring(n):
            if not (isinstance(n, ast.AnnAssign) and n.value is None):
                self.emit(n, "pass", "del-stmt", f"delete '{(self.seg(n) or '')[:80]}'")
        if isinstance(n, ast.Return) and n.value is not None and not (isinstance(n.value, ast.Constant) and n.value.value is None):
            self.emit(n, "return None", "ret-none", "return None instead of the value")
        if isinstance(n, ast.Break):
            self.emit(n, "continue", "break-continue", "break -> continue")
        if isinstance(n, ast.Continue):
            self.emit(n, "break", "continue-break", "continue -> break")
        if isinstance(n, (ast.If, ast.While)) and not (isinstance(n.test, ast.Constant)):
            if "TYPE_CHECKING" not in (self.seg(n.test) or ""):
                self.emit(n.test, ast.UnaryOp(op=ast.Not(), operand=copy.deepcopy(n.test)), "neg-cond", f"negate '{(self.seg(n.test) or '')[:80]}'")
                if isinstance(n, ast.If):
                    self.emit(n.test, "True", "cond-true", f"'{(self.seg(n.test) or '')[:80]}' -> True")
                    self.emit(n.test, "False", "cond-false", f"'{(self.seg(n.test) or '')[:80]}' -> False")
        if isinstance(n, ast.IfExp):
            m = copy.deepcopy(n)
            m.body, m.orelse = m.orelse, m.body
            self.emit(n, m, "ifexp-swap", "swap the branches of the conditional expression")
        # ---- expressions
        if isinstance(n, ast.Compare) and len(n.ops) == 1 and type(n.ops[0]) in CMP_SWAP:
            m = copy.deepcopy(n)
            m.ops = [CMP_SWAP[type(n.ops[0])]()]
            self.emit(n, m, "cmp-op", f"{type(n.ops[0]).__name__} -> {type(m.ops[0]).__name__} in '{(self.seg(n) or '')[:80]}'")
        if isinstance(n, ast.BoolOp):
            m = copy.deepcopy(n)
            m.op = ast.Or() if isinstance(n.op, ast.And) else ast.And()
            self.emit(n, m, "bool-op", f"and<->or in '{(self.seg(n) or '')[:80]}'")
            for i in range(len(n.values)):
                if len(n.values) >= 2:
                    m = copy.deepcopy(n)
                    del m.values[i]
                    self.emit(n, m if len(m.values) > 1 else m.values[0], "bool-drop", f"drop operand {i} of '{(self.seg(n) or '')[:80]}'")
        if isinstance(n, ast.UnaryOp) and isinstance(n.op, ast.Not):
            self.emit(n, copy.deepcopy(n.operand), "not-drop", f"drop 'not' in '{(self.seg(n) or '')[:80]}'")
        if isinstance(n, ast.Constant) and isinstance(n.value, bool):
            self.emit(n, repr(not n.value), "const-bool", f"{n.value} -> {not n.value}")
        elif isinstance(n, ast.Constant) and isinstance(n.value, int) and not isinstance(n.value, bool):
            self.emit(n, repr(n.value + 1), "const-int", f"{n.value} -> {n.value + 1}")
        if isinstance(n, ast.Call):
            fn = n.func
            name = fn.id if isinstance(fn, ast.Name) else (fn.attr if isinstance(fn, ast.Attribute) else "")
            if name in ("sorted",) and n.args:
                m = ast.Call(func=ast.Name(id="list", ctx=ast.Load()), args=[copy.deepcopy(n.args[0])], keywords=[])
                self.emit(n, m, "unsort", f"sorted(...) -> list(...) in '{(self.seg(n) or '')[:80]}'")
            for i, k in enumerate(n.keywords):
                if k.arg in ("reverse", "key", "default", "stop_at"):
                    m = copy.deepcopy(n)
                    del m.keywords[i]
                    self.emit(n, m, "kw-drop", f"drop {k.arg}= in '{(self.seg(n) or '')[:80]}'")
            if name in ("list", "set", "tuple", "frozenset", "copy", "deepcopy") and len(n.args) == 1 and not n.keywords:
                self.emit(n, copy.deepcopy(n.args[0]), "uncopy", f"drop the {name}() copy in '{(self.seg(n) or '')[:80]}'")
        if isinstance(n, ast.comprehension) and n.ifs:
            pass   # handled through the parent below
        if isinstance(n, (ast.ListComp, ast.SetComp, ast.GeneratorExp, ast.DictComp)):
            for gi, g in enumerate(n.generators):
                for ii in range(len(g.ifs)):
                    m = copy.deepcopy(n)
                    del m.generators[gi].ifs[ii]
                    self.emit(n, m, "compif-drop", f"drop filter '{(self.seg(g.ifs[ii]) or '')[:60]}'")
        if isinstance(n, ast.Try) and n.finalbody and self.func:
            m = copy.deepcopy(n)
            m.finalbody = [ast.Pass()]
            self.emit(n, m, "finally-drop", "empty the finally block")
        if isinstance(n, ast.Await):
            pass


def gen(modules):
    os.makedirs(WORK, exist_ok=True)
    allm = []
    for rel in modules:
        text = open(os.path.join(SRC, rel), encoding="utf8").read()
        g = Gen(rel, text)
        g.visit(g.tree)
        seen = set()
        for m in g.out:
            key = (m["line"], m["op"], m["new"], m["orig"])
            if key in seen:
                continue
            seen.add(key)
            allm.append(m)
    for i, m in enumerate(allm):
        m["id"] = i
    texts = {m["id"]: m.pop("_text") for m in allm}
    json.dump(allm, open(os.path.join(WORK, "mutants.json"), "w"), indent=0)
    json.dump(texts, open(os.path.join(WORK, "texts.json"), "w"))
    from collections import Counter
    print(len(allm), "mutants;", dict(Counter(m["op"] for m in allm)))
    print(dict(Counter(m["file"] for m in allm)))


def _materialise(m, text):
    d = tempfile.mkdtemp(prefix="xsm_mut_")
    tree = os.path.join(d, "src", "xstate_statemachine")
    shutil.copytree(SRC, tree, ignore=shutil.ignore_patterns("__pycache__"))
    with open(os.path.join(tree, m["file"]), "w", encoding="utf8") as fh:
        fh.write(text)
    return d, tree


def _static_one(args):
    m, text = args
    d, tree = _materialise(m, text)
    try:
        r = subprocess.run([PY, os.path.join(VERIF, "tools", "run_all.py"), tree], capture_output=True, text=True, cwd=VERIF)
        try:
            res = json.loads(r.stdout.strip().splitlines()[-1])
        except Exception:
            res = {"_error": (r.stdout + r.stderr)[-300:]}
        return m["id"], res
    finally:
        shutil.rmtree(d, ignore_errors=True)


def static(jobs):
    ms = json.load(open(os.path.join(WORK, "mutants.json")))
    texts = json.load(open(os.path.join(WORK, "texts.json")))
    outp = os.path.join(WORK, "static.json")
    done = json.load(open(outp)) if os.path.exists(outp) else {}
    todo = [(m, texts[str(m["id"])]) for m in ms if str(m["id"]) not in done]
    print(len(todo), "to analyse")
    t0 = time.time()
    with mp.Pool(jobs) as pool:
        for k, (mid, res) in enumerate(pool.imap_unordered(_static_one, todo)):
            done[str(mid)] = res
            if k % 200 == 0:
                json.dump(done, open(outp, "w"))
                print(k, round(time.time() - t0), "s", flush=True)
    json.dump(done, open(outp, "w"))
    flagged = sum(1 for v in done.values() if any(isinstance(x, dict) and x.get("rc") == 1 for x in v.values()))
    errs = sum(1 for v in done.values() if any(isinstance(x, dict) and x.get("rc") == 2 for x in v.values()) or "_error" in v)
    print(f"{len(done)} mutants: {flagged} reported by at least one rule, {errs} with an analysis error")


# ------------------------------------------------------------------------------------------------ tests
def load_cov(path):
    """{relative file: {line: set(test ids)}} from a coverage sqlite file recorded with --cov-context=test."""
    con = sqlite3.connect(path)
    files = {fid: p for fid, p in con.execute("select id, path from file")}
    ctxs = {cid: c for cid, c in con.execute("select id, context from context")}
    out = {}
    from coverage.numbits import numbits_to_nums
    has_lb = con.execute("select count(*) from line_bits").fetchone()[0]
    if has_lb:
        for fid, cid, nb in con.execute("select file_id, context_id, numbits from line_bits"):
            rel = files[fid].split("xstate_statemachine/", 1)[-1]
            for ln in numbits_to_nums(nb):
                out.setdefault(rel, {}).setdefault(ln, set()).add(ctxs[cid])
    else:
        for fid, cid, a, b in con.execute("select file_id, context_id, fromno, tono from arc"):
            rel = files[fid].split("xstate_statemachine/", 1)[-1]
            for ln in (a, b):
                if ln > 0:
                    out.setdefault(rel, {}).setdefault(ln, set()).add(ctxs[cid])
    return out


def _ctx_to_nodeid(c):
    # "tests/test_x.py::TestA::test_b|run"  (pytest-cov contexts)
    c = c.split("|")[0]
    return c


def _tests_one(args):
    m, text, tests, wt_template = args
    if not tests:
        return m["id"], {"status": "uncovered", "n_tests": 0}
    d = tempfile.mkdtemp(prefix="xsm_mutt_")
    try:
        # a full checkout is needed (tests, docs, examples): hard-link copy of the template worktree
        wt = os.path.join(d, "wt")
        subprocess.run(["cp", "-al", wt_template, wt], check=True)
        target = os.path.join(wt, "src", "xstate_statemachine", m["file"])
        os.unlink(target)                                   # break the hard link before writing
        with open(target, "w", encoding="utf8") as fh:
            fh.write(text)
        env = dict(os.environ, PYTHONPATH=os.path.join(wt, "src"), PYTHONDONTWRITEBYTECODE="1")
        ids = sorted(tests)
        t0 = time.time()
        sampled = False
        if len(ids) > 400:
            # hot line: a deterministic sample of the covering tests (a survivor of the sample is re-run on the whole suite
            # before anything is concluded from it)
            import random
            ids = sorted(random.Random(m["id"]).sample(ids, 300))
            sampled = True
        if False:
            pass
        else:
            cmd = [PY, "-m", "pytest", "-q", "-x", "-p", "no:cacheprovider", "--timeout=300", "-o", "addopts="] + ids
        try:
            r = subprocess.run(cmd, capture_output=True, text=True, cwd=wt, env=env, timeout=1500)
            tail = (r.stdout + r.stderr)[-400:]
            status = "survived" if r.returncode == 0 else ("killed" if r.returncode == 1 or " failed" in tail or "stopping after" in tail or " error" in tail.lower()
                                                           else f"error{r.returncode}")
        except subprocess.TimeoutExpired:
            status, tail = "timeout", ""
        return m["id"], {"status": status + ("-sample" if sampled and status == "survived" else ""), "n_tests": len(tests), "wall_s": round(time.time() - t0, 1), "tail": tail if status != "survived" else ""}
    finally:
        shutil.rmtree(d, ignore_errors=True)


def tests(jobs, covfile, template, only_unflagged=True, limit=None):
    ms = json.load(open(os.path.join(WORK, "mutants.json")))
    texts = json.load(open(os.path.join(WORK, "texts.json")))
    st = json.load(open(os.path.join(WORK, "static.json")))
    cov = load_cov(covfile)
    outp = os.path.join(WORK, "tests.json")
    done = json.load(open(outp)) if os.path.exists(outp) else {}
    todo = []
    for m in ms:
        sid = str(m["id"])
        if sid in done:
            continue
        if sid not in st:
            continue
        res = st.get(sid, {})
        if only_unflagged and (any(isinstance(x, dict) and x.get("rc") for x in res.values()) or "_error" in res):
            continue
        lines = cov.get(m["file"], {})
        tset = set()
        for ln in range(m["line"], m["end_line"] + 1):
            tset |= {_ctx_to_nodeid(c) for c in lines.get(ln, ()) if c}
        todo.append((m, texts[sid], tset, template))
    if limit:
        todo = todo[:limit]
    # cheapest first; mutants of hot lines (many covering tests) run whole test files under xdist, fewer at a time
    todo.sort(key=lambda a: len(a[2]))
    small = [t for t in todo if len(t[2]) <= 400]
    big = [t for t in todo if len(t[2]) > 400]
    print(len(small), "mutants with <= 400 covering tests,", len(big), "hot ones")
    from collections import Counter
    t0 = time.time()
    for batch, j in ((small, jobs), (big, jobs)):
        with mp.Pool(j) as pool:
            for k, (mid, res) in enumerate(pool.imap_unordered(_tests_one, batch)):
                done[str(mid)] = res
                if k % 50 == 0:
                    json.dump(done, open(outp, "w"))
                    print(k, round(time.time() - t0), "s", dict(Counter(v["status"] for v in done.values())), flush=True)
        json.dump(done, open(outp, "w"))
    print(dict(Counter(v["status"] for v in done.values())))


def show(survivors, func):
    ms = {str(m["id"]): m for m in json.load(open(os.path.join(WORK, "mutants.json")))}
    st = json.load(open(os.path.join(WORK, "static.json")))
    ts = json.load(open(os.path.join(WORK, "tests.json"))) if os.path.exists(os.path.join(WORK, "tests.json")) else {}
    for sid, m in ms.items():
        if func and func not in m["func"]:
            continue
        t = ts.get(sid, {})
        if survivors and t.get("status") not in ("survived", "uncovered"):
            continue
        res = st.get(sid, {})
        rules = sorted({r for v in res.values() if isinstance(v, dict) for r in v.get("rules", [])})
        print(f"#{sid} {m['file']}:{m['line']} {m['func']} [{m['op']}] {m['detail']}  ->  rules={rules} tests={t.get('status')}({t.get('n_tests')})")


if __name__ == "__main__":
    ap = argparse.ArgumentParser()
    ap.add_argument("cmd")
    ap.add_argument("-j", type=int, default=14)
    ap.add_argument("--modules")
    ap.add_argument("--cov", default="/tmp/covwt/.coverage")
    ap.add_argument("--template", default="/tmp/covwt")
    ap.add_argument("--survivors", action="store_true")
    ap.add_argument("--func")
    ap.add_argument("--limit", type=int)
    a = ap.parse_args()
    if a.cmd == "gen":
        gen(a.modules.split(",") if a.modules else DEFAULT_MODULES)
    elif a.cmd == "static":
        static(a.j)
    elif a.cmd == "tests":
        tests(a.j, a.cov, a.template, limit=a.limit)
    elif a.cmd == "show":
        show(a.survivors, a.func)
