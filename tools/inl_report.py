#!/venv/bin/python
"""inl_report.py <patch.diff>: what the inliner does with a patch (development tool)."""
import os, shutil, subprocess, sys, tempfile
sys.path.insert(0, os.path.dirname(os.path.dirname(os.path.abspath(__file__))))
d = tempfile.mkdtemp(prefix="xsm_inl_")
os.makedirs(os.path.join(d, "src"))
shutil.copytree("/repo/src/xstate_statemachine", os.path.join(d, "src", "xstate_statemachine"))
subprocess.run(["patch", "-p1", "-s", "-i", os.path.abspath(sys.argv[1])], cwd=d, check=True)
os.environ["XSM_VERIF_SRC"] = os.path.join(d, "src", "xstate_statemachine")
from sa.program import Program
p = Program()
for k, v in p.inlined.items():
    print(k, "->", v)
if len(sys.argv) > 2:
    import ast
    f = [x for x in p.all_funcs if x.short == sys.argv[2]][0]
    print(ast.unparse(f.node)[: int(sys.argv[3]) if len(sys.argv) > 3 else 3000])
shutil.rmtree(d)
