#!/venv/bin/python
"""extract_sweep.py [-j N] [--modules a,b]: mechanical "extract method" - one top-level compound statement of a method at a time is moved
into a new private method (parameters: the names it reads; nothing it binds is used afterwards) - and all twenty checks must stay
silent (development tool, companion of alpha_sweep.py / shape_sweep.py; exercises sa/inline.py)."""
import ast, builtins, json, multiprocessing as mp, os, shutil, subprocess, sys, tempfile
V = os.path.dirname(os.path.dirname(os.path.abspath(__file__)))
SRC = "/repo/src/xstate_statemachine"
DEEP = "--deep" in sys.argv
BUILTINS = set(dir(builtins))


def methods(tree):
    for cls in [n for n in ast.walk(tree) if isinstance(n, ast.ClassDef)]:
        for fn in cls.body:
            if isinstance(fn, (ast.FunctionDef, ast.AsyncFunctionDef)) and fn.args.args and fn.args.args[0].arg == "self" \
                    and not any(ast.unparse(d) in ("staticmethod", "classmethod", "property") for d in fn.decorator_list):
                yield cls, fn


def candidates(tree, module_names):
    out = []
    for cls, fn in methods(tree):
        body = fn.body
        local_names = {x.id for x in ast.walk(fn) if isinstance(x, ast.Name) and isinstance(x.ctx, ast.Store)} | \
                      {a.arg for a in fn.args.posonlyargs + fn.args.args + fn.args.kwonlyargs} | ({fn.args.vararg.arg} if fn.args.vararg else set()) | \
                      ({fn.args.kwarg.arg} if fn.args.kwarg else set()) | {h.name for h in ast.walk(fn) if isinstance(h, ast.ExceptHandler) and h.name} | \
                      {d.name for d in ast.walk(fn) if isinstance(d, (ast.FunctionDef, ast.AsyncFunctionDef)) and d is not fn}
        blocks = [(fn, "body")] + [(n, f) for n in ast.walk(fn) if n is not fn and not isinstance(n, (ast.FunctionDef, ast.AsyncFunctionDef, ast.ClassDef))
                                   for f in ("body", "orelse", "finalbody") if isinstance(getattr(n, f, None), list) and getattr(n, f) and isinstance(getattr(n, f)[0], ast.stmt)] \
            if DEEP else [(fn, "body")]
        for bi, (owner, fld) in enumerate(blocks):
          body = getattr(owner, fld)
          for i, s in enumerate(body):
            if not isinstance(s, (ast.For, ast.If, ast.Try, ast.With, ast.While, ast.AsyncFor, ast.AsyncWith)):
                continue
            if owner is not fn:
                # deeper statements: nothing the statement binds may be mentioned anywhere else in the function
                inner_ids = {id(x) for x in ast.walk(s)}
                elsewhere = {x.id for x in ast.walk(fn) if isinstance(x, ast.Name) and id(x) not in inner_ids}
                bound0 = {x.id for x in ast.walk(s) if isinstance(x, ast.Name) and isinstance(x.ctx, (ast.Store, ast.Del))} | {h.name for h in ast.walk(s) if isinstance(h, ast.ExceptHandler) and h.name}
                if bound0 & elsewhere:
                    continue
            inner = list(ast.walk(s))
            if any(isinstance(x, (ast.Return, ast.Yield, ast.YieldFrom, ast.FunctionDef, ast.AsyncFunctionDef, ast.Lambda, ast.Global, ast.Nonlocal, ast.NamedExpr)) for x in inner):
                continue
            # break / continue must belong to loops inside the statement
            def loose(node, in_loop):
                for ch in ast.iter_child_nodes(node):
                    if isinstance(ch, (ast.Break, ast.Continue)) and not in_loop:
                        return True
                    if loose(ch, in_loop or isinstance(ch, (ast.For, ast.While, ast.AsyncFor))):
                        return True
                return False
            if loose(s, isinstance(s, (ast.For, ast.While, ast.AsyncFor))):
                continue
            bound = {x.id for x in inner if isinstance(x, ast.Name) and isinstance(x.ctx, (ast.Store, ast.Del))} | {h.name for h in inner if isinstance(h, ast.ExceptHandler) and h.name}
            later = {x.id for st in body[i + 1:] for x in ast.walk(st) if isinstance(x, ast.Name)}
            if bound & later:
                continue
            # names bound inside must not be read inside before being bound from an outer value (approximation: bound names that are also
            # bound before the statement are passed in as well - then the helper rebinding them is invisible outside: require none)
            before = {x.id for st in body[:i] for x in ast.walk(st) if isinstance(x, ast.Name) and isinstance(x.ctx, ast.Store)}
            if bound & before:
                continue
            reads = []
            for x in inner:
                if isinstance(x, ast.Name) and isinstance(x.ctx, ast.Load) and x.id in local_names and x.id not in bound and x.id != "self" and x.id not in reads:
                    reads.append(x.id)
            out.append((cls.name, fn.name, fn.lineno, (bi, i), reads, any(isinstance(x, (ast.Await, ast.AsyncFor, ast.AsyncWith)) for x in inner)))
    return out


def job(a):
    rel, k = a
    d = tempfile.mkdtemp(prefix="xsm_extract_")
    try:
        dst = os.path.join(d, "xstate_statemachine")
        shutil.copytree(SRC, dst, ignore=shutil.ignore_patterns("__pycache__"))
        p = os.path.join(dst, rel)
        tree = ast.parse(open(p, encoding="utf8").read())
        cname, fname, lineno, i, reads, is_async = candidates(tree, None)[k]
        cls, fn = next((c, f) for c, f in methods(tree) if c.name == cname and f.name == fname and f.lineno == lineno)
        bi, i = i
        blocks = [(fn, "body")] + [(n, f) for n in ast.walk(fn) if n is not fn and not isinstance(n, (ast.FunctionDef, ast.AsyncFunctionDef, ast.ClassDef))
                                   for f in ("body", "orelse", "finalbody") if isinstance(getattr(n, f, None), list) and getattr(n, f) and isinstance(getattr(n, f)[0], ast.stmt)] \
            if DEEP else [(fn, "body")]
        owner, fld = blocks[bi]
        blk = getattr(owner, fld)
        s = blk[i]
        hname = f"_extracted_{fname.strip('_')}_{bi}_{i}"
        args = ast.arguments(posonlyargs=[], args=[ast.arg(arg="self")] + [ast.arg(arg=r) for r in reads], kwonlyargs=[], kw_defaults=[], defaults=[])
        helper = (ast.AsyncFunctionDef if is_async else ast.FunctionDef)(name=hname, args=args, body=[s], decorator_list=[], returns=None, type_params=[])
        call = ast.Call(func=ast.Attribute(value=ast.Name(id="self", ctx=ast.Load()), attr=hname, ctx=ast.Load()),
                        args=[ast.Name(id=r, ctx=ast.Load()) for r in reads], keywords=[])
        if is_async:
            if not isinstance(fn, ast.AsyncFunctionDef):
                return None
            call = ast.Await(value=call)
        blk[i] = ast.Expr(value=call)
        cls.body.insert(cls.body.index(fn) + 1, helper)
        ast.fix_missing_locations(tree)
        src = ast.unparse(tree) + "\n"
        compile(src, p, "exec")
        open(p, "w", encoding="utf8").write(src)
        r = subprocess.run(["/venv/bin/python", f"{V}/tools/run_all.py", dst], capture_output=True, text=True, cwd=V)
        res = json.loads(r.stdout.strip().splitlines()[-1])
        if res:
            return (f"{rel}:{cname}.{fname}[{bi},{i}]@{s.lineno}", {k_: (v["rules"], (v["reports"] or [""])[0][:220]) for k_, v in res.items()})
        return None
    finally:
        shutil.rmtree(d, ignore_errors=True)


def main():
    j = int(sys.argv[sys.argv.index("-j") + 1]) if "-j" in sys.argv else 8
    mods = sys.argv[sys.argv.index("--modules") + 1].split(",") if "--modules" in sys.argv else ["base_interpreter.py", "interpreter.py", "sync_interpreter.py"]
    jobs = []
    for rel in mods:
        tree = ast.parse(open(os.path.join(SRC, rel), encoding="utf8").read())
        jobs.extend((rel, k) for k in range(len(candidates(tree, None))))
    print(len(jobs), "extractions", flush=True)
    bad = 0
    with mp.Pool(j) as pool:
        for r in pool.imap_unordered(job, jobs, chunksize=2):
            if r:
                bad += 1
                print("ALARM", r[0], json.dumps(r[1])[:700], flush=True)
    print("done:", bad, "of", len(jobs), "extractions raise an alarm")


if __name__ == "__main__":
    main()
