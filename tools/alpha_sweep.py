#!/venv/bin/python
"""alpha_sweep.py [-j N] [--modules a,b]: rename every local variable of every function, one at a time, and check that all twenty
checks stay silent (development tool; a rule that reports a renamed local knows the code by the spelling of its variables).
Prints the renames that raise an alarm."""
import ast, json, multiprocessing as mp, os, shutil, subprocess, sys, tempfile
V = os.path.dirname(os.path.dirname(os.path.abspath(__file__)))
SRC = "/repo/src/xstate_statemachine"


def functions(tree):
    for n in ast.walk(tree):
        if isinstance(n, (ast.FunctionDef, ast.AsyncFunctionDef)):
            yield n


def locals_of(fn):
    params = {a.arg for x in ast.walk(fn) if isinstance(x, ast.arguments) for a in x.posonlyargs + x.args + x.kwonlyargs + ([x.vararg] if x.vararg else []) + ([x.kwarg] if x.kwarg else [])}
    declared = {nm for x in ast.walk(fn) if isinstance(x, (ast.Global, ast.Nonlocal)) for nm in x.names}
    nested_defs = {x.name for x in ast.walk(fn) if isinstance(x, (ast.FunctionDef, ast.AsyncFunctionDef, ast.ClassDef)) and x is not fn}
    stores = []
    # only names bound in the function's own scope (not in nested functions)
    stack = list(fn.body)
    while stack:
        x = stack.pop()
        if isinstance(x, (ast.FunctionDef, ast.AsyncFunctionDef, ast.ClassDef, ast.Lambda)):
            continue
        if isinstance(x, ast.Name) and isinstance(x.ctx, ast.Store):
            stores.append(x.id)
        stack.extend(ast.iter_child_nodes(x))
    out = []
    for nm in dict.fromkeys(stores):
        if nm in params or nm in declared or nm in nested_defs or nm.startswith("__"):
            continue
        out.append(nm)
    return out


def params_of(fn, tree_all_keywords):
    """Parameters of a private function that no call site passes by keyword."""
    if not fn.name.startswith("_") or fn.name.startswith("__"):
        return []
    a = fn.args
    out = []
    for x in a.posonlyargs + a.args:
        if x.arg in ("self", "cls") or x.arg in tree_all_keywords:
            continue
        out.append(x.arg)
    return out


def job(a):
    rel, fname, lineno, nm = a[:4]
    is_param = len(a) > 4
    d = tempfile.mkdtemp(prefix="xsm_alpha_")
    try:
        dst = os.path.join(d, "xstate_statemachine")
        shutil.copytree(SRC, dst, ignore=shutil.ignore_patterns("__pycache__"))
        p = os.path.join(dst, rel)
        tree = ast.parse(open(p, encoding="utf8").read())
        fn = next(f for f in functions(tree) if f.name == fname and f.lineno == lineno)
        all_names = {x.id for x in ast.walk(fn) if isinstance(x, ast.Name)} | {x.arg for x in ast.walk(fn) if isinstance(x, ast.arg)}
        new = nm + "_renamed"
        if new in all_names:
            return None
        for x in ast.walk(fn):
            if isinstance(x, ast.Name) and x.id == nm:
                x.id = new
            elif is_param and isinstance(x, ast.arg) and x.arg == nm:
                x.arg = new
        open(p, "w", encoding="utf8").write(ast.unparse(tree) + "\n")
        r = subprocess.run(["/venv/bin/python", f"{V}/tools/run_all.py", dst], capture_output=True, text=True, cwd=V)
        res = json.loads(r.stdout.strip().splitlines()[-1])
        if res:
            return (rel, fname, lineno, nm, {k: (v["rules"], (v["reports"] or [""])[0][:200]) for k, v in res.items()})
        return None
    finally:
        shutil.rmtree(d, ignore_errors=True)


def main():
    j = int(sys.argv[sys.argv.index("-j") + 1]) if "-j" in sys.argv else 8
    mods = sys.argv[sys.argv.index("--modules") + 1].split(",") if "--modules" in sys.argv else None
    jobs = []
    global ALL_KW
    ALL_KW = set()
    for root, dirs, files in os.walk(SRC):
        for fn_ in files:
            if fn_.endswith(".py"):
                t_ = ast.parse(open(os.path.join(root, fn_), encoding="utf8").read())
                ALL_KW |= {k.arg for x in ast.walk(t_) if isinstance(x, ast.Call) for k in x.keywords if k.arg}
    for root, dirs, files in os.walk(SRC):
        dirs[:] = [x for x in dirs if x != "__pycache__"]
        for fn_ in sorted(files):
            if not fn_.endswith(".py"):
                continue
            rel = os.path.relpath(os.path.join(root, fn_), SRC)
            if mods and rel not in mods:
                continue
            tree = ast.parse(open(os.path.join(root, fn_), encoding="utf8").read())
            if "--params" in sys.argv:
                kws = {k.arg for x in ast.walk(tree) if isinstance(x, ast.Call) for k in x.keywords if k.arg}
                for f in functions(tree):
                    for nm in params_of(f, ALL_KW):
                        jobs.append((rel, f.name, f.lineno, nm, "param"))
                continue
            for f in functions(tree):
                for nm in locals_of(f):
                    jobs.append((rel, f.name, f.lineno, nm))
    print(len(jobs), "renames", flush=True)
    bad = 0
    with mp.Pool(j) as pool:
        for r in pool.imap_unordered(job, jobs, chunksize=4):
            if r:
                bad += 1
                print("ALARM", r[0], r[1], r[3], json.dumps(r[4])[:600], flush=True)
    print("done:", bad, "of", len(jobs), "renames raise an alarm")


if __name__ == "__main__":
    main()
