#!/venv/bin/python
"""check_patch.py <patch.diff>...: apply each patch to a scratch copy of /repo/src and report which rules fire (development tool)."""
import json, os, shutil, subprocess, sys, tempfile
V = os.path.dirname(os.path.dirname(os.path.abspath(__file__)))
for patch in sys.argv[1:]:
    d = tempfile.mkdtemp(prefix="xsm_patch_")
    try:
        os.makedirs(os.path.join(d, "src"))
        shutil.copytree("/repo/src/xstate_statemachine", os.path.join(d, "src", "xstate_statemachine"), ignore=shutil.ignore_patterns("__pycache__"))
        r = subprocess.run(["patch", "-p1", "-s", "-i", os.path.abspath(patch)], cwd=d, capture_output=True, text=True)
        if r.returncode != 0:
            print(patch, "DOES NOT APPLY", r.stdout[-200:]); continue
        r = subprocess.run(["/venv/bin/python", f"{V}/tools/run_all.py", os.path.join(d, "src", "xstate_statemachine")], capture_output=True, text=True, cwd=V)
        res = json.loads(r.stdout.strip().splitlines()[-1])
        print(patch, "->", "silent" if not res else "")
        for k, v in res.items():
            print("     ", k, v["rc"], v["rules"], (v["reports"] or [""])[0][:230])
    finally:
        shutil.rmtree(d, ignore_errors=True)
