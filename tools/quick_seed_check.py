#!/venv/bin/python
"""quick_seed_check.py <worktree>: run all 20 checks against <worktree>/src (no suite), print the rules that report."""
import os, re, subprocess, sys
wt = sys.argv[1]
src = os.path.join(wt, "src/xstate_statemachine")
V = os.path.dirname(os.path.dirname(os.path.abspath(__file__)))
for i in range(1, 21):
    p = f"C{i:02d}"
    r = subprocess.run(["/venv/bin/python", os.path.join(V, "run.py"), p, "--src", src, "--no-evidence"], capture_output=True, text=True, cwd=V)
    if r.returncode:
        lines = [l.strip()[:260] for l in r.stdout.splitlines() if l.startswith("  ") and "[" + p in l] or [r.stdout.strip().splitlines()[-1][:260]]
        print(p, "exit", r.returncode)
        for l in lines[:5]:
            print("    ", re.sub(r"^\S+/xstate_statemachine/", "", l))
