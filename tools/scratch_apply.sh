#!/bin/sh
# scratch_apply.sh <patch> <dir>: scratch copy of /repo/src with the patch applied (development tool); use XSM_VERIF_SRC=<dir>/src/xstate_statemachine
set -e
rm -rf "$2"; mkdir -p "$2/src"
cp -r /repo/src/xstate_statemachine "$2/src/"
(cd "$2" && patch -p1 -s -i "$1")
echo "$2/src/xstate_statemachine"
