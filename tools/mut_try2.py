#!/venv/bin/python
"""mut_try2.py <workdir> <id>...: like mut_try.py for another mutant work directory."""
import json, os, shutil, subprocess, sys, tempfile
W = sys.argv[1]
ms = {str(m["id"]): m for m in json.load(open(f"{W}/mutants.json"))}
texts = json.load(open(f"{W}/texts.json"))
V = os.path.dirname(os.path.dirname(os.path.abspath(__file__)))
for mid in sys.argv[2:]:
    m = ms[mid]
    d = tempfile.mkdtemp(prefix="xsm_try_")
    try:
        tree = os.path.join(d, "xstate_statemachine")
        shutil.copytree("/repo/src/xstate_statemachine", tree, ignore=shutil.ignore_patterns("__pycache__"))
        open(os.path.join(tree, m["file"]), "w", encoding="utf8").write(texts[mid])
        r = subprocess.run(["/venv/bin/python", f"{V}/tools/run_all.py", tree], capture_output=True, text=True, cwd=V)
        res = json.loads(r.stdout.strip().splitlines()[-1])
        print(f"#{mid} {m['func'].split('.')[-1]} [{m['op']}] {m['detail'][:60]} -> " + (", ".join(f"{p}:{'/'.join(v['rules'])}" for p, v in res.items()) or "NOT REPORTED"))
    finally:
        shutil.rmtree(d, ignore_errors=True)
