#!/venv/bin/python
"""gen_known_functions.py: (re)write rules/known_functions.json from the reference tree (development tool; run once when the rules
are re-derived for a new reference commit - never at check time)."""
import ast, json, os, sys
V = os.path.dirname(os.path.dirname(os.path.abspath(__file__)))
sys.path.insert(0, V)
from sa.inline import qualnames, ordered_locals
src = sys.argv[1] if len(sys.argv) > 1 else "/repo/src/xstate_statemachine"
funcs, params, consts, locs = [], {}, {}, {}
for root, dirs, files in os.walk(src):
    dirs[:] = [d for d in dirs if d != "__pycache__"]
    for fn in sorted(files):
        if not fn.endswith(".py"):
            continue
        rel = os.path.relpath(os.path.join(root, fn), src)[:-3].replace(os.sep, ".")
        if rel.endswith("__init__"):
            rel = rel[:-len("__init__")].rstrip(".")
        tree = ast.parse(open(os.path.join(root, fn), encoding="utf8").read())
        consts[rel] = sorted({t.id for st in tree.body if isinstance(st, (ast.Assign, ast.AnnAssign))
                              for t in (st.targets if isinstance(st, ast.Assign) else [st.target]) if isinstance(t, ast.Name)})
        for qn, node, chain in qualnames(tree, rel):
            funcs.append(qn)
            a = node.args
            params[qn] = [x.arg for x in a.posonlyargs + a.args + a.kwonlyargs]
            locs[qn] = ordered_locals(node)
out = {"comment": "qualified names (and parameter names) of every function of the reference tree (/repo at the time the rules were written); a private "
                  "function that is not listed is treated as an extracted helper and inlined into its callers before analysis (sa/inline.py); a new "
                  "function that takes the place of a listed one that is gone (same scope, same parameters) is a rename and is left alone",
       "functions": sorted(set(funcs)), "params": {k: params[k] for k in sorted(params)},
       "module_names": {k: consts[k] for k in sorted(consts)},
       "locals": {k: locs[k] for k in sorted(locs) if locs[k]}}
with open(os.path.join(V, "rules", "known_functions.json"), "w") as fh:
    json.dump(out, fh, indent=0)
print(len(out["functions"]), "functions")
