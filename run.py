#!/venv/bin/python
"""run.py <property-id> [--tier quick|thorough] [--replay <file>] [--src <dir>]

Static check of one property against /repo's *current* working tree.
exit 0: every rule instance held (known findings are printed as KNOWN-FINDING)
exit 1: at least one ``VIOLATION property=<id> replay=<path>`` line
exit 2: ANALYSIS-ERROR (crash, unparsable file, vanished role, count below floor)
"""
import argparse
import importlib
import json
import os
import sys
import traceback

HERE = os.path.dirname(os.path.abspath(__file__))
sys.path.insert(0, HERE)


def main() -> int:
    ap = argparse.ArgumentParser()
    ap.add_argument("prop")
    ap.add_argument("--tier", default=os.environ.get("VERIF_TIER", "quick"), choices=["quick", "thorough"])
    ap.add_argument("--replay")
    ap.add_argument("--src")
    ap.add_argument("--no-evidence", action="store_true", help="do not rewrite evidence/ and replays/ (used by the self-test)")
    a = ap.parse_args()
    if a.src:
        os.environ["XSM_VERIF_SRC"] = a.src
    from sa.program import AnalysisError, Program
    from sa.calls import Resolver
    from sa.report import Check
    try:
        program = Program()
        check = Check(a.prop, a.tier, program)
        check.write_files = not a.no_evidence
        if a.replay:
            with open(a.replay) as fh:
                check.only_key = json.load(fh)["key"]
        mod = importlib.import_module(f"rules.{a.prop}")
        ctx = Ctx(program, Resolver(program), check, a.tier)
        mod.run(ctx)
        if a.tier == "thorough" and not a.src and not a.no_evidence:
            sys.path.insert(0, os.path.join(HERE, "selftest"))
            from sensitivity import measure
            measure(check, a.prop)
        rc = check.finish()
        if a.replay and rc == 0:
            print(f"replay: construct {check.only_key} no longer violates the rule on the current tree")
        return rc
    except AnalysisError as e:
        print(f"ANALYSIS-ERROR property={a.prop} {e}")
        # violations established before the anchor vanished stand on their own (usually they are why it vanished)
        try:
            if any(f.key not in {k["key"] for k in __import__("sa.report", fromlist=["load_known"]).load_known().get("findings", [])
                                 if k.get("property") == a.prop} for f in check.findings):
                check.notes.append(f"analysis stopped early: {e}")
                check.write_files = False if a.no_evidence else check.write_files
                return check.finish()
        except NameError:
            pass
        return 2
    except Exception:
        traceback.print_exc()
        print(f"ANALYSIS-ERROR property={a.prop} internal error in the checker (traceback above)")
        return 2


class Ctx:
    def __init__(self, program, resolver, check, tier):
        self.p = program
        self.r = resolver
        self.c = check
        self.tier = tier
        self.thorough = tier == "thorough"


if __name__ == "__main__":
    sys.exit(main())
