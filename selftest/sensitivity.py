"""Thorough tier: run this property's must-fire variants against the *current* tree and record how many the
rules detect.  A variant whose pattern no longer applies is 'not applicable'; an undetected variant is a note in
the evidence (it says something about the checker, not about /repo) and never changes the exit status."""
import multiprocessing as mp
import os
import shutil
import sys
import tempfile

HERE = os.path.dirname(os.path.abspath(__file__))
sys.path.insert(0, HERE)


def measure(check, prop):
    from run_selftest import judge, normal_form
    from variants import VARIANTS
    vs = []
    for v in VARIANTS:
        if prop in v["fire"]:
            vs.append({"id": v["id"], "fire": {prop: v["fire"][prop]}, "silent": [], "edits": v["edits"], "note": v.get("note", ""), "tier": v.get("tier", "quick")})
        elif prop in v["silent"]:
            vs.append({"id": v["id"], "fire": {}, "silent": [prop], "edits": v["edits"], "note": v.get("note", ""), "tier": v.get("tier", "quick")})
    if not vs:
        return
    base_root = tempfile.mkdtemp(prefix="xsm_sens_base_")
    base = os.path.join(base_root, "xstate_statemachine")
    try:
        normal_form(base)
        with mp.Pool(min(16, len(vs))) as pool:
            results = pool.map(judge, [(v, base) for v in vs])
    finally:
        shutil.rmtree(base_root, ignore_errors=True)
    ok = [r for r in results if r["status"] == "ok"]
    na = [r for r in results if r["status"] == "not-applicable"]
    bad = [r for r in results if r["status"] not in ("ok", "not-applicable")]
    check.extra["sensitivity"] = {
        "what": "must-fire / must-stay-silent variants of selftest/variants.py applied to the normal form of the current tree",
        "variants": len(results), "as_expected": len(ok), "not_applicable": len(na), "unexpected": len(bad),
        "results": [{"id": r["id"], "status": r["status"], "detail": r["detail"][:2]} for r in results],
    }
    for r in bad:
        check.note(f"sensitivity: variant {r['id']} was not judged as expected on this tree: {r['detail'][:1]}")
    print(f"   sensitivity: {len(ok)}/{len(results)} variants as expected, {len(na)} not applicable, {len(bad)} unexpected")
