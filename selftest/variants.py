"""Variants of /repo/src used to test the checkers both ways.

Every variant is an edit of the *normal form* of a source file (``ast.unparse``
of the parsed file: one statement per line, no comments), so patterns are
single normalised statements, not positions.  ``fire`` maps a property to the
rule id that must report the variant; ``silent`` variants must leave every
listed property quiet.  A pattern that no longer matches makes the variant
"not applicable" (reported, not failed).
"""

B = "base_interpreter.py"
I = "interpreter.py"
S = "sync_interpreter.py"
M = "models.py"
H = "helpers.py"
A = "actions.py"
L = "logic_loader.py"
P = "pythonic.py"
CM = "cli/__main__.py"
CE = "cli/emit.py"
CX = "cli/extractor.py"
CI = "cli/ir.py"
CV = "cli/validation.py"


def V(id, fire=None, silent=None, edits=(), note="", tier="quick"):
    return {"id": id, "fire": fire or {}, "silent": silent or [], "edits": list(edits), "note": note, "tier": tier}


ALL = ["C01", "C02", "C03", "C04", "C05", "C06", "C07", "C08", "C09", "C10", "C11", "C12", "C13", "C14", "C15", "C16", "C17", "C18", "C19", "C20"]

VARIANTS = [
    # ------------------------------------------------------------------ C01
    V("c01-difference-update-after-entry", {"C01": "R1"}, edits=[
        (B, "            await self._enter_states(path_to_enter, event)\n",
            "            await self._enter_states(path_to_enter, event)\n            self._active_state_nodes.difference_update(states_to_exit - set(path_to_enter))\n")],
      note="the regression the source comment forbids: a second remover of active states"),
    V("c01-drop-explicit-child-skip", {"C01": "R3", "C05": "R1"}, edits=[
        (B, "                if state.id in explicit_children:\n                    continue\n",
            "                if state.id in explicit_children:\n                    pass\n")]),
    V("c01-sync-regions-include-history", {"C01": "R2c", "C10": "R4", "C05": "R1"}, edits=[
        (S, "if child.type != 'history' and child.id not in explicit_child_ids]", "if child.id not in explicit_child_ids]")]),
    V("c01-sync-history-path-not-killed", {"C01": "R2a", "C11": "R3b", "C05": "R1"}, edits=[
        (S, "            history_targets = self._resolve_history_target(target_state)\n            path_to_enter = []\n",
            "            history_targets = self._resolve_history_target(target_state)\n")]),
    V("c01-snapshot-no-ancestor-walk", {"C01": "R7", "C12": "R5"}, edits=[
        (B, "                while ancestor is not None:\n                    interpreter._active_state_nodes.add(ancestor)\n                    ancestor = ancestor.parent\n", "")]),
    V("c01-history-entered-per-node", {"C01": "R4", "C11": "R3"}, edits=[
        (S, "                for node in history_targets:\n                    for step in self._get_path_to_state(node, stop_at=domain):\n                        if step not in combined_path:\n                            combined_path.append(step)\n                if combined_path:\n                    self._enter_states(combined_path, event)\n",
            "                for node in history_targets:\n                    self._enter_states(self._get_path_to_state(node, stop_at=domain), event)\n")]),
    # ------------------------------------------------------------------ C02
    V("c02-selection-writes-state", {"C02": "R1"}, edits=[
        (B, "        selected.sort(key=lambda t: -t.source.depth)\n", "        selected.sort(key=lambda t: -t.source.depth)\n        self._last_selected = selected\n")]),
    V("c02-unhandled-event-notifies", {"C02": "R2", "C05": "R1"}, edits=[
        (S, "        transitions = self._select_transitions(event)\n        if not transitions:\n", "        transitions = self._select_transitions(event)\n        if not transitions:\n            self._notify_subscribers()\n")]),
    V("c02-no-stale-source-skip", {"C02": "R3", "C05": "R1"}, edits=[
        (B, "            if len(transitions) > 1 and transition.source not in self._active_state_nodes:\n", "            if len(transitions) > 1 and False:\n")]),
    V("c02-leaves-unsorted", {"C02": "R5", "C16": "R1"}, edits=[
        (B, "        for leaf in sorted(leaves, key=lambda s: (-s.depth, s.id)):\n", "        for leaf in leaves:\n")]),
    V("c02-guard-eval-sends", {"C02": "R1"}, edits=[
        (B, "        for plugin in self._plugins:\n            plugin.on_guard_evaluated(self, guard.type, event, result)\n", "        for plugin in self._plugins:\n            plugin.on_guard_evaluated(self, guard.type, event, result)\n        self._notify_subscribers()\n")]),
    # ------------------------------------------------------------------ C03
    V("c03-sync-actions-before-exit", {"C03": "R1"}, edits=[
        (S, "            self._exit_states(sorted(list(states_to_exit), key=lambda s: (s.depth, s.id), reverse=True), event)\n            self._execute_actions(transition.actions, event)\n",
            "            self._execute_actions(transition.actions, event)\n            self._exit_states(sorted(list(states_to_exit), key=lambda s: (s.depth, s.id), reverse=True), event)\n")]),
    V("c03-async-exit-shallowest-first", {"C03": "R2", "C05": "R1"}, edits=[
        (B, "            await self._exit_states(sorted(list(states_to_exit), key=lambda s: (s.depth, s.id), reverse=True), event)\n",
            "            await self._exit_states(sorted(list(states_to_exit), key=lambda s: (s.depth, s.id)), event)\n")]),
    V("c03-sync-entry-actions-before-add", {"C03": "R3"}, edits=[
        (S, "            self._active_state_nodes.add(state)\n            self._execute_actions(state.entry, event if event is not None else Event(f'entry.{state.id}'))\n",
            "            self._execute_actions(state.entry, event if event is not None else Event(f'entry.{state.id}'))\n            self._active_state_nodes.add(state)\n")]),
    V("c03-sync-exit-synthetic-event", {"C03": "R4"}, edits=[
        (S, "            self._execute_actions(state.exit, event if event is not None else Event(f'exit.{state.id}'))\n", "            self._execute_actions(state.exit, Event(f'exit.{state.id}'))\n")]),
    V("c03-rearm-from-process-event", {"C03": "R5", "C08": "R2"}, edits=[
        (B, "            await self._execute_transition(transition, event)\n", "            await self._execute_transition(transition, event)\n            self._schedule_state_tasks(transition.source)\n")]),
    V("c03-targetless-exits-source", {"C03": "R6", "C05": "R1"}, edits=[
        (S, "        if not transition.target_str:\n", "        if not transition.target_str:\n            self._exit_states([transition.source], event)\n")]),
    V("c03-sync-descent-drops-event", {"C03": "R4", "C05": "R1"}, edits=[
        (S, "                    self._enter_states([initial_child], event)\n", "                    self._enter_states([initial_child])\n")],
      note="revert of the fix commit for finding 7"),
    # ------------------------------------------------------------------ C04
    V("c04-drain-no-finally-reset", {"C04": "R1"}, edits=[
        (S, "                self._process_transient_transitions()\n        finally:\n            self._is_processing = False\n            pass\n",
            "                self._process_transient_transitions()\n        finally:\n            pass\n        self._is_processing = False\n")]),
    V("c04-second-consumer-in-send", {"C04": "R3"}, edits=[
        (I, "        await self._event_queue.put(event_obj)\n\n    async def send_events", "        await self._event_queue.put(event_obj)\n        asyncio.create_task(self._run_event_loop())\n\n    async def send_events")]),
    V("c04-sync-send-at-head", {"C04": "R2"}, edits=[
        (S, "        event_obj = self._prepare_event(event_or_type, **payload)\n        self._event_queue.append(event_obj)\n", "        event_obj = self._prepare_event(event_or_type, **payload)\n        self._event_queue.appendleft(event_obj)\n")]),
    V("c04-drain-skips-settle", {"C04": "R5"}, edits=[
        (S, "                self._process_event(current_event)\n                self._process_transient_transitions()\n", "                self._process_event(current_event)\n")]),
    V("c04-send-processes-directly", {"C04": "R4", "C01": "R5"}, edits=[
        (S, "        self._event_queue.append(event_obj)\n        self._process_event_queue()\n\n    def send_events", "        self._process_event(event_obj)\n\n    def send_events")]),
    V("c04-no-reentrancy-test", {"C04": "R1"}, edits=[
        (S, "        if self._is_processing:\n            return\n        self._is_processing = True\n        processed = 0\n", "        self._is_processing = True\n        processed = 0\n")]),
    V("c04-start-settle-unguarded", {"C04": "R4", "C01": "R5"}, edits=[
        (S, "        self._is_processing = True\n        try:\n            self._process_transient_transitions()\n        finally:\n            self._is_processing = False\n", "        self._process_transient_transitions()\n")],
      note="revert of the fix commit for finding 2"),
    # ------------------------------------------------------------------ C05
    V("c05-sync-exit-no-history-record", {"C05": "R1", "C11": "R1"}, edits=[
        (S, "        self._record_history(states_to_exit)\n        for state in states_to_exit:\n            self._cancel_state_tasks(state)\n", "        for state in states_to_exit:\n            self._cancel_state_tasks(state)\n")]),
    V("c05-probe-arms-tasks", {"C05": "R2"}, edits=[
        (H, "        def _schedule_state_tasks(self, state: Any) -> None:\n", "        def _schedule_state_tasks_disabled(self, state: Any) -> None:\n")]),
    V("c05-capture-live-context", {"C05": "R5"}, edits=[
        (H, "context=copy.deepcopy(probe.context)", "context=probe.context")]),
    V("c05-sync-done-without-doneness", {"C05": "R1", "C10": "R5"}, edits=[
        (S, "            if ancestor.on_done and self._is_state_done(ancestor):\n", "            if ancestor.on_done:\n")]),
    V("c05-sync-overrides-domain", {"C05": "R1"}, edits=[
        (S, "    def _process_transient_transitions(self) -> None:\n", "    def _find_transition_domain(self, transition, target_state):\n        return transition.source.parent or self.machine\n\n    def _process_transient_transitions(self) -> None:\n")]),
    V("c05-sync-builtin-no-notify", {"C05": "R1", "C07": "R2"}, edits=[
        (S, "                        for plugin in self._plugins:\n                            plugin.on_action_error(self, action_def, exc)\n                        return\n                    continue\n", "                        return\n                    continue\n")],
      note="revert of the fix commit for finding 8"),
    # ------------------------------------------------------------------ C06
    V("c06-cond-ignored", {"C06": "R1", "C18": "R4"}, edits=[
        (M, "raw_guard = config.get('guard', config.get('cond'))", "raw_guard = config.get('guard')")]),
    V("c06-choose-ignores-cond", {"C06": "R1"}, edits=[
        (B, "guard_cfg = branch.get('guard', branch.get('cond'))", "guard_cfg = branch.get('guard')")]),
    V("c06-missing-guard-swallowed", {"C06": "R3"}, edits=[
        (B, "        if not guard_callable:\n            raise ImplementationMissingError(f\"Guard '{guard.type}' not implemented.\")\n        try:\n", "        try:\n            if not guard_callable:\n                raise ImplementationMissingError(f\"Guard '{guard.type}' not implemented.\")\n")]),
    V("c06-new-composite-type", {"C06": "R4"}, edits=[
        (M, "COMPOSITE_GUARD_TYPES = frozenset({'and', 'or', 'not'})", "COMPOSITE_GUARD_TYPES = frozenset({'and', 'or', 'not', 'xor'})")]),
    V("c06-matches-prefix-predicate", {"C06": "R5"}, edits=[
        (B, "            if node.id == target or node.id.endswith('.' + target):\n                return True\n        return False\n\n    def has_tag", "            if node.id == target or node.id.startswith(target + '.'):\n                return True\n        return False\n\n    def has_tag")]),
    V("c06-builtin-statein-shadows-user", {"C06": "R6"}, edits=[
        (B, "        if guard.is_state_in and guard.type not in self.machine.logic.guards:\n", "        if guard.is_state_in:\n")]),
    V("c06-statein-params-uncontained", {"C06": "R2"}, edits=[
        (B, "        try:\n            params = self._resolve_params(guard.params, event)\n        except Exception:\n            pass\n            return False\n        target = None\n", "        params = self._resolve_params(guard.params, event)\n        target = None\n")],
      note="revert of the fix commit for finding 9"),
    # ------------------------------------------------------------------ C07
    V("c07-use-unwrapped-plugin", {"C07": "R3"}, edits=[
        (B, "        self._plugins.append(_SafePlugin(plugin))\n", "        self._plugins.append(plugin)\n")]),
    V("c07-async-handler-continues", {"C07": "R2", "C05": "R1"}, edits=[
        (I, "            except Exception as exc:\n                pass\n                for plugin in self._plugins:\n                    plugin.on_action_error(self, action_def, exc)\n                return\n",
            "            except Exception as exc:\n                pass\n                for plugin in self._plugins:\n                    plugin.on_action_error(self, action_def, exc)\n                continue\n")]),
    V("c07-sync-rollback-swallows", {"C07": "R4", "C05": "R1"}, edits=[
        (S, "                if node in states_to_exit:\n                    self._schedule_state_tasks(node)\n            raise\n", "                if node in states_to_exit:\n                    self._schedule_state_tasks(node)\n")]),
    V("c07-subscriber-uncontained", {"C07": "R1"}, edits=[
        (B, "            try:\n                listener(self)\n            except Exception:\n                pass\n", "            listener(self)\n")]),
    V("c07-run-loop-reraises", {"C07": "R5"}, edits=[
        (I, "                except Exception as exc:\n                    pass\n                finally:\n                    self._processing = False\n", "                except Exception as exc:\n                    raise\n                finally:\n                    self._processing = False\n")]),
    V("c07-enter-outside-transaction", {"C07": "R4"}, edits=[
        (S, "        try:\n            self._exit_states(sorted(list(states_to_exit), key=lambda s: (s.depth, s.id), reverse=True), event)\n", "        self._exit_states(sorted(list(states_to_exit), key=lambda s: (s.depth, s.id), reverse=True), event)\n        try:\n")]),
    V("c07-new-uncontained-user-call", {"C07": "R1"}, edits=[
        (B, "    def _resolve_output(self, final_state: StateNode) -> Any:\n", "    def _call_meta_hook(self, node):\n        hook = node.meta.get('hook')\n        if hook:\n            hook(self)\n\n    def _resolve_output(self, final_state: StateNode) -> Any:\n"),
        (B, "            self._schedule_state_tasks(state)\n            if state.is_final:\n", "            self._schedule_state_tasks(state)\n            self._call_meta_hook(state)\n            if state.is_final:\n")]),
    # ------------------------------------------------------------------ C08
    V("c08-sync-stop-leaves-timers", {"C08": "R3", "C14": "R3"}, edits=[
        (S, "        for state_id in list(self._after_events.keys()):\n            self._after_events[state_id].set()\n        self._after_events.clear()\n", "")]),
    V("c08-async-cancel-after-exit-actions", {"C08": "R1", "C03": "R3"}, edits=[
        (B, "        for state in states_to_exit:\n            await self._cancel_state_tasks(state)\n        for state in states_to_exit:\n            pass\n            await self._execute_actions(state.exit, trigger_event)\n",
            "        for state in states_to_exit:\n            pass\n            await self._execute_actions(state.exit, trigger_event)\n            await self._cancel_state_tasks(state)\n")]),
    V("c08-async-cancel-per-state-again", {"C08": "R2", "C07": "R4"}, edits=[
        (B, "        for state in states_to_exit:\n            await self._cancel_state_tasks(state)\n        for state in states_to_exit:\n            pass\n            await self._execute_actions(state.exit, trigger_event)\n",
            "        for state in states_to_exit:\n            pass\n            await self._cancel_state_tasks(state)\n            await self._execute_actions(state.exit, trigger_event)\n")],
      note="revert of the fix commit for the rollback over-arming defect"),
    V("c08-timer-event-not-transition-event", {"C08": "R2"}, edits=[
        (B, "                after_event = AfterEvent(type=t_def.event)\n", "                after_event = AfterEvent(type=f'after.{delay_ms}')\n")]),
    V("c08-timer-armed-twice", {"C08": "R2"}, edits=[
        (B, "                self._after_timer(delay_sec, after_event, owner_id=state.id)\n", "                if delay_sec >= 0:\n                    self._after_timer(delay_sec, after_event, owner_id=state.id)\n")],
      note="conditional arming: not exactly once per transition"),
    V("c08-async-timer-not-owned", {"C08": "R3"}, edits=[
        (I, "        task = asyncio.create_task(self._after_timer_task(delay_sec, event))\n        self.task_manager.add(owner_id, task)\n", "        task = asyncio.create_task(self._after_timer_task(delay_sec, event))\n        self.task_manager.add(self.id, task)\n")]),
    # ------------------------------------------------------------------ C09
    V("c09-async-entry-skips-arming", {"C09": "R1", "C05": "R1"}, edits=[
        (B, "            await self._execute_actions(state.entry, trigger_event)\n            self._schedule_state_tasks(state)\n", "            await self._execute_actions(state.entry, trigger_event)\n            if state.is_atomic:\n                self._schedule_state_tasks(state)\n")]),
    V("c09-service-failure-never-fails", {"C09": "R2"}, edits=[
        (I, "            for plugin in self._plugins:\n                plugin.on_service_error(self, invocation, e)\n            if not handled:\n                self._fail(e)\n", "            for plugin in self._plugins:\n                plugin.on_service_error(self, invocation, e)\n")]),
    V("c09-exit-does-not-await-cancel", {"C09": "R4"}, edits=[
        (I, "        await self.task_manager.cancel_by_owner(state.id)\n", "        asyncio.ensure_future(self.task_manager.cancel_by_owner(state.id))\n")]),
    V("c09-service-started-from-entry", {"C09": "R1"}, edits=[
        (S, "            self._schedule_state_tasks(state)\n            pass\n\n    def _exit_states", "            self._schedule_state_tasks(state)\n            for inv in state.invoke:\n                self._invoke_service(inv, self.machine.logic.services.get(inv.src), owner_id=state.id)\n\n    def _exit_states")]),
    # ------------------------------------------------------------------ C10
    V("c10-complete-unguarded", {"C10": "R1", "C14": "R1"}, edits=[
        (B, "        if self.status != 'running':\n            return\n        self.status = 'done'\n", "        self.status = 'done'\n")]),
    V("c10-async-send-after-done", {"C10": "R2", "C14": "R4"}, edits=[
        (I, "        if self.status in ('stopped', 'done', 'error'):\n            pass\n            return\n        event_obj = self._prepare_event(event_or_type, **payload)\n", "        if self.status in ('stopped', 'error'):\n            pass\n            return\n        event_obj = self._prepare_event(event_or_type, **payload)\n")]),
    V("c10-sync-stop-skips-done", {"C10": "R3"}, edits=[
        (S, "        if self.status in ('uninitialized', 'stopped'):\n            return\n        pass\n        self.status = 'stopped'\n", "        if self.status != 'running':\n            return\n        pass\n        self.status = 'stopped'\n")]),
    V("c10-doneness-counts-history", {"C10": "R4"}, edits=[
        (B, "                if region.type == 'history':\n                    continue\n", "")]),
    V("c10-done-check-on-every-entry", {"C10": "R5", "C05": "R1"}, edits=[
        (S, "            if state.type == 'final':\n", "            if state.type in ('final', 'atomic'):\n")]),
    V("c10-state-output-wins", {"C10": "R5", "C05": "R1"}, edits=[
        (S, "            if machine_output is not None:\n                self._complete(self._resolve_output_value(machine_output))\n            else:\n                self._complete(self._resolve_output(final_state))\n", "            if machine_output is None:\n                self._complete(self._resolve_output_value(machine_output))\n            else:\n                self._complete(self._resolve_output(final_state))\n")]),
    # ------------------------------------------------------------------ C11
    V("c11-async-history-after-exit", {"C11": "R1"}, edits=[
        (B, "        self._record_history(states_to_exit)\n        for state in states_to_exit:\n", "        for state in states_to_exit:\n"),
        (B, "            self._active_state_nodes.discard(state)\n", "            self._active_state_nodes.discard(state)\n        self._record_history(states_to_exit)\n")]),
    V("c11-history-not-restored", {"C11": "R5", "C12": "R2"}, edits=[
        (B, "            if nodes:\n                interpreter._history[parent_id] = nodes\n", "            if nodes:\n                pass\n")]),
    V("c11-history-in-set-order", {"C11": "R4", "C16": "R1"}, edits=[
        (B, "            remembered = sorted((node for node in self._active_state_nodes if node is not state and self._is_descendant(node, state)), key=lambda n: (n.depth, n.id))\n", "            remembered = [node for node in self._active_state_nodes if node is not state and self._is_descendant(node, state)]\n")],
      note="revert of the fix commit for finding 6"),
    V("c11-history-default-may-be-empty", {"C11": "R2", "C01": "R2b"}, edits=[
        (B, "        shallow = [node for node in remembered if node.parent is parent]\n        return shallow or remembered\n", "        shallow = [node for node in remembered if node.parent is parent]\n        return shallow\n")]),
    # ------------------------------------------------------------------ C12
    V("c12-key-written-not-read", {"C12": "R1"}, edits=[
        (B, "return {'status': self.status, ", "return {'machine_version': self.machine.id, 'status': self.status, ")]),
    V("c12-context-live", {"C12": "R3"}, edits=[
        (B, "'context': copy.deepcopy(self.context)", "'context': self.context")]),
    V("c12-new-state-not-persisted", {"C12": "R2"}, edits=[
        (B, "        self._action_depth: int = 0\n", "        self._action_depth: int = 0\n        self._visits: Dict[str, int] = {}\n"),
        (B, "            self._active_state_nodes.add(state)\n            pass\n            await self._execute_actions(state.entry, trigger_event)\n", "            self._active_state_nodes.add(state)\n            self._visits[state.id] = self._visits.get(state.id, 0) + 1\n            await self._execute_actions(state.entry, trigger_event)\n"),
        (B, "        selected: List[TransitionDefinition] = []\n", "        selected: List[TransitionDefinition] = []\n        if self._visits.get('never', 0) > 3:\n            return []\n")]),
    V("c12-snapshot-keys-unchecked", {"C12": "R4"}, edits=[
        (B, "        if missing:\n            raise InvalidConfigError(f'Snapshot is missing required key(s): {', '.join(missing)}.')\n", "")],
      note="revert of the fix commit for finding 10 (validation removed)"),
    V("c12-unknown-state-accepted", {"C12": "R4"}, edits=[
        (B, "                raise StateNotFoundError(target=state_id)\n", "                continue\n")]),
    # ------------------------------------------------------------------ C13
    V("c13-sync-settle-unbounded", {"C13": "R1", "C05": "R1"}, edits=[
        (S, "            iterations += 1\n            if iterations > limit:\n                pass\n                break\n            transient_event", "            iterations += 1\n            transient_event")]),
    V("c13-done-event-uncounted", {"C13": "R2"}, edits=[
        (B, "                await self._deliver(self, done_event, None, None)\n", "                await self.send(done_event)\n")],
      note="revert of the fix commit for finding 4"),
    V("c13-no-action-depth-test", {"C13": "R1"}, edits=[
        (B, "        if depth > self.MAX_ACTION_DEPTH or self._action_expansions > budget:\n", "        if False:\n")]),
    V("c13-raise-bypasses-deliver", {"C13": "R2", "C05": "R1"}, edits=[
        (I, "            await self._deliver(self, target_event, delay, params.get('id'))\n", "            await self.send(target_event)\n")]),
    V("c13-bound-not-max-iterations", {"C13": "R1"}, edits=[
        (I, "        iterations = 0\n        limit = getattr(self.machine, 'max_iterations', 1000)\n", "        iterations = 0\n        limit = 10 ** 9\n")]),
    # ------------------------------------------------------------------ C14
    V("c14-fail-from-any-status", {"C14": "R1"}, edits=[
        (B, "        if self.status not in ('running', 'uninitialized'):\n            return\n        self.status = 'error'\n", "        self.status = 'error'\n")]),
    V("c14-sync-start-revives-stopped", {"C14": "R2"}, edits=[
        (S, "        if self.status == 'stopped':\n            raise InvalidConfigError(", "        if self.status == 'stopped':\n            self.status = 'uninitialized'\n        if False:\n            raise InvalidConfigError(")]),
    V("c14-sync-stop-keeps-delayed-sends", {"C14": "R3"}, edits=[
        (S, "        for cancel_flag in list(self._pending_send_cancels):\n            cancel_flag.set()\n        self._pending_send_cancels.clear()\n", "")]),
    V("c14-stop-keeps-registry", {"C14": "R3", "C15": "R5"}, edits=[
        (S, "        self._unregister_from_system()\n", ""), (I, "        self._unregister_from_system()\n", "")],
      note="revert of the fix commit for finding 16"),
    V("c14-async-start-not-idempotent", {"C14": "R2"}, edits=[
        (I, "        if self.status != 'uninitialized':\n            pass\n            return self\n", "")]),
    V("c14-stop-not-idempotent", {"C14": "R4"}, edits=[
        (I, "        if self.status in ('uninitialized', 'stopped'):\n            pass\n            return\n", "        if self.status == 'uninitialized':\n            return\n")]),
    # ------------------------------------------------------------------ C15
    V("c15-alias-without-handler", {"C15": "R1"}, edits=[
        (A, "ENQUEUE_ACTIONS = 'xstate.enqueueActions'\n", "ENQUEUE_ACTIONS = 'xstate.enqueueActions'\nPAUSE = 'xstate.pause'\n"),
        (A, "'enqueueActions': ENQUEUE_ACTIONS,", "'enqueueActions': ENQUEUE_ACTIONS, 'pause': PAUSE, 'xstate.pause': PAUSE,")]),
    V("c15-adhoc-spawn-prefix", {"C15": "R3"}, edits=[
        (I, "        actor_machine_key = spawn_service_key(action_def.type)\n", "        actor_machine_key = action_def.type[len('spawn_'):]\n")]),
    V("c15-stop-before-unregister", {"C15": "R4", "C05": "R1"}, edits=[
        (S, "            for actor_id, candidate in list(self._actors.items()):\n                if candidate is actor:\n                    del self._actors[actor_id]\n", "            actor.stop()\n            for actor_id, candidate in list(self._actors.items()):\n                if candidate is actor:\n                    del self._actors[actor_id]\n")]),
    V("c15-supersede-without-cancel", {"C15": "R6"}, edits=[
        (S, "            previous = self._scheduled_sends.get(str(send_id))\n            if previous is not None:\n                previous()\n", "")]),
    V("c15-double-registration", {"C15": "R7"}, edits=[
        (I, "        self._actors[actor_id] = child_interpreter\n        self._actor_sources[actor_id] = actor_machine_key\n", "        self._actors[actor_id] = child_interpreter\n        self._actors[actor_machine_key] = child_interpreter\n        self._actor_sources[actor_id] = actor_machine_key\n")]),
    V("c15-sync-missing-sendparent", {"C15": "R1", "C05": "R1"}, edits=[
        (S, "        elif canonical == SEND_PARENT:\n", "        elif canonical == 'never':\n")]),
    # ------------------------------------------------------------------ C16
    V("c16-sync-exit-set-order", {"C16": "R1", "C03": "R2", "C05": "R1"}, edits=[
        (S, "            self._exit_states(sorted(list(states_to_exit), key=lambda s: (s.depth, s.id), reverse=True), event)\n", "            self._exit_states(list(states_to_exit), event)\n")]),
    V("c16-rollback-set-order", {"C16": "R1"}, edits=[
        (B, "            for node in sorted(snapshot_before, key=lambda s: (s.depth, s.id)):\n", "            for node in snapshot_before:\n")],
      note="revert of the fix commit for finding 23"),
    V("c16-leaf-order-partial-key", {"C16": "R1", "C02": "R5"}, edits=[
        (B, "        for leaf in sorted(leaves, key=lambda s: (-s.depth, s.id)):\n", "        for leaf in sorted(leaves, key=lambda s: -s.depth):\n")]),
    V("c16-first-active-leaf", {"C16": "R1"}, edits=[
        (B, "        leaves = [s for s in self._active_state_nodes if s.is_atomic or s.is_final or (not s.states)]\n", "        leaves = [s for s in self._active_state_nodes if s.is_atomic or s.is_final or (not s.states)]\n        self._primary_leaf = next(iter(self._active_state_nodes))\n")]),
    # ------------------------------------------------------------------ C17
    V("c17-write-before-verify", {"C17": "R2"}, edits=[
        (CM, "    _verify_or_refuse(configs=configs, logic_code=logic_code, runner_code=runner_code, file_count=args.file_count, template=template, strict=not getattr(args, 'no_verify', False))\n", ""),
        (CM, "    _write_output_files(args.file_count, paths, logic_code, runner_code)\n\ndef _polish_output", "    _write_output_files(args.file_count, paths, logic_code, runner_code)\n    _verify_or_refuse(configs=configs, logic_code=logic_code, runner_code=runner_code, file_count=args.file_count, template=template, strict=not getattr(args, 'no_verify', False))\n\ndef _polish_output")]),
    V("c17-write-outside-writer", {"C17": "R1"}, edits=[
        (CM, "    logic_code, runner_code = _polish_output(logic_code, runner_code, json_paths=json_paths, template=template)\n", "    logic_code, runner_code = _polish_output(logic_code, runner_code, json_paths=json_paths, template=template)\n    paths['logic_file'].write_text(logic_code, encoding='utf-8')\n")]),
    V("c17-action-params-not-rendered", {"C17": "R4"}, edits=[
        (CE, "        if act.params:\n            parts.append(f\"{{'type': {literal(act.type)}, 'params': {literal(act.params)}}}\")\n        else:\n            parts.append(literal(act.type))\n", "        parts.append(literal(act.type))\n")]),
    V("c17-emit-in-set-order", {"C17": "R6"}, edits=[
        (CE, "    return (actions, guards, services, delays)\n", "    ordered = [name for name in actions]\n    return (ordered, guards, services, delays)\n")]),
    V("c17-extractor-ignores-ondone", {"C17": "R5"}, edits=[
        (CX, "    if 'onDone' in node:\n        _extract_from_transition(node['onDone'], actions, guards)\n", "")],
      note="revert of the fix commit for finding 14"),
    V("c17-no-verify-skips-syntax", {"C17": "R2"}, edits=[
        (CV, "    problems: List[str] = []\n    try:\n        ast.parse(code)\n    except SyntaxError as exc:\n        return [f'generated code is not valid Python (line {exc.lineno}): {exc.msg}']\n    if not strict:\n        return problems\n", "    problems: List[str] = []\n    if not strict:\n        return problems\n    try:\n        ast.parse(code)\n    except SyntaxError as exc:\n        return [f'generated code is not valid Python (line {exc.lineno}): {exc.msg}']\n")]),
    V("c17-timestamp-in-header", {"C17": "R6"}, edits=[
        (CM, "    command = 'xsm generate-template ' + ' '.join(sources) + f' --template {template}'\n", "    import time\n    command = 'xsm generate-template ' + ' '.join(sources) + f' --template {template} at {time.time()}'\n")]),
    V("c17-ir-drops-invoke-input", {"C17": "R5"}, edits=[
        (CI, ", input=item.get('input')))", "))")]),
    V("c17-raw-name-in-logic-code", {"C17": "R7"}, tier="thorough", edits=[
        (CE, "            parts.append(literal(act.type))\n", "            parts.append(f\"'{act.type}'\")\n")],
      note="an action name interpolated between quotes instead of through literal()"),
    V("c17-raw-machine-id-in-builder", {"C17": "R7"}, tier="thorough", edits=[
        ("cli/builders.py", "f'    builder = MachineBuilder({literal(machine.id)})'", "f\"    builder = MachineBuilder('{machine.id}')\"")]),
    V("c17-docstring-unsanitised", {"C17": "R7"}, tier="thorough", edits=[
        ("cli/builders.py", "f'    \"\"\"Build the {docstring_safe(machine.id)} machine (builder style).\"\"\"'", "f'    \"\"\"Build the {machine.id} machine (builder style).\"\"\"'")]),
    V("silent-literal-spelled-repr", silent=["C17"], tier="thorough", edits=[
        (CE, "            parts.append(literal(act.type))\n", "            parts.append(repr(act.type))\n")]),
    # ------------------------------------------------------------------ C18
    V("c18-transition-shape-not-total", {"C18": "R1"}, edits=[
        (M, "        if config is not None:\n            raise InvalidConfigError(f'❌ Invalid transition config: {config}. Must be a string, dictionary, or list.')\n        return []\n", "        return []\n")]),
    V("c18-after-raises-valueerror", {"C18": "R2"}, edits=[
        (M, "            raise InvalidConfigError(f\"State '{self.id}' has an invalid 'after' value of type '{type(raw_after).__name__}'. Expected an object/dict mapping delays to transitions.\")\n", "            raise ValueError(f\"State '{self.id}' has an invalid 'after' value\")\n")]),
    V("c18-maxiterations-raw-int", {"C18": "R3"}, edits=[
        (M, "        try:\n            self.max_iterations: int = int(raw_max_iterations)\n        except (TypeError, ValueError):\n            raise InvalidConfigError(f\"Machine '{config['id']}' has an invalid 'maxIterations' value {raw_max_iterations!r}. Expected an integer.\") from None\n", "        self.max_iterations: int = int(raw_max_iterations)\n")],
      note="revert of a fix commit (finding 11c)"),
    V("c18-always-not-merged", {"C18": "R4"}, edits=[
        (M, "            on_map.setdefault('', []).extend(always_transitions)\n", "            on_map['always'] = always_transitions\n")]),
    V("c18-tags-unchecked", {"C18": "R3"}, edits=[
        (M, "        raw_on = config.get('on', {})\n        if not isinstance(raw_on, dict):\n            raise InvalidConfigError(f\"State '{self.id}' has an invalid 'on' value of type '{type(raw_on).__name__}'. Expected an object/dict mapping event names to transitions.\")\n", "        raw_on = config.get('on', {})\n")]),
    V("c18-create-machine-unchecked", {"C18": "R3"}, edits=[
        ("factory.py", "    if not isinstance(config, dict):\n        raise InvalidConfigError(f\"Machine configuration must be a dictionary, got '{type(config).__name__}'.\")\n", "")],
      note="revert of a fix commit (finding 11a)"),
    # ------------------------------------------------------------------ C19
    V("c19-invoke-handler-spawn-as-action", {"C19": "R1"}, edits=[
        (L, "                    if is_spawn_action(action_def.type):\n                        services.add(spawn_service_key(action_def.type))\n                    elif not is_builtin_action(action_def.type):\n                        actions.add(action_def.type)\n", "                    if not is_builtin_action(action_def.type):\n                        actions.add(action_def.type)\n")],
      note="revert of the fix commit for finding 13"),
    V("c19-loader-skips-ondone", {"C19": "R2"}, edits=[
        (L, "        if node.on_done:\n            all_transitions.append(node.on_done)\n", "")]),
    V("c19-builtin-shadows-user-action", {"C19": "R3", "C05": "R1"}, edits=[
        (S, "            if action_impl is None:\n                canonical = resolve_builtin(action_def.type)\n", "            if True:\n                canonical = resolve_builtin(action_def.type)\n")]),
    V("c19-build-shares-states", {"C19": "R6"}, edits=[
        (P, "        states_copy = copy.deepcopy(self._states)\n", "        states_copy = self._states\n")]),
    V("c19-compile-drops-tags", {"C19": "R4"}, edits=[
        (P, "    if state.tags:\n        config['tags'] = list(state.tags)\n    if state.meta:\n        config['meta'] = dict(state.meta)\n    if state.states:\n", "    if state.meta:\n        config['meta'] = dict(state.meta)\n    if state.states:\n")]),
    V("c19-camel-copies-diverge", {"C19": "R3"}, edits=[
        (L, "    return components[0] + ''.join((x.title() for x in components[1:]))\n", "    return components[0] + ''.join((x.capitalize() for x in components[1:]))\n")]),
    # ------------------------------------------------------------------ C20
    V("c20-wildcard-before-partials", {"C20": "R1"}, edits=[
        (B, "        partials.sort(key=len, reverse=True)\n        matches.extend(partials)\n        if '*' in on_map:\n            matches.append('*')\n", "        if '*' in on_map:\n            matches.append('*')\n        partials.sort(key=len, reverse=True)\n        matches.extend(partials)\n")]),
    V("c20-partials-shortest-first", {"C20": "R1"}, edits=[
        (B, "        partials.sort(key=len, reverse=True)\n", "        partials.sort(key=len)\n")]),
    V("c20-cutoff-misses-xstate", {"C20": "R2"}, edits=[
        (B, "        if event_type.startswith(('done.', 'error.', 'after.', 'xstate.')):\n", "        if event_type.startswith(('done.', 'error.', 'after.')):\n")]),
    V("c20-cutoff-after-partials", {"C20": "R2"}, edits=[
        (B, "        if event_type.startswith(('done.', 'error.', 'after.', 'xstate.')):\n            return matches\n", ""),
        (B, "        matches.extend(partials)\n", "        matches.extend(partials)\n        if event_type.startswith(('done.', 'error.', 'after.', 'xstate.')):\n            return matches\n")]),
    V("c20-forbidden-after-guard", {"C20": "R3"}, edits=[
        (B, "                        if t.forbidden:\n                            blocked = True\n                            break\n                        if _passes(t):\n                            eligible.append(t)\n", "                        if _passes(t):\n                            eligible.append(t)\n                        if t.forbidden:\n                            blocked = True\n                            break\n")]),
    V("c20-forbidden-does-not-stop-walk", {"C20": "R3"}, edits=[
        (B, "                if blocked:\n                    pass\n                    break\n", "")]),
    # ------------------------------------------------------------------ rules added after the seeded changes
    V("c02-memo-keyed-by-guard-name", {"C02": "R6"}, edits=[
        (B, "            key = id(transition)\n", "            key = transition.guard_def.type if transition.guard_def else None\n")]),
    V("c04-counter-counts-every-send", {"C04": "R7", "C13": "R2"}, edits=[
        (I, "            if actor is self and self._processing:\n                self._raise_depth += 1\n", "            if self._processing:\n                self._raise_depth += 1\n")]),
    V("c09-child-registered-after-start", {"C09": "R5"}, edits=[
        (I, "            self._actors[actor_id] = child_interpreter\n            for plugin in self._plugins:\n                plugin.on_service_start(self, invocation)\n            pass\n            await child_interpreter.start()\n",
            "            for plugin in self._plugins:\n                plugin.on_service_start(self, invocation)\n            pass\n            await child_interpreter.start()\n            self._actors[actor_id] = child_interpreter\n")]),
    V("c10-region-prefix-without-dot", {"C10": "R6", "C01": "R8", "C03": "R8"}, edits=[
        (B, "active_in_region = [d for d in self._active_state_nodes if self._is_descendant(d, region)]", "active_in_region = [d for d in self._active_state_nodes if d.id.startswith(region.id)]")]),
    V("c03-domain-from-source-on-reenter", {"C03": "R7"}, edits=[
        (B, "        if target_state == transition.source:\n            return parent\n", "        if target_state == transition.source or transition.reenter:\n            return parent\n")]),
    V("c11-resolve-history-after-exit", {"C11": "R6"}, edits=[
        (S, "            history_targets = self._resolve_history_target(target_state)\n            path_to_enter = []\n", "            path_to_enter = []\n"),
        (S, "                for node in history_targets:\n", "                for node in self._resolve_history_target(target_state):\n")]),
    V("c08-rollback-skips-still-active", {"C08": "R2", "C07": "R4"}, edits=[
        (B, "                if node in states_to_exit:\n                    self._schedule_state_tasks(node)\n", "                if node in states_to_exit and node not in self._active_state_nodes:\n                    self._schedule_state_tasks(node)\n")]),
    V("c15-unregister-without-owner-check", {"C15": "R5", "C14": "R3"}, edits=[
        (B, "        for system_id, candidate in list(registry.items()):\n            if candidate is self:\n                del registry[system_id]\n\n    def _resolve_delay",
            "        for system_id, candidate in list(registry.items()):\n            if candidate.id == self.id:\n                del registry[system_id]\n\n    def _resolve_delay")]),
    V("c14-stop-forgets-send-flags", {"C14": "R3"}, edits=[
        (S, "        for cancel_flag in list(self._pending_send_cancels):\n            cancel_flag.set()\n", "")]),
    V("c11-record-only-leaves", {"C11": "R8"}, edits=[
        (B, "(node for node in self._active_state_nodes if node is not state and self._is_descendant(node, state))", "(node for node in self._active_state_nodes if node is not state and self._is_descendant(node, state) and (not node.states))")]),
    V("c12-persist-only-leaf-history", {"C12": "R6"}, edits=[
        (B, "'history': {parent_id: sorted((node.id for node in nodes))", "'history': {parent_id: sorted((node.id for node in nodes if not node.states))")]),
    V("c16-pick-actor-by-smallest-id", {"C16": "R2", "C15": "R8"}, edits=[
        (B, "        if len(matches) > 1:\n            pass\n            return None\n", "        if len(matches) > 1:\n            return min(matches, key=lambda actor: actor.id)\n")]),
    V("c19-alias-first-source-wins", {"C19": "R2"}, edits=[
        (L, "                    logic_map[_snake_to_camel(name)] = func\n", "                    logic_map.setdefault(_snake_to_camel(name), func)\n")]),
    V("c17-invoke-handlers-first-only", {"C17": "R8"}, edits=[
        (CE, "    if len(transitions) == 1:\n        return render_transition_value(transitions[0], state, machine)\n    rendered = ', '.join((render_transition_value(t, state, machine) for t in transitions))\n    return f'[{rendered}]'\n",
             "    return render_transition_value(transitions[0], state, machine)\n")]),
    V("c13-sync-copies-async-reset-rule", {"C13": "R1"}, edits=[
        (S, "                processed += 1\n                if processed > limit:\n", "                processed = 0\n                if processed > limit:\n")],
      note="the drain counter no longer counts"),
    V("silent-rename-reentrancy-flag", silent=["C01", "C04", "C13", "C05"], edits=[
        (S, "_is_processing", "_draining")], note="the sync re-entrancy flag renamed everywhere"),
    V("silent-status-tuple-as-constant", silent=["C10", "C14", "C04"], edits=[
        (I, "_ACTOR_POLL_INTERVAL = 0.005\n", "_ACTOR_POLL_INTERVAL = 0.005\n_NOT_LIVE = ('stopped', 'done', 'error')\n"),
        (I, "        if self.status in ('stopped', 'done', 'error'):\n", "        if self.status in _NOT_LIVE:\n")],
      note="send()/send_events() test the status against a module constant"),
    V("silent-memo-keyed-by-guard-object-identity", silent=["C02"], edits=[
        (B, "            key = id(transition)\n", "            key = (id(transition), 0)\n")]),
    V("silent-enqueue-helper", silent=["C10", "C14", "C04"], edits=[
        (S, "        event_obj = self._prepare_event(event_or_type, **payload)\n        self._event_queue.append(event_obj)\n", "        event_obj = self._prepare_event(event_or_type, **payload)\n        self._enqueue(event_obj)\n"),
        (S, "    def send_events(self, events", "    def _enqueue(self, event_obj) -> None:\n        self._event_queue.append(event_obj)\n\n    def send_events(self, events")],
      note="enqueue moved into a private helper called from send()"),
    # ------------------------------------------------------------------ rules added after the second round of seeded changes
    V("c12-restore-filters-ids", {"C12": "R7", "C01": "R10"}, edits=[
        (B, "        for state_id in restore_ids:\n", "        leaf_ids = snapshot.get('state_ids') or []\n        if leaf_ids:\n            restore_ids = [sid for sid in restore_ids if any((leaf == sid or leaf.startswith(f'{sid}.') for leaf in leaf_ids))]\n        for state_id in restore_ids:\n")],
      note="from_snapshot drops configuration entries no recorded leaf vouches for"),
    V("c08-timer-key-by-event-type", {"C08": "R3"}, edits=[
        (S, "        unique_key = f'{owner_id}::{uuid.uuid4()}'\n", "        unique_key = f'{owner_id}::{event.type}'\n")],
      note="two activations of one state share a cancel-flag key"),
    V("c07-handler-helper-dunder", {"C07": "R6"}, edits=[
        (B, "            try:\n                listener(self)\n            except Exception:\n                pass\n", "            try:\n                listener(self)\n            except Exception:\n                self._callback_label(listener)\n"),
        (B, "    def _notify_subscribers(self) -> None:\n", "    @staticmethod\n    def _callback_label(callback: Callable[..., Any]) -> str:\n        module = getattr(callback, '__module__', None)\n        name = getattr(callback, '__qualname__', None) or callback.__name__\n        return f'{module}.{name}' if module else name\n\n    def _notify_subscribers(self) -> None:\n")]),
    V("silent-handler-helper-with-defaults", silent=["C07"], edits=[
        (B, "            try:\n                listener(self)\n            except Exception:\n                pass\n", "            try:\n                listener(self)\n            except Exception:\n                self._callback_label(listener)\n"),
        (B, "    def _notify_subscribers(self) -> None:\n", "    @staticmethod\n    def _callback_label(callback: Callable[..., Any]) -> str:\n        module = getattr(callback, '__module__', None)\n        name = getattr(callback, '__qualname__', None) or getattr(callback, '__name__', repr(callback))\n        return f'{module}.{name}' if module else name\n\n    def _notify_subscribers(self) -> None:\n")],
      note="the same helper with getattr defaults cannot fail"),
    V("c06-id-keyed-guard-cache", {"C06": "R9"}, edits=[
        (B, "        self._action_depth: int = 0\n", "        self._action_depth: int = 0\n        self._inline_guard_defs: Dict[Any, GuardDefinition] = {}\n"),
        (B, "                if guard_cfg is None or self._is_guard_satisfied(GuardDefinition(guard_cfg), event):\n", "                if guard_cfg is None or self._is_guard_satisfied(self._inline_guard_def(guard_cfg), event):\n"),
        (B, "    def _is_state_in(self, guard: 'GuardDefinition'", "    def _inline_guard_def(self, guard_cfg: Any) -> 'GuardDefinition':\n        key = guard_cfg if isinstance(guard_cfg, str) else id(guard_cfg)\n        guard_def = self._inline_guard_defs.get(key)\n        if guard_def is None:\n            guard_def = GuardDefinition(guard_cfg)\n            self._inline_guard_defs[key] = guard_def\n        return guard_def\n\n    def _is_state_in(self, guard: 'GuardDefinition'")],
      note="cache keyed by id() of an object it does not keep alive"),
    V("silent-id-keyed-cache-pins-object", silent=["C06", "C02"], edits=[
        (B, "        self._action_depth: int = 0\n", "        self._action_depth: int = 0\n        self._inline_guard_defs: Dict[Any, Any] = {}\n"),
        (B, "                if guard_cfg is None or self._is_guard_satisfied(GuardDefinition(guard_cfg), event):\n", "                if guard_cfg is None or self._is_guard_satisfied(self._inline_guard_def(guard_cfg), event):\n"),
        (B, "    def _is_state_in(self, guard: 'GuardDefinition'", "    def _inline_guard_def(self, guard_cfg: Any) -> 'GuardDefinition':\n        key = guard_cfg if isinstance(guard_cfg, str) else id(guard_cfg)\n        entry = self._inline_guard_defs.get(key)\n        if entry is None:\n            entry = (guard_cfg, GuardDefinition(guard_cfg))\n            self._inline_guard_defs[key] = entry\n        return entry[1]\n\n    def _is_state_in(self, guard: 'GuardDefinition'")],
      note="the same cache keeps the keyed object alive next to the value"),
    V("c09-invoke-event-cached-by-id", {"C09": "R6"}, edits=[
        (B, "        self._action_depth: int = 0\n", "        self._action_depth: int = 0\n        self._invoke_events: Dict[str, Event] = {}\n"),
        (S, "            invoke_event = Event(f'invoke.{invocation.id}', {'input': invocation.input or {}})\n", "            invoke_event = self._invoke_events.get(invocation.id)\n            if invoke_event is None:\n                invoke_event = Event(f'invoke.{invocation.id}', {'input': invocation.input or {}})\n                self._invoke_events[invocation.id] = invoke_event\n")],
      note="two invocations that share an id share the cached input"),
    V("c01-start-enters-initial-only", {"C01": "R9"}, edits=[
        (S, "            self._enter_states([self.machine])\n", "            self._enter_states([self.machine.states[self.machine.initial]])\n")]),
    V("c05-probe-assign-uncontained", {"C05": "R6"}, edits=[
        (H, "                    try:\n                        self._apply_assign(self._resolve_params(action_def.params, event) or {}, event)\n                    except Exception:\n                        pass\n                        return\n", "                    self._apply_assign(self._resolve_params(action_def.params, event) or {}, event)\n")],
      note="revert of fix commit 45ea722"),
    # ------------------------------------------------------------------ rules added after the second round, wave 2
    V("c14-finished-child-forgotten-unstopped", {"C14": "R5", "C15": "R9"}, edits=[
        (I, "                self._actors.pop(child_interpreter.id, None)\n                await child_interpreter.stop()\n",
            "                self._actors.pop(child_interpreter.id, None)\n                if child_interpreter.status == 'running':\n                    await child_interpreter.stop()\n")],
      note="revert of fix commit 14f47e0"),
    V("c14-finished-actor-releases-itself", {"C14": "R5"}, edits=[
        (I, "    async def _process_event_and_transient_transitions(self, event", "    def _release_from_parent(self) -> None:\n        parent = self.parent\n        if parent is None or self.status not in ('done', 'error'):\n            return\n        if parent._actors.get(self.id) is self:\n            del parent._actors[self.id]\n\n    async def _process_event_and_transient_transitions(self, event")],
      note="a removal from a parent's actor map in a function that stops nothing"),
    V("silent-stopchild-unregisters-through-helper", silent=["C15", "C14"], edits=[
        (S, "            registry = self._system_registry()\n            for system_id, candidate in list(registry.items()):\n                if candidate is actor:\n                    del registry[system_id]\n            actor.stop()\n",
            "            actor._unregister_from_system()\n            actor.stop()\n")],
      note="stopChild removes the registry entries through the child's own helper"),
    V("c13-depth-counter-reset-at-cut", {"C13": "R5"}, edits=[
        (B, "        if depth > self.MAX_ACTION_DEPTH or self._action_expansions > budget:\n            pass\n            return []\n", "        if depth > self.MAX_ACTION_DEPTH or self._action_expansions > budget:\n            self._action_depth = 0\n            return []\n")]),
    V("c18-walk-strips-own-key", {"C18": "R6"}, edits=[
        ("resolver.py", "    current = start_node\n    for key in path:\n", "    if path and path[0] == start_node.key:\n        path = path[1:]\n    current = start_node\n    for key in path:\n")]),
    V("silent-walk-copies-path", silent=["C18"], edits=[
        ("resolver.py", "    current = start_node\n    for key in path:\n", "    path = list(path)\n    current = start_node\n    for key in path:\n")]),
    V("c19-arity-of-class-function", {"C19": "R7"}, edits=[
        ("machine_logic.py", "            bound = getattr(self, name)\n            try:\n                arity = len(inspect.signature(bound).parameters)\n", "            try:\n                arity = len(inspect.signature(member).parameters) - 1\n"),
        ("machine_logic.py", "            registry[name] = bound\n", "            registry[name] = getattr(self, name)\n")]),
    V("silent-arity-bound-inline", silent=["C19"], edits=[
        ("machine_logic.py", "            bound = getattr(self, name)\n            try:\n                arity = len(inspect.signature(bound).parameters)\n", "            try:\n                arity = len(inspect.signature(getattr(self, name)).parameters)\n"),
        ("machine_logic.py", "            registry[name] = bound\n", "            registry[name] = getattr(self, name)\n")]),
    V("c17-tags-through-a-set", {"C17": "R6"}, edits=[
        ("cli/ir.py", "    tags = tuple((t for t in _as_list(config.get('tags')) if isinstance(t, str)))\n", "    tags = tuple({t for t in _as_list(config.get('tags')) if isinstance(t, str)})\n")]),
    V("silent-tags-deduplicated-in-order", silent=["C17"], edits=[
        ("cli/ir.py", "    tags = tuple((t for t in _as_list(config.get('tags')) if isinstance(t, str)))\n", "    tags = tuple(dict.fromkeys((t for t in _as_list(config.get('tags')) if isinstance(t, str))))\n")]),
    V("c13-expansion-bound-depth-only", {"C13": "R6"}, edits=[
        (B, "        if depth > self.MAX_ACTION_DEPTH or self._action_expansions > budget:\n", "        if depth > self.MAX_ACTION_DEPTH:\n")],
      note="revert of the deciding line of fix commit 5d7869f"),
    V("c13-expansion-budget-never-renewed", {"C13": "R6", "C12": "R2"}, edits=[
        (B, "        if depth == 0:\n            self._action_expansions = 0\n        elif canonical in (PURE, CHOOSE, ENQUEUE_ACTIONS):\n", "        if canonical in (PURE, CHOOSE, ENQUEUE_ACTIONS):\n")],
      note="the budget becomes a lifetime budget (and run state that is not persisted)"),
    # ------------------------------------------------------------------ rules added after the third round of seeded changes
    V("c01-region-filter-uses-parent-index", {"C01": "R3"}, edits=[
        (S, "if child.type != 'history' and child.id not in explicit_child_ids]", "if child.type != 'history' and child.id not in explicit_children]")],
      note="the region filter consults the index keyed by parent ids"),
    V("c06-params-withheld-when-falsy", {"C06": "R12"}, edits=[
        (B, "        if params is None:\n            return fn(context, event)\n", "        if not params:\n            return fn(context, event)\n")]),
    V("c09-done-callback-pops-owner", {"C09": "R11", "C14": "R8", "C08": "R10"}, edits=[
        ("task_manager.py", "self._tasks_by_owner.get(owner_id, set()).discard(t)", "self._tasks_by_owner.pop(owner_id, set()).discard(t)")]),
    V("silent-done-callback-guards-missing-owner", silent=["C09", "C14", "C08"], edits=[
        ("task_manager.py", "task.add_done_callback(lambda t: self._tasks_by_owner.get(owner_id, set()).discard(t))", "task.add_done_callback(lambda t: owner_id in self._tasks_by_owner and self._tasks_by_owner[owner_id].discard(t))")]),
    # ------------------------------------------------------------------ round 6 (rules written after the sixth round of seeded changes)
    V("c14-sync-start-marks-stopped-without-teardown", {"C14": "R10"}, edits=[
        (S, "        try:\n            self._enter_states([self.machine])\n        finally:\n            self._is_processing = False\n",
            "        try:\n            self._enter_states([self.machine])\n        except Exception:\n            self.status = 'stopped'\n            raise\n        finally:\n            self._is_processing = False\n")],
      note="seed C14-d: stop() is a no-op afterwards, what the half-finished start created is never released"),
    V("c14-async-start-marks-stopped-again", {"C14": "R10"}, edits=[
        (I, "            await self.stop()\n            raise\n", "            self.status = 'stopped'\n            raise\n")],
      note="the defect repaired in /repo 3f6a5b2"),
    V("silent-async-start-stop-then-status", silent=["C14", "C10"], edits=[
        (I, "            await self.stop()\n            raise\n", "            await self.stop()\n            self.status = 'stopped'\n            raise\n")],
      note="the write follows the hand-over to stop(): redundant, harmless"),
    V("c11-history-default-resolved-from-owner", {"C11": "R12"}, edits=[
        (B, "            return resolve_target_state(target, reference)\n", "            return resolve_target_state(target, reference.parent or reference)\n")],
      note="seed C11-d"),
    V("c19-invoke-handler-guard-collected-per-action", {"C19": "R10"}, edits=[
        (L, "                        actions.add(action_def.type)\n                LogicLoader._collect_guard_names(transition.guard_def, guards)\n",
            "                        actions.add(action_def.type)\n                    LogicLoader._collect_guard_names(transition.guard_def, guards)\n")],
      note="seed C19-d: a guarded handler without user actions never has its guard recorded"),
    V("silent-invoke-handler-guard-collected-first", silent=["C19"], edits=[
        (L, "            for transition in invoke_def.on_done + invoke_def.on_error:\n                for action_def in transition.actions:\n",
            "            for transition in invoke_def.on_done + invoke_def.on_error:\n                LogicLoader._collect_guard_names(transition.guard_def, guards)\n                for action_def in transition.actions:\n"),
        (L, "                        actions.add(action_def.type)\n                LogicLoader._collect_guard_names(transition.guard_def, guards)\n", "                        actions.add(action_def.type)\n")],
      note="the collector call moved in front of the action loop: still once per transition"),
    V("c20-null-on-entry-pruned", {"C20": "R5"}, edits=[
        (M, "        for event, transitions_config in raw_on.items():\n", "        for event, transitions_config in raw_on.items():\n            if transitions_config is None and self.parent is None:\n                continue\n")],
      note="seed C20-d in its smallest form: a forbidden entry dropped at parse time"),
    V("c09-invoke-without-src-skipped", {"C09": "R12"}, edits=[
        (M, "        for i_config in invoke_configs:\n", "        for i_config in invoke_configs:\n            if isinstance(i_config, dict) and (not i_config.get('src')):\n                continue\n")]),
    V("c16-restored-history-through-a-set", {"C16": "R1"}, edits=[
        (B, "for nid in node_ids if machine.get_state_by_id(nid)]", "for nid in map(str, set(node_ids)) if machine.get_state_by_id(nid)]")],
      note="seed C16-d: the persisted order of the remembered nodes is replaced by hash order (lazy wrapper around a set)"),
    V("c17-extractor-skips-final-states", {"C17": "R11"}, edits=[
        (CX, "    if 'on' in node and isinstance(node['on'], dict):\n", "    if node.get('type') in ('final', 'history'):\n        return\n    if 'on' in node and isinstance(node['on'], dict):\n")],
      note="seed C17-d"),
    V("silent-extractor-shape-guard-clause", silent=["C17"], edits=[
        (CX, "    for key in ('entry', 'exit'):\n        if key in node:\n            _extract_actions(node[key], actions)\n", "    if not isinstance(node, dict):\n        return\n    for key in ('entry', 'exit'):\n        if key in node:\n            _extract_actions(node[key], actions)\n")]),
    V("c18-initial-inference-reads-unvalidated-child", {"C18": "R11"}, edits=[
        (M, "if not (isinstance(child, dict) and child.get('type') == 'history')]", "if child.get('type') != 'history']")],
      note="seed C18-d"),
    V("silent-initial-inference-de-morgan", silent=["C18"], edits=[
        (M, "if not (isinstance(child, dict) and child.get('type') == 'history')]", "if not isinstance(child, dict) or child.get('type') != 'history']")]),
    V("c17-runner-passed-to-verifier-but-not-parsed", {"C17": "R3"}, edits=[
        (CM, "        problems.extend(_syntax_problems('runner', runner_code))\n", "        logger.debug('runner: %d characters', len(runner_code))\n")],
      note="the defect repaired in /repo (runner written unparsed), in the form 'handed to the verifier, never parsed'"),
    V("c17-combined-file-not-parsed", {"C17": "R3"}, edits=[
        (CM, "            problems.extend(_syntax_problems('combined file', _combined_output(logic_code, runner_code)))\n", "            pass\n")],
      note="single-file output merged and polished after verification, written unparsed"),
    V("c17-combined-file-parsed-from-other-inputs", {"C17": "R3"}, edits=[
        (CM, "_syntax_problems('combined file', _combined_output(logic_code, runner_code))", "_syntax_problems('combined file', _combined_output(logic_code, logic_code))")],
      note="what is parsed is not what the writer recomputes"),
    V("silent-runner-parsed-inline", silent=["C17"], edits=[
        (CM, "        problems.extend(_syntax_problems('runner', runner_code))\n", "        try:\n            ast.parse(runner_code)\n        except SyntaxError as exc:\n            problems.append(f'generated runner is not valid Python (line {exc.lineno})')\n")],
      note="the syntax helper inlined for the runner"),
    V("c11-unvisited-history-of-parallel-enters-nothing", {"C11": "R2", "C01": "R2b"}, edits=[
        (B, "                return [parent.states[parent.initial]]\n            return [parent]\n", "                return [parent.states[parent.initial]]\n            return []\n")],
      note="the defect repaired in /repo 5a024e0"),
    V("c04-async-consumer-started-before-initial-macrostep", {"C04": "R4", "C01": "R5"}, edits=[
        (I, "        self.status = 'running'\n        try:\n            for plugin in self._plugins:\n", "        self.status = 'running'\n        self._event_loop_task = asyncio.create_task(self._run_event_loop())\n        try:\n            for plugin in self._plugins:\n"),
        (I, "            await self._settle_transient_transitions()\n            self._event_loop_task = asyncio.create_task(self._run_event_loop())\n", "            await self._settle_transient_transitions()\n")],
      note="the defect repaired in /repo 2e9580d"),
    V("c15-stopchild-unresolved-target-not-dropped", {"C15": "R4"}, edits=[
        (I, "        if actor is None:\n            pass\n            return\n        for actor_id, candidate in list(self._actors.items()):\n", "        if actor is None:\n            pass\n        for actor_id, candidate in list(self._actors.items()):\n")],
      note="the guard clause loses its return: the stop below runs with an unresolved target"),
    V("silent-stopchild-guard-as-if-else", silent=["C15", "C14"], edits=[
        (I, "        if actor is None:\n            pass\n            return\n        for actor_id, candidate in list(self._actors.items()):\n", "        if actor is None:\n            pass\n            actor = None\n        if actor is None:\n            return\n        for actor_id, candidate in list(self._actors.items()):\n")],
      note="a second, redundant guard clause"),
    # ================================================================== must stay silent
    V("silent-normal-form", silent=ALL, edits=[], note="whole tree re-emitted by ast.unparse: formatting, comments and line numbers all change"),
    V("silent-rename-local", silent=["C01", "C03", "C05", "C09", "C10"], edits=[
        (B, "explicit_children", "named_children"), (B, "explicit_child_ids", "named_child_ids")]),
    V("silent-extract-add-helper", silent=["C01", "C03", "C05"], edits=[
        (B, "            self._active_state_nodes.add(state)\n            pass\n            await self._execute_actions(state.entry, trigger_event)\n", "            self._activate(state)\n            await self._execute_actions(state.entry, trigger_event)\n"),
        (B, "    def _record_history(self, states_to_exit: List[StateNode]) -> None:\n", "    def _activate(self, state: StateNode) -> None:\n        self._active_state_nodes.add(state)\n\n    def _record_history(self, states_to_exit: List[StateNode]) -> None:\n")],
      note="private helper called only from the entry role"),
    V("silent-negated-depth-key", silent=["C03", "C16", "C05"], edits=[
        (B, "sorted(list(states_to_exit), key=lambda s: (s.depth, s.id), reverse=True)", "sorted(list(states_to_exit), key=lambda s: (-s.depth, s.id))"),
        (S, "sorted(list(states_to_exit), key=lambda s: (s.depth, s.id), reverse=True)", "sorted(list(states_to_exit), key=lambda s: (-s.depth, s.id))")],
      note="ties broken ascending instead of descending by id: still deepest-first and total"),
    V("silent-rename-private-helper", silent=["C01", "C03", "C05", "C07", "C16"], edits=[
        (S, "_process_single_transition", "_run_external_transition")]),
    V("silent-rename-name-anchored-helper", silent=["C01", "C03", "C05", "C11"], edits=[
        (B, "_is_descendant", "_is_proper_descendant"), (M, "_is_descendant", "_is_proper_descendant")],
      note="a consistent rename of a reference helper the rules know by name (both namesakes): undone in the model (sa/inline.py)"),
    V("silent-rename-compute-exit-set", silent=["C01", "C03", "C05", "C16"], edits=[
        (B, "_compute_states_to_exit", "_exit_set_for")],
      note="consistent rename of an anchor function"),
    V("silent-reorder-independent", silent=["C12", "C01", "C14"], edits=[
        (B, "        interpreter.context = snapshot['context']\n        interpreter.status = snapshot['status']\n", "        interpreter.status = snapshot['status']\n        interpreter.context = snapshot['context']\n")]),
    V("silent-early-return-to-else", silent=["C02", "C05", "C10", "C14"], edits=[
        (B, "        if self.status != 'running':\n            return\n        self.status = 'done'\n        self.output = output\n", "        if self.status == 'running':\n            self.status = 'done'\n            self.output = output\n        else:\n            return\n")],
      note="if not c: return  <->  if c: ... else: return (rest of _complete follows only when running is no longer guaranteed: see expectation)"),
    V("silent-rename-param-local-in-executor", silent=["C01", "C03", "C05", "C07", "C16"], edits=[
        (S, "snapshot_before_transition", "config_before")]),
]
