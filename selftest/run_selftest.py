#!/venv/bin/python
"""Self-test of the checkers (not a property check, never registered in MANIFEST.json).

usage: run_selftest.py [-j N] [--only substr] [--json out]

Builds the normal form of /repo/src/xstate_statemachine (ast.unparse of every file) in a scratch
directory outside /repo and /verif, applies each variant's edits, checks that the variant still
compiles, runs the relevant property checks against it and compares with the expectation:
  fire   : exit 1 and a violation reported by the expected rule
  silent : exit 0 for every listed property
Scratch directories are removed as soon as a variant has been judged.
"""
import argparse
import ast
import json
import multiprocessing as mp
import os
import re
import shutil
import subprocess
import sys
import tempfile
import time

HERE = os.path.dirname(os.path.abspath(__file__))
VERIF = os.path.dirname(HERE)
sys.path.insert(0, HERE)
SRC = os.environ.get("XSM_VERIF_SRC", "/repo/src/xstate_statemachine")


def normal_form(dst):
    for dirpath, dirnames, filenames in os.walk(SRC):
        dirnames[:] = [d for d in dirnames if d != "__pycache__"]
        rel = os.path.relpath(dirpath, SRC)
        os.makedirs(os.path.join(dst, rel), exist_ok=True)
        for fn in filenames:
            if fn.endswith(".py"):
                with open(os.path.join(dirpath, fn), encoding="utf-8") as fh:
                    text = fh.read()
                with open(os.path.join(dst, rel, fn), "w", encoding="utf-8") as fh:
                    fh.write(strip_noise(ast.parse(text)) + "\n")


def strip_noise(tree):
    """Normal form: docstrings removed, ``logger.*(...)`` statements replaced by ``pass`` (the checkers never
    look at either), one statement per line."""
    for n in ast.walk(tree):
        if isinstance(n, (ast.FunctionDef, ast.AsyncFunctionDef, ast.ClassDef, ast.Module)):
            if n.body and isinstance(n.body[0], ast.Expr) and isinstance(n.body[0].value, ast.Constant) and isinstance(n.body[0].value.value, str):
                n.body = n.body[1:] or [ast.Pass()]

    class T(ast.NodeTransformer):
        def visit_Expr(self, n):
            v = n.value
            if isinstance(v, ast.Call) and isinstance(v.func, ast.Attribute) and isinstance(v.func.value, ast.Name) and v.func.value.id == "logger":
                return ast.Pass()
            return n
    return ast.unparse(T().visit(tree))


def judge(args):
    variant, base = args
    t0 = time.time()
    work = tempfile.mkdtemp(prefix="xsm_selftest_")
    tree = os.path.join(work, "xstate_statemachine")
    res = {"id": variant["id"], "status": "ok", "detail": [], "note": variant.get("note", "")}
    try:
        if variant.get("patch"):
            # a behaviour-preserving refactoring kept as a diff (selftest/refactors): all twenty checks stay silent
            os.makedirs(os.path.join(work, "src"))
            shutil.copytree(SRC, os.path.join(work, "src", "xstate_statemachine"), ignore=shutil.ignore_patterns("__pycache__"))
            pr = subprocess.run(["patch", "-p1", "-s", "-i", variant["patch"]], cwd=work, capture_output=True, text=True)
            if pr.returncode != 0:
                res["status"] = "not-applicable"
                res["detail"].append(f"patch does not apply: {pr.stdout[-150:]}")
                return res
            pr = subprocess.run([sys.executable, os.path.join(VERIF, "tools", "run_all.py"), os.path.join(work, "src", "xstate_statemachine")],
                                capture_output=True, text=True, cwd=VERIF)
            try:
                out = json.loads(pr.stdout.strip().splitlines()[-1])
            except Exception:
                out = {"_error": {"rc": 2, "rules": ["ANALYSIS-ERROR"], "reports": [pr.stderr[-200:]]}}
            for prop, v in sorted(out.items()):
                res["status"] = "FAIL"
                res["detail"].append(f"{prop}: expected silence, got exit {v.get('rc')} rules {v.get('rules')}: {(v.get('reports') or [''])[0][:200]}")
            if not out:
                res["detail"].append("all twenty checks silent")
            return res
        if variant.get("raw"):
            # mutation-style variant: a single-node edit of the original source text (see selftest/mutation_variants.py)
            shutil.copytree(SRC, tree, ignore=shutil.ignore_patterns("__pycache__"))
        else:
            shutil.copytree(base, tree)
        for rel, old, new in variant["edits"]:
            path = os.path.join(tree, rel)
            with open(path, encoding="utf-8") as fh:
                text = fh.read()
            if old not in text:
                res["status"] = "not-applicable"
                res["detail"].append(f"pattern not found in {rel}: {old[:70]!r}")
                return res
            text = text.replace(old, new) if variant["silent"] else text.replace(old, new, 1)
            try:
                compile(text, path, "exec")
            except SyntaxError as e:
                res["status"] = "variant-broken"
                res["detail"].append(f"{rel} does not compile after edit: {e}")
                return res
            with open(path, "w", encoding="utf-8") as fh:
                fh.write(text)
        todo = [(p, r) for p, r in variant["fire"].items()] + [(p, None) for p in variant["silent"]]
        for prop, rule in todo:
            pr = subprocess.run([sys.executable, os.path.join(VERIF, "run.py"), prop, "--src", tree, "--no-evidence", "--tier", variant.get("tier", "quick")],
                                capture_output=True, text=True, cwd=VERIF)
            out = pr.stdout
            fired = sorted(set(re.findall(r"\[(C\d\d\.R\w+)\]", "\n".join(l for l in out.splitlines() if not l.startswith("KNOWN-FINDING")))))
            if pr.returncode == 2:
                res["status"] = "FAIL"
                res["detail"].append(f"{prop}: ANALYSIS-ERROR: {out.strip().splitlines()[-1][:200] if out.strip() else pr.stderr[-200:]}")
            elif rule is not None:
                want = f"{prop}.{rule}"
                if pr.returncode != 1 or not any(f == want or f.startswith(want) for f in fired):
                    res["status"] = "FAIL"
                    res["detail"].append(f"{prop}: expected a violation from {want}, got exit {pr.returncode} rules {fired}")
                else:
                    line = next((l for l in out.splitlines() if f"[{want}" in l), "")
                    res["detail"].append(f"{prop}: fired {want}: {line.strip()[:160]}")
            else:
                if pr.returncode != 0:
                    res["status"] = "FAIL"
                    res["detail"].append(f"{prop}: expected silence, got exit {pr.returncode} rules {fired}")
                else:
                    res["detail"].append(f"{prop}: silent")
        return res
    finally:
        shutil.rmtree(work, ignore_errors=True)
        res["wall_s"] = round(time.time() - t0, 2)


def main():
    ap = argparse.ArgumentParser()
    ap.add_argument("-j", type=int, default=16)
    ap.add_argument("--only")
    ap.add_argument("--json", default=os.path.join(HERE, "results.json"))
    a = ap.parse_args()
    from variants import VARIANTS
    try:
        from mutation_variants import MUTATION_VARIANTS
        VARIANTS = VARIANTS + MUTATION_VARIANTS
    except ImportError:
        pass
    rdir = os.path.join(HERE, "refactors")
    if os.path.isdir(rdir):
        for fn in sorted(os.listdir(rdir)):
            if fn.endswith(".diff"):
                VARIANTS = VARIANTS + [{"id": f"silent-refactor-{fn[:-5]}", "fire": {}, "silent": ["ALL"], "edits": [], "patch": os.path.join(rdir, fn),
                                        "note": "behaviour-preserving refactoring (suite passes); see selftest/refactors/NOTES.md"}]
    vs = [v for v in VARIANTS if not a.only or a.only in v["id"] or a.only in v["fire"] or a.only in v["silent"]]
    base_root = tempfile.mkdtemp(prefix="xsm_selftest_base_")
    base = os.path.join(base_root, "xstate_statemachine")
    try:
        normal_form(base)
        with mp.Pool(a.j) as pool:
            results = pool.map(judge, [(v, base) for v in vs])
    finally:
        shutil.rmtree(base_root, ignore_errors=True)
    bad = 0
    for r in results:
        mark = {"ok": "ok  ", "FAIL": "FAIL", "not-applicable": "n/a ", "variant-broken": "BRKN"}[r["status"]]
        print(f"{mark} {r['id']}")
        if r["status"] != "ok":
            bad += r["status"] in ("FAIL", "variant-broken")
            for d in r["detail"]:
                print(f"       {d}")
    n_fire = sum(1 for v in vs if v["fire"])
    print(f"{len(results)} variants ({n_fire} must-fire, {len(results) - n_fire} must-stay-silent): "
          f"{sum(r['status'] == 'ok' for r in results)} ok, {sum(r['status'] == 'FAIL' for r in results)} failed, "
          f"{sum(r['status'] == 'not-applicable' for r in results)} not applicable, {sum(r['status'] == 'variant-broken' for r in results)} broken")
    with open(a.json, "w") as fh:
        json.dump(results, fh, indent=1)
    return 1 if bad else 0


if __name__ == "__main__":
    sys.exit(main())
