"""F5: set-order taint.

Iteration order over a ``set`` of objects hashed by address differs between
runs / rebuilds.  A value is *unordered* when it is a set, or a list/generator
produced by iterating one without a total-order sort.  Every consumer of an
unordered value is classified:

  insensitive  set/dict comprehension, any/all/len/sum/set()/frozenset(),
               sorted(...) with a total key, membership tests, boolean
               first-match loops, accumulation into a set, min/max
  sensitive    anything else: a ``for`` loop with effects, list() / list
               comprehension that escapes (stored in an attribute, returned,
               passed on), next(), unpacking, join

A sensitive consumer is reported unless it is in the caller's table of
accepted exceptions (each one named symbol + reason).
"""
from __future__ import annotations

import ast
from typing import Dict, List, NamedTuple, Optional, Set, Tuple

from .program import FuncInfo, Program, dotted, norm, own_nodes
from .util import ancestors, assignments_to, parents, stmt_text

SET_ATTRS = {"_active_state_nodes", "_pending_send_cancels"}
ENGINE_ONLY_SET_ATTRS = {"tags"}          # StateNode.tags is a set; the CLI's StateIR.tags is a tuple
INSENSITIVE_FUNCS = {"any", "all", "len", "sum", "set", "frozenset", "bool", "isinstance", "id",
                     "debug", "info", "warning", "error", "exception", "critical"}


class Consumer(NamedTuple):
    func: FuncInfo
    node: ast.AST          # the consuming construct
    source: str            # text of the unordered expression
    kind: str              # for-effects | list-escape | next | sorted-partial-key | store | return | arg
    detail: str


class SetOrder:
    def __init__(self, program: Program):
        self.p = program
        # functions whose *return annotation* is a Set
        self.set_returning: Set[str] = set()
        for f in program.all_funcs:
            r = f.node.returns
            if r is not None and _is_set_annotation(r):
                self.set_returning.add(f.name)

    # --------------------------------------------------------------- typing
    def is_set_expr(self, f: FuncInfo, e: ast.AST, depth: int = 0) -> bool:
        if depth > 4:
            return False
        if isinstance(e, (ast.Set, ast.SetComp)):
            return True
        if isinstance(e, ast.Attribute) and e.attr in SET_ATTRS:
            return True
        if isinstance(e, ast.Attribute) and e.attr in ENGINE_ONLY_SET_ATTRS and not f.module.name.startswith("cli"):
            return True
        if isinstance(e, ast.Call):
            fn = e.func
            if isinstance(fn, ast.Name) and fn.id in ("set", "frozenset"):
                return True
            if isinstance(fn, ast.Attribute):
                if fn.attr in ("copy", "union", "intersection", "difference", "symmetric_difference") and \
                        self.is_set_expr(f, fn.value, depth + 1):
                    return True
                if fn.attr in self.set_returning:
                    return True
            if isinstance(fn, ast.Name) and fn.id in self.set_returning:
                return True
            return False
        if isinstance(e, ast.BinOp) and isinstance(e.op, (ast.BitAnd, ast.BitOr, ast.Sub, ast.BitXor)):
            return self.is_set_expr(f, e.left, depth + 1) or self.is_set_expr(f, e.right, depth + 1)
        if isinstance(e, ast.Name):
            # annotation on a parameter or local
            for a in f.node.args.args + f.node.args.kwonlyargs:
                if a.arg == e.id and a.annotation is not None and _is_set_annotation(a.annotation):
                    return True
            for a in assignments_to(f, e.id):
                if isinstance(a, ast.AnnAssign) and _is_set_annotation(a.annotation):
                    return True
                v = getattr(a, "value", None)
                if isinstance(a, (ast.Assign, ast.AnnAssign)) and v is not None and self.is_set_expr(f, v, depth + 1):
                    return True
            # closure variable of an enclosing function
            if f.parent is not None and e.id not in f.params:
                if not assignments_to(f, e.id):
                    return self.is_set_expr(f.parent, e, depth + 1)
        if isinstance(e, ast.Attribute) and isinstance(e.value, ast.Name) and e.attr == "current_state_ids":
            return True
        return False

    def is_unordered_list(self, f: FuncInfo, e: ast.AST, depth: int = 0) -> bool:
        """list / generator / listcomp whose order comes from a set."""
        if depth > 4:
            return False
        if isinstance(e, (ast.ListComp, ast.GeneratorExp)):
            g0 = e.generators[0]
            return self.is_set_expr(f, g0.iter) or self.is_unordered_list(f, g0.iter, depth + 1)
        if isinstance(e, ast.Call) and isinstance(e.func, ast.Name) and e.func.id in ("list", "tuple", "iter", "reversed", "enumerate") and e.args:
            return self.is_set_expr(f, e.args[0]) or self.is_unordered_list(f, e.args[0], depth + 1)
        if isinstance(e, ast.Call) and isinstance(e.func, ast.Name) and e.func.id in ("map", "filter", "zip") and e.args:
            # lazy element-wise wrappers keep the order of what they iterate:  map(lookup, ids)  with ids a set
            its = e.args[1:] if e.func.id in ("map", "filter") else e.args
            return any(self.is_set_expr(f, a) or self.is_unordered_list(f, a, depth + 1) for a in its)
        if isinstance(e, ast.Call) and norm(e.func) in ("chain", "itertools.chain", "chain.from_iterable", "itertools.chain.from_iterable") and e.args:
            return any(self.is_set_expr(f, a) or self.is_unordered_list(f, a, depth + 1) for a in e.args)
        if isinstance(e, ast.BoolOp):
            return any(self.is_unordered_list(f, v, depth + 1) for v in e.values)
        if isinstance(e, ast.IfExp):
            return self.is_unordered_list(f, e.body, depth + 1) or self.is_unordered_list(f, e.orelse, depth + 1)
        if isinstance(e, ast.Name):
            for a in assignments_to(f, e.id):
                v = getattr(a, "value", None)
                if isinstance(a, (ast.Assign, ast.AnnAssign)) and v is not None and \
                        (self.is_unordered_list(f, v, depth + 1)):
                    return True
        return False

    def unordered(self, f: FuncInfo, e: ast.AST) -> bool:
        return self.is_set_expr(f, e) or self.is_unordered_list(f, e)

    # ------------------------------------------------------------ consumers
    def sensitive_consumers(self, f: FuncInfo) -> Tuple[List[Consumer], int]:
        """Returns (sensitive consumers, number of consumers of unordered values examined)."""
        out: List[Consumer] = []
        examined = 0
        pm = parents(f)
        for n in own_nodes(f.node):
            # ---- for loops
            if isinstance(n, (ast.For, ast.AsyncFor)):
                if self.unordered(f, n.iter):
                    examined += 1
                    why = _loop_body_sensitive(n)
                    if why:
                        out.append(Consumer(f, n, norm(n.iter), "for-effects", why))
            # ---- comprehensions
            elif isinstance(n, (ast.ListComp, ast.GeneratorExp)):
                g0 = n.generators[0]
                if self.unordered(f, g0.iter):
                    examined += 1
                    use = _consumer_of(pm, n)
                    if isinstance(use, ast.Call) and isinstance(use.func, ast.Name) and use.func.id == "next":
                        examined -= 1       # reported once, at the next() call
                        continue
                    verdict = self._classify_use(f, n, use, pm)
                    if verdict:
                        out.append(Consumer(f, n, norm(g0.iter), verdict[0], verdict[1]))
            elif isinstance(n, ast.Call) and isinstance(n.func, ast.Name):
                fn = n.func.id
                if fn in ("min", "max") and n.args and self.is_set_expr(f, n.args[0]):
                    examined += 1
                    key = next((k.value for k in n.keywords if k.arg == "key"), None)
                    if key is not None and not sort_key_is_total(key, n.args[0]):
                        out.append(Consumer(f, n, norm(n.args[0]), "max-key",
                                            f"{fn}() with key '{norm(key)}' over a set: ties resolve in set order"))
                elif fn in ("list", "tuple", "next", "iter", "enumerate", "reversed") and n.args and self.is_set_expr(f, n.args[0]):
                    examined += 1
                    if fn == "next":
                        out.append(Consumer(f, n, norm(n.args[0]), "next", "picks 'the first' element of a set"))
                    else:
                        use = _consumer_of(pm, n)
                        verdict = self._classify_use(f, n, use, pm)
                        if verdict:
                            out.append(Consumer(f, n, norm(n.args[0]), verdict[0], verdict[1]))
                elif fn == "next" and n.args and self.unordered(f, n.args[0]):
                    examined += 1
                    out.append(Consumer(f, n, norm(n.args[0]), "next", "picks 'the first' element of an unordered sequence"))
                elif fn == "sorted" and n.args and self.unordered(f, n.args[0]):
                    examined += 1
                    key = next((k.value for k in n.keywords if k.arg == "key"), None)
                    if not sort_key_is_total(key, n.args[0]):
                        out.append(Consumer(f, n, norm(n.args[0]), "sorted-partial-key",
                                            f"sorted() key '{norm(key) if key is not None else '<none>'}' is not a total order "
                                            f"(ties keep set order); last key component must be the unique id"))
            elif isinstance(n, ast.Starred) and self.unordered(f, n.value):
                examined += 1
                out.append(Consumer(f, n, norm(n.value), "arg", "unpacks an unordered value positionally"))
        return out, examined

    def _classify_use(self, f: FuncInfo, n: ast.AST, use: Optional[ast.AST], pm) -> Optional[Tuple[str, str]]:
        """None when the use of unordered sequence *n* is order-insensitive."""
        if use is None:
            return None
        if isinstance(use, ast.Call):
            fn = use.func
            name = fn.id if isinstance(fn, ast.Name) else (fn.attr if isinstance(fn, ast.Attribute) else "")
            if name in INSENSITIVE_FUNCS:
                return None
            if name in ("min", "max"):
                key = next((k.value for k in use.keywords if k.arg == "key"), None)
                if key is None or sort_key_is_total(key, n):
                    return None
                return ("max-key", f"{name}() with key '{norm(key)}' over an unordered value: ties resolve in set order")
            if name == "sorted":
                key = next((k.value for k in use.keywords if k.arg == "key"), None)
                if sort_key_is_total(key, n):
                    return None
                return ("sorted-partial-key", f"sorted() key '{norm(key) if key is not None else '<none>'}' is not a total order")
            if name == "next":
                return ("next", "picks 'the first' element of an unordered sequence")
            if name in ("list", "tuple", "iter", "enumerate", "reversed"):
                return self._classify_use(f, use, _consumer_of(pm, use), pm)
            if name in ("update", "difference_update", "intersection_update", "issubset", "issuperset", "extend") and \
                    isinstance(fn, ast.Attribute) and self.is_set_expr(f, fn.value):
                return None
            if name == "gather":
                return None
            return ("arg", f"unordered sequence passed to {name}()")
        if isinstance(use, (ast.Assign, ast.AnnAssign)):
            tgt = use.targets[0] if isinstance(use, ast.Assign) else use.target
            if isinstance(tgt, ast.Name):
                # local variable: consumers of the variable are examined on their own
                # (is_unordered_list follows the assignment); here only direct escapes
                return self._escapes(f, tgt.id, use)
            return ("store", f"unordered list stored into '{norm(tgt)}': its order becomes observable later")
        if isinstance(use, ast.Return):
            return ("return", "unordered list returned to the caller")
        if isinstance(use, (ast.For, ast.AsyncFor)):
            why = _loop_body_sensitive(use)
            return ("for-effects", why) if why else None
        if isinstance(use, ast.Compare):
            return None
        if isinstance(use, (ast.BoolOp, ast.IfExp)):
            return self._classify_use(f, use, _consumer_of(pm, use), pm)
        if isinstance(use, (ast.If, ast.While, ast.UnaryOp)):
            return None
        if isinstance(use, ast.comprehension):
            return None     # iterated by another comprehension: that one is examined itself
        if isinstance(use, ast.Expr):
            return None
        return ("arg", f"unordered sequence used in {type(use).__name__}")

    def _escapes(self, f: FuncInfo, name: str, assign: ast.AST) -> Optional[Tuple[str, str]]:
        """Does local *name* (an unordered list) reach an attribute store / return / subscript store?"""
        for n in own_nodes(f.node):
            if isinstance(n, ast.Assign):
                if any(isinstance(x, ast.Name) and x.id == name for x in ast.walk(n.value)) and \
                        _value_is_name_passthrough(n.value, name):
                    for t in n.targets:
                        if isinstance(t, (ast.Attribute, ast.Subscript)) and not isinstance(t, ast.Name):
                            return ("store", f"unordered list '{name}' stored into '{norm(t)}': its order is replayed later")
            elif isinstance(n, ast.Return) and n.value is not None and _value_is_name_passthrough(n.value, name):
                return ("return", f"unordered list '{name}' returned to the caller")
            elif isinstance(n, ast.Call):
                fn = n.func
                cname = fn.id if isinstance(fn, ast.Name) else (fn.attr if isinstance(fn, ast.Attribute) else "")
                if cname in INSENSITIVE_FUNCS or cname in ("sorted", "min", "max", "list", "tuple", "iter", "enumerate", "reversed", "next",
                                                            "update", "difference_update", "intersection_update", "issubset", "issuperset", "gather"):
                    continue        # ordering / insensitive consumers are classified where they consume
                if any(isinstance(a, ast.Name) and a.id == name for a in n.args) or \
                        any(isinstance(k.value, ast.Name) and k.value.id == name for k in n.keywords):
                    if cname[:1].isupper():
                        return ("store", f"unordered sequence '{name}' handed to the constructor {cname}(): its order is kept in the object and replayed later")
        return None


def _value_is_name_passthrough(v: ast.AST, name: str) -> bool:
    """The value *is* the list (possibly via ``a or b`` / ternary), not a derived scalar."""
    if isinstance(v, ast.Name):
        return v.id == name
    if isinstance(v, ast.BoolOp):
        return any(_value_is_name_passthrough(x, name) for x in v.values)
    if isinstance(v, ast.IfExp):
        return _value_is_name_passthrough(v.body, name) or _value_is_name_passthrough(v.orelse, name)
    if isinstance(v, (ast.Tuple, ast.List)):
        return any(_value_is_name_passthrough(x, name) for x in v.elts)
    return False


def _is_set_annotation(a: ast.AST) -> bool:
    t = norm(a)
    return t.startswith(("Set[", "set[", "FrozenSet[", "frozenset[", "typing.Set[")) or t in ("set", "Set", "frozenset")


def _consumer_of(pm: Dict[int, ast.AST], n: ast.AST) -> Optional[ast.AST]:
    par = pm.get(id(n))
    # skip transparent wrappers
    while isinstance(par, (ast.keyword,)):
        par = pm.get(id(par))
    return par


def sort_key_is_total(key: Optional[ast.AST], iterable: ast.AST) -> bool:
    """True when ties are impossible: the key (or its last tuple component) is the
    element's unique ``id`` string, or elements are themselves id strings."""
    if key is None:
        # sorted() without a key over distinct elements (a set) is a total order whenever it is
        # defined at all (strings, tuples of strings); sorting incomparable objects raises instead
        return True
    if isinstance(key, ast.Lambda):
        body = key.body
        comps = body.elts if isinstance(body, ast.Tuple) else [body]
        last = comps[-1]
        if isinstance(last, ast.UnaryOp):
            last = last.operand
        if isinstance(last, ast.Attribute) and last.attr == "id" and isinstance(last.value, ast.Name) and \
                last.value.id == key.args.args[0].arg:
            return True
        return False
    if isinstance(key, ast.Name) and key.id in ("str", "repr"):
        return True
    return False


def _loop_body_sensitive(loop: ast.AST) -> Optional[str]:
    """None when every statement of the loop body is order-insensitive."""
    def ok_stmt(s: ast.stmt) -> bool:
        if isinstance(s, (ast.Pass, ast.Continue)):
            return True
        if isinstance(s, ast.Return):
            return s.value is None or isinstance(s.value, ast.Constant)
        if isinstance(s, ast.Break):
            return False
        if isinstance(s, ast.If):
            # "the active child of X": at most one element of a legal configuration has a given parent, so taking the first match
            # (assign + break) does not depend on the iteration order
            if "_active_state_nodes" in norm(getattr(loop, "iter", loop)) and isinstance(s.test, ast.Compare) and len(s.test.ops) == 1 and \
                    isinstance(s.test.ops[0], (ast.Eq, ast.Is)) and ".parent" in norm(s.test.left) + norm(s.test.comparators[0]) and not s.orelse and \
                    all(isinstance(x, ast.Break) or ok_stmt(x) for x in s.body):
                return True
            return not _has_effect_call(s.test) and all(ok_stmt(x) for x in s.body) and all(ok_stmt(x) for x in s.orelse)
        if isinstance(s, ast.AugAssign):
            return isinstance(s.op, (ast.BitOr, ast.Add, ast.BitAnd)) and isinstance(s.target, ast.Name)
        if isinstance(s, ast.Expr) and isinstance(s.value, ast.Call):
            fn = s.value.func
            if isinstance(fn, ast.Attribute) and fn.attr in ("add", "discard", "update", "set", "cancel") and \
                    not _has_effect_call_args(s.value):
                return True
            if isinstance(fn, ast.Attribute) and isinstance(fn.value, ast.Name) and fn.value.id == "logger":
                return True
            return False
        if isinstance(s, ast.Assign):
            # local rebinding used for a parent walk (current = node; while current: ...)
            return all(isinstance(t, ast.Name) for t in s.targets) and not _has_effect_call(s.value)
        if isinstance(s, ast.AnnAssign):
            return isinstance(s.target, ast.Name) and (s.value is None or not _has_effect_call(s.value))
        if isinstance(s, ast.While):
            return not _has_effect_call(s.test) and all(ok_stmt(x) for x in s.body)
        if isinstance(s, (ast.For,)):
            return all(ok_stmt(x) for x in s.body)
        return False
    bad = [s for s in loop.body if not ok_stmt(s)]
    if not bad:
        return None
    return f"loop body has order-sensitive effects (first: '{stmt_text(bad[0], 70)}')"


PURE_CALLS = {"isinstance", "len", "getattr", "hasattr", "str", "bool", "id", "any", "all", "callable"}


def _has_effect_call(e: ast.AST) -> bool:
    for n in ast.walk(e):
        if isinstance(n, ast.Call):
            fn = n.func
            nm = fn.id if isinstance(fn, ast.Name) else (fn.attr if isinstance(fn, ast.Attribute) else "")
            if nm in PURE_CALLS or nm.startswith(("_is_", "is_", "startswith", "endswith", "get", "split")):
                continue
            return True
    return False


def _has_effect_call_args(call: ast.Call) -> bool:
    return any(_has_effect_call(a) for a in call.args)
