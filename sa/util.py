"""Small AST helpers shared by the rule files."""
from __future__ import annotations

import ast
import copy
from typing import Dict, Iterable, Iterator, List, Optional, Sequence, Set, Tuple

from .cfg import CFG, cfg_of, node_exprs
from .program import FuncInfo, dotted, norm, own_nodes, const_str


def parent_map(root: ast.AST) -> Dict[int, ast.AST]:
    pm: Dict[int, ast.AST] = {}
    for n in ast.walk(root):
        for ch in ast.iter_child_nodes(n):
            pm[id(ch)] = n
    return pm


_PM_CACHE: Dict[int, Dict[int, ast.AST]] = {}


def parents(func: FuncInfo) -> Dict[int, ast.AST]:
    k = id(func.node)
    if k not in _PM_CACHE:
        _PM_CACHE[k] = parent_map(func.node)
    return _PM_CACHE[k]


def ancestors(func: FuncInfo, node: ast.AST) -> Iterator[ast.AST]:
    pm = parents(func)
    cur = pm.get(id(node))
    while cur is not None:
        yield cur
        cur = pm.get(id(cur))


def enclosing_stmt(func: FuncInfo, node: ast.AST) -> ast.stmt:
    if isinstance(node, ast.stmt):
        return node
    for a in ancestors(func, node):
        if isinstance(a, ast.stmt):
            return a
    raise ValueError("no enclosing statement")


def enclosing_loops(func: FuncInfo, node: ast.AST) -> List[ast.AST]:
    out = []
    for a in ancestors(func, node):
        if a is func.node:
            break
        if isinstance(a, (ast.For, ast.AsyncFor, ast.While)):
            out.append(a)
        if isinstance(a, (ast.ListComp, ast.SetComp, ast.DictComp, ast.GeneratorExp)):
            out.append(a)
    return out


def in_handler(func: FuncInfo, node: ast.AST) -> Optional[ast.ExceptHandler]:
    for a in ancestors(func, node):
        if isinstance(a, ast.ExceptHandler):
            return a
    return None


def in_finally(func: FuncInfo, node: ast.AST) -> Optional[ast.Try]:
    pm = parents(func)
    cur = node
    par = pm.get(id(cur))
    while par is not None:
        if isinstance(par, ast.Try) and any(cur is s for s in par.finalbody):
            return par
        cur, par = par, pm.get(id(par))
    return None


def enclosing_try_bodies(func: FuncInfo, node: ast.AST) -> List[ast.Try]:
    """Try statements whose *body* (not handlers/else/finally) contains node, innermost first."""
    out = []
    pm = parents(func)
    cur = node
    par = pm.get(id(cur))
    while par is not None:
        if isinstance(par, ast.Try) and any(cur is s for s in par.body):
            out.append(par)
        cur, par = par, pm.get(id(par))
    return out


def cfg_node_of(func: FuncInfo, inner: ast.AST) -> List[int]:
    """CFG node ids (all finally-copies) at which *inner* is evaluated."""
    g = cfg_of(func.node)
    direct = g.nodes_of(inner)
    if direct:
        return direct
    # find smallest enclosing construct that is a CFG node
    cur: Optional[ast.AST] = inner
    pm = parents(func)
    while cur is not None:
        ids = g.nodes_of(cur)
        if ids:
            # For compound statements the node stands for the header only; make
            # sure inner is part of the header expressions.
            ok = [i for i in ids if any(x is inner for x in node_exprs(g.nodes[i]))]
            if ok:
                return ok
        cur = pm.get(id(cur))
    return []


def calls_in(func: FuncInfo, name: str) -> List[ast.Call]:
    out = []
    for n in own_nodes(func.node):
        if isinstance(n, ast.Call):
            f = n.func
            if (isinstance(f, ast.Attribute) and f.attr == name) or (isinstance(f, ast.Name) and f.id == name):
                out.append(n)
    out.sort(key=lambda c: (c.lineno, c.col_offset))
    return out


def self_calls_in(func: FuncInfo, name: str) -> List[ast.Call]:
    return [c for c in calls_in(func, name)
            if isinstance(c.func, ast.Attribute) and dotted(c.func.value) == "self"]


def assignments_to(func: FuncInfo, name: str) -> List[ast.stmt]:
    out = []
    for n in own_nodes(func.node):
        if isinstance(n, ast.Assign):
            for t in n.targets:
                if any(isinstance(x, ast.Name) and x.id == name for x in ast.walk(t)):
                    out.append(n)
        elif isinstance(n, (ast.AnnAssign, ast.AugAssign)):
            if isinstance(n.target, ast.Name) and n.target.id == name:
                out.append(n)
        elif isinstance(n, (ast.For, ast.AsyncFor)):
            if any(isinstance(x, ast.Name) and x.id == name for x in ast.walk(n.target)):
                out.append(n)
    out.sort(key=lambda s: s.lineno)
    return out


def names_in(node: ast.AST) -> Set[str]:
    return {n.id for n in ast.walk(node) if isinstance(n, ast.Name)}


def derives_from(func: FuncInfo, expr: ast.AST, sources: Set[str], depth: int = 4) -> bool:
    """Does *expr* (transitively through single-function local assignments)
    mention one of the *sources* names?"""
    seen: Set[str] = set()
    work = [(expr, 0)]
    while work:
        e, d = work.pop()
        for nm in names_in(e):
            if nm in sources:
                return True
            if nm in seen or d >= depth:
                continue
            seen.add(nm)
            for a in assignments_to(func, nm):
                if isinstance(a, (ast.For, ast.AsyncFor)):
                    work.append((a.iter, d + 1))
                elif getattr(a, "value", None) is not None:
                    work.append((a.value, d + 1))
    return False


def provenance(func: FuncInfo, expr: ast.AST, depth: int = 4) -> Set[str]:
    """Parameter names the expression is data-derived from (through local
    assignments of this function), plus '<const>' if a literal takes part and
    '<new:Class>' for constructor calls."""
    params = set(func.params)
    out: Set[str] = set()
    seen: Set[str] = set()
    work = [(expr, 0)]
    while work:
        e, d = work.pop()
        for n in ast.walk(e):
            if isinstance(n, ast.Call) and isinstance(n.func, ast.Name) and n.func.id[:1].isupper():
                out.add(f"<new:{n.func.id}>")
            if isinstance(n, ast.Name):
                nm = n.id
                if nm in params:
                    out.add(nm)
                    continue
                if nm in seen or d >= depth:
                    continue
                seen.add(nm)
                for a in assignments_to(func, nm):
                    if isinstance(a, (ast.For, ast.AsyncFor)):
                        work.append((a.iter, d + 1))
                    elif getattr(a, "value", None) is not None:
                        work.append((a.value, d + 1))
    return out


def is_empty_list(e: ast.AST) -> bool:
    if isinstance(e, ast.List) and not e.elts:
        return True
    if isinstance(e, ast.Call) and isinstance(e.func, ast.Name) and e.func.id == "list" and not e.args:
        return True
    return False


def compare_parts(e: ast.AST) -> Optional[Tuple[ast.AST, ast.cmpop, ast.AST]]:
    if isinstance(e, ast.Compare) and len(e.ops) == 1:
        return e.left, e.ops[0], e.comparators[0]
    return None


def atom_is_type_test(atom: Tuple[ast.AST, bool], value: str) -> Optional[bool]:
    """If the atom says ``X.type == value`` (or the ``is_final``-style property
    spelling), return its truth polarity, else None."""
    e, pol = atom
    cp = compare_parts(e)
    if cp:
        l, op, r = cp
        for a, b in ((l, r), (r, l)):
            if isinstance(a, ast.Attribute) and a.attr == "type" and const_str(b) == value:
                if isinstance(op, ast.Eq):
                    return pol
                if isinstance(op, ast.NotEq):
                    return not pol
    if isinstance(e, ast.Attribute) and e.attr == f"is_{value}":
        return pol
    return None


def guards_at(func: FuncInfo, inner: ast.AST) -> List[Tuple[ast.AST, bool]]:
    """Guard atoms holding whenever *inner* is evaluated (intersection over finally copies)."""
    g = cfg_of(func.node)
    ids = cfg_node_of(func, inner)
    if not ids:
        return []
    sets = []
    live = g.live_nodes()
    for i in ids:
        if i not in live:
            continue
        sets.append(g.guards(i))
    if not sets:
        return []
    first = sets[0]
    out = []
    for a in first:
        ka = (norm(a[0]), a[1])
        if all(any((norm(b[0]), b[1]) == ka for b in s) for s in sets[1:]):
            out.append(a)
    # guards contributed by enclosing comprehension filters / ternaries / boolean short-circuit
    out.extend(expr_level_guards(func, inner))
    # a condition that was given a name (``owner_active = any(...)`` ... ``if running and owner_active:``) still is that condition:
    # a bare local that is assigned exactly once to a boolean-valued expression is expanded into the atoms of that expression
    from .cfg import split_atoms
    extra: List[Tuple[ast.AST, bool]] = []
    for a, pol in out:
        if any(isinstance(y, ast.Name) and isinstance(y.ctx, ast.Load) for y in ast.walk(a)):
            ex = expand_names(func, a)
            if norm(ex) != norm(a):
                extra.extend(split_atoms(ex, pol))
    out.extend(extra)
    # for x in [y for y in S if P(y)]: ...   - the body runs only for elements with P(x), exactly like  for x in S: if P(x): ...
    for lp in enclosing_loops(func, inner):
        if not isinstance(lp, (ast.For, ast.AsyncFor)) or not isinstance(lp.target, ast.Name):
            continue
        it = lp.iter
        if isinstance(it, ast.Name):
            it = expand_names(func, it)
        if isinstance(it, (ast.ListComp, ast.GeneratorExp)) and len(it.generators) == 1 and isinstance(it.generators[0].target, ast.Name) \
                and isinstance(it.elt, ast.Name) and it.elt.id == it.generators[0].target.id and any(inner is y for st in lp.body for y in ast.walk(st)):
            iv, ov = it.generators[0].target.id, lp.target.id
            for cnd in it.generators[0].ifs:
                c2 = copy.deepcopy(cnd)
                for y in ast.walk(c2):
                    if isinstance(y, ast.Name) and y.id == iv:
                        y.id = ov
                for a_, pol_ in split_atoms(c2, True):
                    a_._origin = cnd          # where the atom stands in the source (it is a renamed copy)
                    out.append((a_, pol_))
    return out


def expr_level_guards(func: FuncInfo, inner: ast.AST) -> List[Tuple[ast.AST, bool]]:
    from .cfg import split_atoms
    out: List[Tuple[ast.AST, bool]] = []
    pm = parents(func)
    cur = inner
    par = pm.get(id(cur))
    while par is not None and not isinstance(par, ast.stmt):
        if isinstance(par, ast.IfExp):
            if cur is par.body:
                out.extend(split_atoms(par.test, True))
            elif cur is par.orelse:
                out.extend(split_atoms(par.test, False))
        elif isinstance(par, ast.BoolOp):
            idx = [i for i, v in enumerate(par.values) if v is cur]
            if idx:
                for v in par.values[:idx[0]]:
                    out.extend(split_atoms(v, isinstance(par.op, ast.And)))
        elif isinstance(par, (ast.ListComp, ast.SetComp, ast.GeneratorExp, ast.DictComp)):
            is_elt = (cur is getattr(par, "elt", None)) or cur is getattr(par, "key", None) or cur is getattr(par, "value", None)
            if is_elt:
                for gen in par.generators:
                    for cond in gen.ifs:
                        out.extend(split_atoms(cond, True))
        cur, par = par, pm.get(id(par))
    return out


def stmt_text(node: ast.AST, limit: int = 100) -> str:
    t = norm(node).replace("\n", " ")
    return t if len(t) <= limit else t[: limit - 3] + "..."


# ---------------------------------------------------------------------------
# canonical atoms (comparison + truth) for small postcondition arguments
# ---------------------------------------------------------------------------
_NEG = {ast.IsNot: ast.Is, ast.NotEq: ast.Eq, ast.NotIn: ast.In}


def canon_atom(e: ast.AST, truth: bool = True) -> Tuple[str, str, str, bool]:
    """('is'|'=='|'in'|'<'|'<='|'>'|'>='|'truthy'|'call', left, right, truth): ``a is not b`` held true is ('is', a, b, False)."""
    while isinstance(e, ast.UnaryOp) and isinstance(e.op, ast.Not):
        e, truth = e.operand, not truth
    cp = compare_parts(e)
    if cp is not None:
        l, op, r = cp
        if type(op) in _NEG:
            op, truth = _NEG[type(op)](), not truth
        name = {ast.Is: "is", ast.Eq: "==", ast.In: "in", ast.Lt: "<", ast.LtE: "<=", ast.Gt: ">", ast.GtE: ">="}.get(type(op), type(op).__name__)
        ln, rn = norm(l), norm(r)
        if name in ("is", "==") and rn < ln:
            ln, rn = rn, ln
        return (name, ln, rn, truth)
    return ("truthy", norm(e), "", truth)


def loop_exit_atoms(test: ast.AST) -> Tuple[str, List[Tuple[str, str, str, bool]]]:
    """What holds when ``while test`` falls through: ('any', atoms) = at least one of them, ('all', atoms) = every one."""
    t = test
    if isinstance(t, ast.BoolOp) and isinstance(t.op, ast.And):
        return "any", [canon_atom(v, False) for v in t.values]
    if isinstance(t, ast.BoolOp) and isinstance(t.op, ast.Or):
        return "all", [canon_atom(v, False) for v in t.values]
    return "all", [canon_atom(t, False)]


# ---------------------------------------------------------------------------
# robustness helpers: named conditions and extracted helpers
# ---------------------------------------------------------------------------
def expand_names(func: FuncInfo, expr: ast.AST, depth: int = 2) -> ast.AST:
    """*expr* with every bare local that is assigned exactly once (to a boolean-valued expression) replaced by that expression:
    ``too_deep = depth > MAX; if too_deep or too_many`` is read as ``if depth > MAX or ...``.  (``__hN`` temporaries are the
    inliner's own: a call it lifted out of the very statement that reads it, so they are always read as that call.)"""
    import copy

    def _pure(v) -> bool:
        """an expression whose value is a function of its operands only (safe to read as a definition of the name)"""
        for y in ast.walk(v):
            if isinstance(y, ast.Call):
                fn = y.func
                nm = fn.id if isinstance(fn, ast.Name) else (fn.attr if isinstance(fn, ast.Attribute) else "")
                if nm not in ("len", "str", "bool", "isinstance", "callable", "any", "all", "startswith", "endswith", "get", "isawaitable", "iscoroutine", "tuple", "frozenset"):
                    return False
            if isinstance(y, (ast.Await, ast.Yield, ast.YieldFrom, ast.Lambda, ast.NamedExpr)):
                return False
        return True

    class T(ast.NodeTransformer):
        def visit_Name(self, n):
            if isinstance(n.ctx, ast.Load) and n.id not in func.params:
                all_defs = assignments_to(func, n.id)
                defs = [d for d in all_defs if isinstance(d, (ast.Assign, ast.AnnAssign)) and getattr(d, "value", None) is not None]
                if len(defs) == 1 and len(all_defs) == 1 and isinstance(defs[0].value, (ast.Compare, ast.BoolOp, ast.UnaryOp, ast.BinOp, ast.Call, ast.JoinedStr, ast.Subscript, ast.Attribute, ast.Name)) \
                        and (_pure(defs[0].value) or n.id.startswith("__h")) and not any(isinstance(y, ast.Name) and y.id == n.id for y in ast.walk(defs[0].value)):
                    v = copy.deepcopy(defs[0].value)
                    return expand_names(func, v, depth - 1) if depth > 0 else v
            return n
    return T().visit(copy.deepcopy(expr))


def with_helpers(program, func: FuncInfo, stmts: Optional[Sequence[ast.AST]] = None, depth: int = 2) -> List[Tuple[FuncInfo, ast.AST]]:
    """(function, node) for every node of *stmts* (default: the whole body of *func*, nested functions included) and of the private
    helpers it calls on ``self`` / ``cls`` / by bare name (same class or module), to *depth*: a construct that was moved into a
    helper by an "extract method" refactoring is still found."""
    out: List[Tuple[FuncInfo, ast.AST]] = []
    seen = {func.qualname}

    def add(f: FuncInfo, nodes: Iterable[ast.AST], d: int) -> None:
        calls = []
        for n in nodes:
            out.append((f, n))
            if isinstance(n, ast.Call):
                calls.append(n)
        if d <= 0:
            return
        for c_ in calls:
            name = None
            if isinstance(c_.func, ast.Attribute) and isinstance(c_.func.value, ast.Name) and c_.func.value.id in ("self", "cls"):
                name = c_.func.attr
            elif isinstance(c_.func, ast.Name):
                name = c_.func.id
            if not name or not name.startswith("_") or name.startswith("__"):
                continue
            tgt = None
            if f.cls is not None:
                tgt = f.cls.find_method(name) if hasattr(f.cls, "find_method") else None
            if tgt is None:
                tgt = f.nested.get(name) or (f.parent.nested.get(name) if f.parent is not None else None) or f.module.functions.get(name)
            if tgt is None or tgt.qualname in seen:
                continue
            seen.add(tgt.qualname)
            add(tgt, list(ast.walk(tgt.node)), d - 1)
    if stmts is None:
        nodes = [n for n in ast.walk(func.node)]
    else:
        nodes = [n for s in stmts for n in ast.walk(s)]
    add(func, nodes, depth)
    return out


def returned_name(func: FuncInfo, default: Optional[str] = None) -> Optional[str]:
    """The local that the function hands back (``return eligible``): the name of its result, whatever it is called.  The last
    ``return <name>`` wins; *default* if the function returns no plain name."""
    rets = [r for r in own_nodes(func.node) if isinstance(r, ast.Return) and isinstance(r.value, ast.Name)]
    if not rets:
        return default
    return sorted(rets, key=lambda r: r.lineno)[-1].value.id


def every_iteration(func: FuncInfo, loop: ast.AST, inner_nodes: Sequence[ast.AST]) -> bool:
    """Every pass through the body of *loop* executes one of *inner_nodes* (exception edges aside): no ``continue``, ``break``,
    ``return`` or branch lets an iteration end without it."""
    from .cfg import cfg_of
    g = cfg_of(func.node)
    heads = set(g.nodes_of(loop))
    targets = {i for x in inner_nodes for i in cfg_node_of(func, x)}
    if not loop.body or not targets:
        return False
    inside = {id(x) for x in ast.walk(loop)}
    starts = [d for h in heads for d, lab in g.succ[h] if lab == "loop"]
    if not starts:
        return False
    r = g.reachable([s_ for s_ in starts if s_ not in targets], blocked_nodes=targets, follow_exc=False)
    for i in r:
        if i in heads:
            return False
        if i == g.raise_exit:
            continue            # an explicit raise refuses the whole input: nothing is silently skipped
        n = g.nodes[i]
        if n.ast is None or id(n.ast) not in inside:
            return False
    return True
