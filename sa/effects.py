"""Attribute read / write effects of a function body."""
from __future__ import annotations

import ast
from typing import Iterator, List, NamedTuple, Optional

from .program import FuncInfo, dotted, own_nodes

MUTATORS = {
    "add", "discard", "remove", "clear", "update", "append", "appendleft", "extend",
    "extendleft", "pop", "popleft", "popitem", "put", "put_nowait", "setdefault",
    "difference_update", "intersection_update", "symmetric_difference_update",
    "insert", "sort", "reverse", "get_nowait", "rotate", "__setitem__", "__delitem__",
}
# non-mutating container methods (for read classification)
READERS = {"get", "copy", "keys", "values", "items", "empty", "qsize", "count", "index",
           "issubset", "issuperset", "union", "intersection", "difference", "isdisjoint"}


class Write(NamedTuple):
    base: str          # receiver text before the attribute: "self", "interpreter", "probe", "child"
    attr: str
    op: str            # assign | aug | del | subscript | delitem | call:<mutator>
    node: ast.AST      # the statement or call node
    func: FuncInfo

    @property
    def line(self) -> int:
        return getattr(self.node, "lineno", 0)


def _target_writes(t: ast.AST, op: str, stmt: ast.AST, func: FuncInfo) -> Iterator[Write]:
    if isinstance(t, (ast.Tuple, ast.List)):
        for e in t.elts:
            yield from _target_writes(e, op, stmt, func)
    elif isinstance(t, ast.Starred):
        yield from _target_writes(t.value, op, stmt, func)
    elif isinstance(t, ast.Attribute):
        b = dotted(t.value)
        if b is not None:
            yield Write(b, t.attr, op, stmt, func)
    elif isinstance(t, ast.Subscript):
        v = t.value
        if isinstance(v, ast.Attribute):
            b = dotted(v.value)
            if b is not None:
                yield Write(b, v.attr, "delitem" if op == "del" else "subscript", stmt, func)


def _container_aliases(func: FuncInfo):
    """Locals that name a container attribute (``nodes = self._active_state_nodes``, assigned exactly once): mutating the local
    mutates the attribute."""
    stores = {}
    for n in own_nodes(func.node):
        if isinstance(n, ast.Name) and isinstance(n.ctx, (ast.Store, ast.Del)):
            stores[n.id] = stores.get(n.id, 0) + 1
    out = {}
    for n in own_nodes(func.node):
        tg, val = None, None
        if isinstance(n, ast.Assign) and len(n.targets) == 1 and isinstance(n.targets[0], ast.Name):
            tg, val = n.targets[0].id, n.value
        elif isinstance(n, ast.AnnAssign) and isinstance(n.target, ast.Name) and n.value is not None:
            tg, val = n.target.id, n.value
        if tg is None or stores.get(tg, 0) != 1 or tg in func.params:
            continue
        if isinstance(val, ast.Attribute) and dotted(val.value) is not None:
            out[tg] = (dotted(val.value), val.attr)
    return out


def attr_writes(func: FuncInfo) -> List[Write]:
    out: List[Write] = []
    aliases = _container_aliases(func)
    for n in own_nodes(func.node):
        if aliases:
            # mutation through a local alias of the container
            if isinstance(n, ast.Call) and isinstance(n.func, ast.Attribute) and n.func.attr in MUTATORS and isinstance(n.func.value, ast.Name) \
                    and n.func.value.id in aliases:
                b, a = aliases[n.func.value.id]
                out.append(Write(b, a, "call:" + n.func.attr, n, func))
                continue
            if isinstance(n, (ast.Assign, ast.AugAssign, ast.Delete)):
                tgts = n.targets if isinstance(n, (ast.Assign, ast.Delete)) else [n.target]
                for t in tgts:
                    if isinstance(t, ast.Subscript) and isinstance(t.value, ast.Name) and t.value.id in aliases:
                        b, a = aliases[t.value.id]
                        out.append(Write(b, a, "delitem" if isinstance(n, ast.Delete) else "subscript", n, func))
        if isinstance(n, ast.Assign):
            for t in n.targets:
                out.extend(_target_writes(t, "assign", n, func))
        elif isinstance(n, ast.AnnAssign) and n.value is not None:
            out.extend(_target_writes(n.target, "assign", n, func))
        elif isinstance(n, ast.AugAssign):
            out.extend(_target_writes(n.target, "aug", n, func))
        elif isinstance(n, ast.Delete):
            for t in n.targets:
                out.extend(_target_writes(t, "del", n, func))
        elif isinstance(n, ast.Call) and isinstance(n.func, ast.Attribute) and n.func.attr in MUTATORS:
            recv = n.func.value
            if isinstance(recv, ast.Attribute):
                b = dotted(recv.value)
                if b is not None:
                    out.append(Write(b, recv.attr, "call:" + n.func.attr, n, func))
            elif isinstance(recv, ast.Subscript) and isinstance(recv.value, ast.Attribute):
                # self._emit_listeners[k].append(..)
                b = dotted(recv.value.value)
                if b is not None:
                    out.append(Write(b, recv.value.attr, "call:" + n.func.attr, n, func))
            elif isinstance(recv, ast.Call) and isinstance(recv.func, ast.Attribute) and \
                    recv.func.attr in ("setdefault", "get") and isinstance(recv.func.value, ast.Attribute):
                b = dotted(recv.func.value.value)
                if b is not None:
                    out.append(Write(b, recv.func.value.attr, "call:" + n.func.attr, n, func))
    out.sort(key=lambda w: (w.line, w.attr))
    return out


def attr_reads(func: FuncInfo, attr: Optional[str] = None) -> List[ast.Attribute]:
    out = []
    for n in own_nodes(func.node):
        if isinstance(n, ast.Attribute) and isinstance(n.ctx, ast.Load):
            if attr is None or n.attr == attr:
                out.append(n)
    return out


def uses_attr(func: FuncInfo, attr: str) -> List[ast.Attribute]:
    return [n for n in own_nodes(func.node) if isinstance(n, ast.Attribute) and n.attr == attr]
