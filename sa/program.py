"""Resolved program model of /repo/src/xstate_statemachine (stdlib ``ast`` only).

Nothing under /repo is imported or executed.  The model gives:

* modules, their intra-package imports, top-level functions / classes / constants;
* classes with bases, a linear MRO (the package uses single inheritance only;
  anything else is an ANALYSIS-ERROR) and methods;
* functions as first-class nodes, *including nested closures and nested
  classes* (``timer_thread``, ``_fire``, ``_runner``, ``_delayed``, ``_Probe``);
* per-view callee resolution: the same call site ``self._execute_actions(..)``
  resolves through the MRO of the concrete class the query is about.
"""
from __future__ import annotations

import ast
import hashlib
import os
from typing import Dict, Iterable, Iterator, List, Optional, Tuple

DEFAULT_SRC = "/repo/src/xstate_statemachine"
PKG = "xstate_statemachine"


class AnalysisError(Exception):
    """The analysis itself cannot run (vanished anchor, unparsable file...)."""


def src_root() -> str:
    return os.environ.get("XSM_VERIF_SRC", DEFAULT_SRC)


class FuncInfo:
    __slots__ = ("name", "qualname", "module", "cls", "node", "parent",
                 "nested", "nested_classes", "is_async", "decorators")

    def __init__(self, name, qualname, module, cls, node, parent):
        self.name = name
        self.qualname = qualname          # e.g. "sync_interpreter:SyncInterpreter._after_timer.timer_thread"
        self.module = module
        self.cls: Optional[ClassInfo] = cls   # class whose *method* this is (None for closures / functions)
        self.node = node
        self.parent: Optional[FuncInfo] = parent   # enclosing function for closures
        self.nested: Dict[str, FuncInfo] = {}
        self.nested_classes: Dict[str, ClassInfo] = {}
        self.is_async = isinstance(node, ast.AsyncFunctionDef)
        self.decorators = [ast.unparse(d) for d in node.decorator_list]

    # the class that ``self`` refers to inside this function (closures inherit)
    @property
    def self_class(self) -> Optional["ClassInfo"]:
        f: Optional[FuncInfo] = self
        while f is not None:
            if f.cls is not None:
                return f.cls
            f = f.parent
        return None

    @property
    def outermost(self) -> "FuncInfo":
        f = self
        while f.parent is not None:
            f = f.parent
        return f

    @property
    def params(self) -> List[str]:
        a = self.node.args
        return [x.arg for x in a.posonlyargs + a.args + a.kwonlyargs] + \
            ([a.vararg.arg] if a.vararg else []) + ([a.kwarg.arg] if a.kwarg else [])

    @property
    def is_static(self) -> bool:
        return "staticmethod" in self.decorators

    @property
    def is_classmethod(self) -> bool:
        return "classmethod" in self.decorators

    @property
    def short(self) -> str:
        return self.qualname.split(":", 1)[1]

    @property
    def file(self) -> str:
        return self.module.relpath

    def __repr__(self):
        return f"<Func {self.qualname}>"


class ClassInfo:
    __slots__ = ("name", "qualname", "module", "node", "base_names", "methods",
                 "enclosing_func", "program", "class_attrs")

    def __init__(self, name, qualname, module, node, enclosing_func, program):
        self.name = name
        self.qualname = qualname
        self.module = module
        self.node = node
        self.enclosing_func = enclosing_func
        self.program = program
        self.base_names: List[str] = []
        for b in node.bases:
            # strip Generic[...] subscripts: BaseInterpreter[TContext, TEvent]
            if isinstance(b, ast.Subscript):
                b = b.value
            if isinstance(b, ast.Name):
                self.base_names.append(b.id)
            elif isinstance(b, ast.Attribute):
                self.base_names.append(b.attr)
        self.methods: Dict[str, FuncInfo] = {}
        self.class_attrs: Dict[str, ast.AST] = {}

    def mro(self) -> List["ClassInfo"]:
        out = [self]
        seen = {self.qualname}
        cur = self
        while True:
            nxt = None
            for bn in cur.base_names:
                c = self.program.find_class(bn, cur.module)
                if c is not None:
                    if nxt is not None:
                        raise AnalysisError(f"multiple in-package bases for {cur.qualname}: engine assumes single inheritance")
                    nxt = c
            if nxt is None or nxt.qualname in seen:
                return out
            out.append(nxt)
            seen.add(nxt.qualname)
            cur = nxt

    def find_method(self, name: str) -> Optional[FuncInfo]:
        for c in self.mro():
            if name in c.methods:
                return c.methods[name]
        return None

    def is_subclass_of(self, other_name: str) -> bool:
        return any(c.name == other_name for c in self.mro())

    def __repr__(self):
        return f"<Class {self.qualname}>"


class Module:
    def __init__(self, name: str, path: str, relpath: str, source: str):
        self.name = name              # "base_interpreter", "cli.ir", "cli.strategies._shared"
        self.path = path
        self.relpath = relpath        # "src/xstate_statemachine/base_interpreter.py"
        self.source = source
        self.sha256 = hashlib.sha256(source.encode()).hexdigest()
        try:
            self.tree = ast.parse(source, filename=path)
        except SyntaxError as e:  # pragma: no cover
            raise AnalysisError(f"cannot parse {path}: {e}")
        self.functions: Dict[str, FuncInfo] = {}
        self.classes: Dict[str, ClassInfo] = {}
        self.constants: Dict[str, ast.AST] = {}
        # local name -> (module name or None if external, symbol or None for module import)
        self.imports: Dict[str, Tuple[Optional[str], Optional[str]]] = {}

    @property
    def package_parts(self) -> List[str]:
        parts = self.name.split(".")
        if self.path.endswith("__init__.py"):
            return parts if self.name else []
        return parts[:-1]


class Program:
    def __init__(self, root: Optional[str] = None):
        self.root = root or src_root()
        if not os.path.isdir(self.root):
            raise AnalysisError(f"source root {self.root} missing")
        self.modules: Dict[str, Module] = {}
        self.all_funcs: List[FuncInfo] = []
        self.all_classes: List[ClassInfo] = []
        self._load()

    # ------------------------------------------------------------------ load
    def _load(self) -> None:
        repo_root = os.path.dirname(os.path.dirname(self.root))
        for dirpath, dirnames, filenames in os.walk(self.root):
            dirnames[:] = sorted(d for d in dirnames if d != "__pycache__")
            for fn in sorted(filenames):
                if not fn.endswith(".py"):
                    continue
                path = os.path.join(dirpath, fn)
                rel = os.path.relpath(path, self.root)
                modname = rel[:-3].replace(os.sep, ".")
                if modname.endswith("__init__"):
                    modname = modname[: -len("__init__")].rstrip(".")
                with open(path, encoding="utf-8") as fh:
                    src = fh.read()
                m = Module(modname, path, os.path.relpath(path, repo_root), src)
                self.modules[modname] = m
        if len(self.modules) < 30:
            raise AnalysisError(f"only {len(self.modules)} modules under {self.root}; expected the whole package")
        # "extract method" refactorings: private helpers the reference tree does not know are inlined into their callers
        from .inline import inline_new_helpers
        try:
            self.inlined = inline_new_helpers({n: m.tree for n, m in self.modules.items()})
        except RecursionError:
            self.inlined = {"<inliner>": "gave up (recursion)"}
        for m in self.modules.values():
            self._index_module(m)

    def _index_module(self, m: Module) -> None:
        for node in m.tree.body:
            self._index_stmt(m, node, None, None, "")
        # imports anywhere in the module (function-level imports included)
        for node in ast.walk(m.tree):
            if isinstance(node, ast.ImportFrom):
                target = self._resolve_from(m, node)
                for alias in node.names:
                    m.imports.setdefault(alias.asname or alias.name, (target, alias.name))
            elif isinstance(node, ast.Import):
                for alias in node.names:
                    nm = alias.asname or alias.name.split(".")[0]
                    m.imports.setdefault(nm, (None, None))

    def _resolve_from(self, m: Module, node: ast.ImportFrom) -> Optional[str]:
        if node.level == 0:
            mod = node.module or ""
            if mod == PKG:
                return ""
            if mod.startswith(PKG + "."):
                return mod[len(PKG) + 1:]
            return None
        base = list(m.package_parts)
        up = node.level - 1
        if up:
            base = base[:-up] if up <= len(base) else []
        if node.module:
            base += node.module.split(".")
        return ".".join(base)

    def _index_stmt(self, m: Module, node: ast.AST, cls: Optional[ClassInfo],
                    parent: Optional[FuncInfo], prefix: str) -> None:
        if isinstance(node, (ast.FunctionDef, ast.AsyncFunctionDef)):
            qn = f"{m.name}:{prefix}{node.name}"
            f = FuncInfo(node.name, qn, m, cls, node, parent)
            self.all_funcs.append(f)
            if cls is not None:
                # property setter overloads share a name; keep both, suffix the setter
                if node.name in cls.methods:
                    decos = f.decorators
                    if any(d.endswith(".setter") for d in decos):
                        f.qualname = qn + "#setter"
                        cls.methods[node.name + "#setter"] = f
                    elif "overload" in cls.methods[node.name].decorators:
                        cls.methods[node.name] = f
                    elif "overload" in decos:
                        pass
                    else:
                        cls.methods[node.name] = f
                else:
                    cls.methods[node.name] = f
            elif parent is not None:
                parent.nested[node.name] = f
            else:
                m.functions[node.name] = f
            for sub in self._iter_defs(node.body):
                self._index_stmt(m, sub, None, f, f"{prefix}{node.name}.")
        elif isinstance(node, ast.ClassDef):
            qn = f"{m.name}:{prefix}{node.name}"
            c = ClassInfo(node.name, qn, m, node, parent, self)
            self.all_classes.append(c)
            if parent is not None:
                parent.nested_classes[node.name] = c
            elif cls is None:
                m.classes[node.name] = c
            for sub in node.body:
                if isinstance(sub, (ast.FunctionDef, ast.AsyncFunctionDef, ast.ClassDef)):
                    self._index_stmt(m, sub, c, parent, f"{prefix}{node.name}.")
                elif isinstance(sub, ast.Assign) and len(sub.targets) == 1 and isinstance(sub.targets[0], ast.Name):
                    c.class_attrs[sub.targets[0].id] = sub.value
                elif isinstance(sub, ast.AnnAssign) and isinstance(sub.target, ast.Name) and sub.value is not None:
                    c.class_attrs[sub.target.id] = sub.value
        elif cls is None and parent is None:
            if isinstance(node, ast.Assign) and len(node.targets) == 1 and isinstance(node.targets[0], ast.Name):
                m.constants[node.targets[0].id] = node.value
            elif isinstance(node, ast.AnnAssign) and isinstance(node.target, ast.Name) and node.value is not None:
                m.constants[node.target.id] = node.value
            elif isinstance(node, (ast.If, ast.Try)):
                for sub in ast.iter_child_nodes(node):
                    if isinstance(sub, ast.stmt):
                        self._index_stmt(m, sub, cls, parent, prefix)

    @staticmethod
    def _iter_defs(body: Iterable[ast.stmt]) -> Iterator[ast.stmt]:
        """Function / class definitions nested anywhere in *body* but not inside
        another def (those are indexed recursively)."""
        stack = list(body)
        while stack:
            n = stack.pop(0)
            if isinstance(n, (ast.FunctionDef, ast.AsyncFunctionDef, ast.ClassDef)):
                yield n
                continue
            for ch in ast.iter_child_nodes(n):
                if isinstance(ch, ast.stmt) or isinstance(ch, ast.ExceptHandler) or isinstance(ch, ast.match_case):
                    stack.append(ch)

    # --------------------------------------------------------------- lookups
    def module(self, name: str) -> Module:
        if name not in self.modules:
            raise AnalysisError(f"module {name} not found in package")
        return self.modules[name]

    def find_class(self, name: str, from_module: Optional[Module] = None) -> Optional[ClassInfo]:
        if from_module is not None:
            if name in from_module.classes:
                return from_module.classes[name]
            imp = from_module.imports.get(name)
            if imp and imp[0] is not None and imp[0] in self.modules:
                c = self.modules[imp[0]].classes.get(imp[1] or name)
                if c is not None:
                    return c
        hits = [c for c in self.all_classes if c.name == name]
        if len(hits) == 1:
            return hits[0]
        return None

    def cls(self, name: str) -> ClassInfo:
        c = self.find_class(name)
        if c is None:
            raise AnalysisError(f"role class {name} not found (or ambiguous)")
        return c

    def func(self, qualname: str) -> FuncInfo:
        """Look up by ``module:Qual.name``; ANALYSIS-ERROR when the role vanished."""
        for f in self.all_funcs:
            if f.qualname == qualname and "overload" not in f.decorators:
                return f
        raise AnalysisError(f"role function {qualname} not found")

    def find_func(self, qualname: str) -> Optional[FuncInfo]:
        for f in self.all_funcs:
            if f.qualname == qualname and "overload" not in f.decorators:
                return f
        return None

    def method(self, view: str, name: str) -> FuncInfo:
        f = self.cls(view).find_method(name)
        if f is None:
            raise AnalysisError(f"role method {view}.{name} not found in MRO")
        return f

    def funcs_in(self, *modnames: str) -> List[FuncInfo]:
        return [f for f in self.all_funcs if f.module.name in modnames]

    def digest(self, modnames: Optional[Iterable[str]] = None) -> Dict[str, str]:
        names = sorted(modnames) if modnames is not None else sorted(self.modules)
        return {self.modules[n].relpath: self.modules[n].sha256 for n in names}


# ---------------------------------------------------------------------------
# helpers over function bodies
# ---------------------------------------------------------------------------
def own_nodes(func_node: ast.AST) -> Iterator[ast.AST]:
    """Every AST node that belongs to this function's own body: does not descend
    into nested function / class definitions or lambdas' *definitions*
    (lambda bodies are included: they run in the caller's dynamic extent only
    when invoked, but for write-/call-set purposes they are attributed here)."""
    stack = list(ast.iter_child_nodes(func_node))
    while stack:
        n = stack.pop()
        if isinstance(n, (ast.FunctionDef, ast.AsyncFunctionDef, ast.ClassDef)):
            continue
        yield n
        stack.extend(ast.iter_child_nodes(n))


def own_stmts(func_node: ast.AST) -> Iterator[ast.stmt]:
    for n in own_nodes(func_node):
        if isinstance(n, ast.stmt):
            yield n


def dotted(node: ast.AST) -> Optional[str]:
    """``a.b.c`` for Name/Attribute chains, else None."""
    parts = []
    while isinstance(node, ast.Attribute):
        parts.append(node.attr)
        node = node.value
    if isinstance(node, ast.Name):
        parts.append(node.id)
        return ".".join(reversed(parts))
    return None


def norm(node: ast.AST) -> str:
    """Normalised source text of a node (no positions, no comments)."""
    try:
        return ast.unparse(node)
    except Exception:  # pragma: no cover
        return ast.dump(node)


def const_str(node: ast.AST) -> Optional[str]:
    if isinstance(node, ast.Constant) and isinstance(node.value, str):
        return node.value
    return None
