"""F3: exception containment of a call site, followed through its callers.

For a site S in function F: the innermost ``try`` whose *body* contains S and
that has a total handler (``except Exception`` / ``BaseException`` / bare)
which does not unconditionally re-raise contains it.  Otherwise every caller
of F (restricted to a given function universe, per view) is examined the same
way, recursively, up to a depth bound.  A chain that reaches a function with
no callers in the universe *escapes* to that root.
"""
from __future__ import annotations

import ast
from typing import Dict, Iterable, List, NamedTuple, Optional, Set, Tuple

from .calls import Resolver
from .cfg import handler_is_total, handler_type_names
from .program import FuncInfo
from .util import enclosing_try_bodies


class Outcome(NamedTuple):
    kind: str                      # contained | escapes | depth
    func: FuncInfo                 # handler's function, or the root reached
    handler: Optional[ast.ExceptHandler]
    chain: Tuple[str, ...]         # function short names from the site outward


def handler_reraises(h: ast.ExceptHandler) -> bool:
    """The handler always ends by raising (bare ``raise`` / ``raise X`` as its last statement)."""
    if not h.body:
        return False
    last = h.body[-1]
    return isinstance(last, ast.Raise)


def local_container(func: FuncInfo, node: ast.AST, catches: Optional[Set[str]] = None) -> Optional[ast.ExceptHandler]:
    """Innermost handler in *func* that contains an ordinary exception raised at *node*."""
    for t in enclosing_try_bodies(func, node):
        for h in t.handlers:
            names = {n.split(".")[-1] for n in handler_type_names(h)}
            total = handler_is_total(h) or (catches is not None and bool(names & catches))
            if total:
                if handler_reraises(h):
                    break          # this try does not contain; look further out
                return h
    return None


def containment(res: Resolver, view: Optional[str], func: FuncInfo, node: ast.AST,
                universe: List[FuncInfo], depth: int = 8,
                stop_at: Optional[Set[str]] = None,
                catches: Optional[Set[str]] = None) -> List[Outcome]:
    """All containment outcomes of an exception raised at *node*.

    ``stop_at``: qualnames treated as roots even if they have callers."""
    out: List[Outcome] = []
    seen: Set[Tuple[str, int]] = set()
    ukeys = {f.qualname for f in universe}

    def rec(f: FuncInfo, n: ast.AST, chain: Tuple[str, ...], d: int) -> None:
        key = (f.qualname, id(n))
        if key in seen:
            return
        seen.add(key)
        h = local_container(f, n, catches)
        chain2 = chain + (f.short,)
        if h is not None:
            out.append(Outcome("contained", f, h, chain2))
            return
        if stop_at and f.qualname in stop_at:
            out.append(Outcome("escapes", f, None, chain2))
            return
        if d >= depth:
            out.append(Outcome("depth", f, None, chain2))
            return
        callers = [s for s in res.callers_of(f, view, universe) if s.func.qualname in ukeys]
        # a closure is "called" by whoever starts it; treat its definition site as the root
        if not callers:
            out.append(Outcome("escapes", f, None, chain2))
            return
        for s in callers:
            rec(s.func, s.call, chain2, d + 1)
    rec(func, node, (), 0)
    return out
