"""Statement-level control-flow graph for one function (hand-built, stdlib only).

Nodes are simple statements and branch headers; edges carry labels
('T' / 'F' for tests, 'loop' / 'done' for ``for`` headers, 'exc' for
exceptional flow).  ``finally`` bodies are duplicated per continuation kind
(normal / return / raise / break / continue) the way a compiler lowers them, so
path queries are precise.  Nested function definitions are single nodes (their
bodies are separate functions).

Queries are phrased as reachability with blocked nodes / edges, which decides
dominance-style questions for *sets* of nodes directly:

* ``always_before(A, b)``      every entry→b path passes a node of A
* ``always_after(a, C, exits)`` every a→exit path passes a node of C
* ``guards(n)``                branch atoms (expr, polarity) that hold on every path to n
"""
from __future__ import annotations

import ast
from typing import Callable, Dict, Iterable, List, Optional, Set, Tuple

Edge = Tuple[int, Optional[str]]          # dangling edge: (source node, label)

TOTAL_HANDLER_TYPES = {"Exception", "BaseException"}
# builtins that cannot raise on the argument shapes the repo uses them with
_NORAISE_BUILTINS = {"getattr", "isinstance", "callable", "hasattr", "id", "bool", "set", "list", "dict", "len", "type"}


class Node:
    __slots__ = ("id", "kind", "ast", "label")

    def __init__(self, nid: int, kind: str, node: Optional[ast.AST], label: str = ""):
        self.id = nid
        self.kind = kind      # entry exit raise stmt test iter handler with join
        self.ast = node
        self.label = label

    @property
    def line(self) -> int:
        return getattr(self.ast, "lineno", 0) if self.ast is not None else 0

    def __repr__(self):
        t = ""
        if self.ast is not None:
            try:
                t = ast.unparse(self.ast).split("\n")[0][:60]
            except Exception:
                t = type(self.ast).__name__
        return f"<{self.id}:{self.kind}:{t}>"


def may_raise(node: ast.AST) -> bool:
    if isinstance(node, ast.Raise):
        return True
    for n in ast.walk(node):
        if isinstance(n, (ast.FunctionDef, ast.AsyncFunctionDef, ast.Lambda)) and n is not node:
            continue
        if isinstance(n, ast.Call) and isinstance(n.func, ast.Name) and n.func.id in _NORAISE_BUILTINS:
            if n.func.id != "getattr" or len(n.args) == 3:
                continue
        if isinstance(n, (ast.Call, ast.Await, ast.Yield, ast.YieldFrom)):
            return True
        if isinstance(n, ast.Subscript) and isinstance(n.ctx, (ast.Load, ast.Del)):
            return True
    return False


def handler_type_names(h: ast.ExceptHandler) -> List[str]:
    if h.type is None:
        return ["BaseException"]
    elts = h.type.elts if isinstance(h.type, ast.Tuple) else [h.type]
    out = []
    for e in elts:
        out.append(ast.unparse(e))
    return out


def handler_is_total(h: ast.ExceptHandler) -> bool:
    return any(t.split(".")[-1] in TOTAL_HANDLER_TYPES for t in handler_type_names(h))


class CFG:
    def __init__(self, func_node: ast.AST):
        self.func_node = func_node
        self.nodes: List[Node] = []
        self.succ: Dict[int, List[Tuple[int, Optional[str]]]] = {}
        self.pred: Dict[int, List[Tuple[int, Optional[str]]]] = {}
        self.by_ast: Dict[int, List[int]] = {}
        self.entry = self._new("entry", None)
        self.exit = self._new("exit", None)          # normal return
        self.raise_exit = self._new("raise", None)   # exception escapes the function
        outs = _Builder(self).seq(func_node.body, [(self.entry, None)], _Ctx(self))
        for e in outs:
            self._connect(e, self.exit)

    # ------------------------------------------------------------ building
    def _new(self, kind: str, node: Optional[ast.AST], label: str = "") -> int:
        nid = len(self.nodes)
        self.nodes.append(Node(nid, kind, node, label))
        self.succ[nid] = []
        self.pred[nid] = []
        if node is not None:
            self.by_ast.setdefault(id(node), []).append(nid)
        return nid

    def _connect(self, edge: Edge, dst: int) -> None:
        src, label = edge
        if (dst, label) not in self.succ[src]:
            self.succ[src].append((dst, label))
            self.pred[dst].append((src, label))

    # -------------------------------------------------------------- queries
    def nodes_of(self, astnode: ast.AST) -> List[int]:
        return list(self.by_ast.get(id(astnode), []))

    def nodes_where(self, pred: Callable[[Node], bool]) -> List[int]:
        return [n.id for n in self.nodes if pred(n)]

    def stmt_nodes_containing(self, inner: ast.AST) -> List[int]:
        """CFG nodes whose own expression/statement contains *inner*."""
        out = []
        for n in self.nodes:
            if n.ast is None:
                continue
            for sub in _own_walk(n):
                if sub is inner:
                    out.append(n.id)
                    break
        return out

    def reachable(self, starts: Iterable[int], blocked_nodes: Iterable[int] = (),
                  blocked_edges: Iterable[Tuple[int, int, Optional[str]]] = (),
                  follow_exc: bool = True) -> Set[int]:
        bn = set(blocked_nodes)
        be = set(blocked_edges)
        seen: Set[int] = set()
        work = [s for s in starts if s not in bn]
        while work:
            n = work.pop()
            if n in seen:
                continue
            seen.add(n)
            for d, lab in self.succ[n]:
                if d in bn or (n, d, lab) in be:
                    continue
                if not follow_exc and lab is not None and lab.startswith("exc"):
                    continue
                if d not in seen:
                    work.append(d)
        return seen

    def reachable_from_succ(self, start: int, **kw) -> Set[int]:
        """Nodes reachable from the successors of *start* (start itself only if on a cycle)."""
        bn = set(kw.pop("blocked_nodes", ()))
        starts = [d for d, lab in self.succ[start] if d not in bn and
                  (kw.get("follow_exc", True) or not (lab or "").startswith("exc"))]
        return self.reachable(starts, blocked_nodes=bn, **kw)

    def always_before(self, A: Iterable[int], b: int, follow_exc: bool = True) -> bool:
        """Every path entry→b passes through a node of A (A dominates b)."""
        A = set(A)
        if b in A:
            return True
        return b not in self.reachable([self.entry], blocked_nodes=A, follow_exc=follow_exc)

    def always_after(self, a: int, C: Iterable[int], exits: Optional[Iterable[int]] = None,
                     follow_exc: bool = True) -> bool:
        """Every path from a (exclusive) to one of *exits* passes through a node of C."""
        C = set(C)
        ex = set(exits) if exits is not None else {self.exit, self.raise_exit}
        r = self.reachable_from_succ(a, blocked_nodes=C, follow_exc=follow_exc)
        return not (r & ex)

    def can_reach(self, a: int, b: int, blocked: Iterable[int] = (), follow_exc: bool = True) -> bool:
        return b in self.reachable_from_succ(a, blocked_nodes=blocked, follow_exc=follow_exc)

    def live_nodes(self) -> Set[int]:
        return self.reachable([self.entry])

    # guards ---------------------------------------------------------------
    def branch_edges(self) -> List[Tuple[int, int, str, ast.AST]]:
        out = []
        for n in self.nodes:
            if n.kind == "test":
                for d, lab in self.succ[n.id]:
                    if lab in ("T", "F"):
                        out.append((n.id, d, lab, n.ast))
        return out

    def guards(self, target: int) -> List[Tuple[ast.AST, bool]]:
        """Atoms (expr, polarity) that hold on every path entry→target."""
        atoms: List[Tuple[ast.AST, bool]] = []
        for src, dst, lab, test in self.branch_edges():
            # does every path to target use this edge?
            if target not in self.reachable([self.entry], blocked_edges=[(src, dst, lab)]):
                atoms.extend(split_atoms(test, lab == "T"))
        return atoms


def _own_walk(n: Node):
    """AST nodes evaluated *at* this CFG node (header expressions for compound
    statements, the whole statement for simple ones)."""
    a = n.ast
    if n.kind == "test":
        roots = [a]
    elif n.kind == "iter":
        roots = [a.iter, a.target] if isinstance(a, (ast.For, ast.AsyncFor)) else [a]
    elif n.kind == "with":
        roots = [i for item in a.items for i in ([item.context_expr] + ([item.optional_vars] if item.optional_vars else []))]
    elif n.kind == "handler":
        roots = [a.type] if a.type is not None else []
    elif n.kind == "stmt":
        if isinstance(a, (ast.FunctionDef, ast.AsyncFunctionDef, ast.ClassDef)):
            roots = list(a.decorator_list)
        else:
            roots = [a]
    else:
        roots = []
    for r in roots:
        stack = [r]
        while stack:
            x = stack.pop()
            yield x
            for ch in ast.iter_child_nodes(x):
                if isinstance(ch, (ast.FunctionDef, ast.AsyncFunctionDef)):
                    continue
                stack.append(ch)


def node_exprs(n: Node):
    return _own_walk(n)


def split_atoms(test: ast.AST, polarity: bool) -> List[Tuple[ast.AST, bool]]:
    """Decompose a branch condition into atoms that definitely hold."""
    if isinstance(test, ast.UnaryOp) and isinstance(test.op, ast.Not):
        return split_atoms(test.operand, not polarity)
    if isinstance(test, ast.BoolOp):
        if isinstance(test.op, ast.And) and polarity:
            out = []
            for v in test.values:
                out.extend(split_atoms(v, True))
            return out
        if isinstance(test.op, ast.Or) and not polarity:
            out = []
            for v in test.values:
                out.extend(split_atoms(v, False))
            return out
        return [(test, polarity)]
    if isinstance(test, ast.IfExp):
        # a predicate written with early returns and inlined as an expression:  (False if a else b)  is  not a and b ;
        # (True if a else b)  is  a or b
        for branch, other, when in ((test.body, test.orelse, True), (test.orelse, test.body, False)):
            if isinstance(branch, ast.Constant) and isinstance(branch.value, bool):
                cond = test.test if when else ast.UnaryOp(op=ast.Not(), operand=test.test)
                if branch.value is False:
                    # the expression is true  <=>  not cond and other
                    eq = ast.BoolOp(op=ast.And(), values=[ast.UnaryOp(op=ast.Not(), operand=cond), other])
                else:
                    eq = ast.BoolOp(op=ast.Or(), values=[cond, other])
                ast.copy_location(eq, test)
                ast.fix_missing_locations(eq)
                return split_atoms(eq, polarity)
    return [(test, polarity)]


# ---------------------------------------------------------------------------
class _Ctx:
    """Where non-local exits go.  The root context sends them to the function exits."""

    def __init__(self, cfg: CFG):
        self.cfg = cfg

    def ret(self, e: Edge) -> None:
        self.cfg._connect(e, self.cfg.exit)

    def exc(self, e: Edge) -> None:
        self.cfg._connect((e[0], "exc"), self.cfg.raise_exit)

    def brk(self, e: Edge) -> None:  # pragma: no cover
        raise SyntaxError("break outside loop")

    def cont(self, e: Edge) -> None:  # pragma: no cover
        raise SyntaxError("continue outside loop")


class _LoopCtx(_Ctx):
    def __init__(self, cfg, parent: _Ctx, head: int):
        super().__init__(cfg)
        self.parent = parent
        self.head = head
        self.breaks: List[Edge] = []

    def ret(self, e):
        self.parent.ret(e)

    def exc(self, e):
        self.parent.exc(e)

    def brk(self, e):
        self.breaks.append(e)

    def cont(self, e):
        self.cfg._connect(e, self.head)


class _TryBodyCtx(_Ctx):
    """Inside a ``try`` body: exceptions go to the handlers (and, unless one of
    them is total, also outward)."""

    def __init__(self, cfg, after: _Ctx, handler_entries: List[Tuple[int, ast.ExceptHandler]]):
        super().__init__(cfg)
        self.after = after
        self.handlers = handler_entries

    def ret(self, e):
        self.after.ret(e)

    def brk(self, e):
        self.after.brk(e)

    def cont(self, e):
        self.after.cont(e)

    def exc(self, e):
        total = False
        for hid, h in self.handlers:
            self.cfg._connect((e[0], "exc"), hid)
            if handler_is_total(h):
                total = True
                break
        if not total:
            self.after.exc(e)


class _FinallyCtx(_Ctx):
    """Non-local exits from a try/finally pass through a fresh copy of the
    finally body, then continue to the outer context."""

    def __init__(self, cfg, parent: _Ctx, builder: "_Builder", finalbody: List[ast.stmt], trynode: ast.Try):
        super().__init__(cfg)
        self.parent = parent
        self.builder = builder
        self.finalbody = finalbody
        self.trynode = trynode
        self._copies: Dict[str, int] = {}

    def _route(self, kind: str, e: Edge) -> None:
        if kind not in self._copies:
            j = self.cfg._new("join", None, f"finally[{kind}]@{self.trynode.lineno}")
            self._copies[kind] = j
            outs = self.builder.seq(self.finalbody, [(j, None)], self.parent)
            for o in outs:
                getattr(self.parent, kind)(o)
        self.cfg._connect(e, self._copies[kind])

    def ret(self, e):
        self._route("ret", e)

    def exc(self, e):
        self._route("exc", (e[0], "exc"))

    def brk(self, e):
        self._route("brk", e)

    def cont(self, e):
        self._route("cont", e)


class _Builder:
    def __init__(self, cfg: CFG):
        self.cfg = cfg

    def seq(self, stmts: List[ast.stmt], preds: List[Edge], ctx: _Ctx) -> List[Edge]:
        for s in stmts:
            preds = self.stmt(s, preds, ctx)
        return preds

    def _node(self, kind: str, a: ast.AST, preds: List[Edge]) -> int:
        n = self.cfg._new(kind, a)
        for e in preds:
            self.cfg._connect(e, n)
        return n

    def stmt(self, s: ast.stmt, preds: List[Edge], ctx: _Ctx) -> List[Edge]:
        cfg = self.cfg
        if isinstance(s, ast.Return):
            n = self._node("stmt", s, preds)
            if s.value is not None and may_raise(s.value):
                ctx.exc((n, "exc"))
            ctx.ret((n, None))
            return []
        if isinstance(s, ast.Raise):
            n = self._node("stmt", s, preds)
            ctx.exc((n, "exc"))
            return []
        if isinstance(s, ast.Break):
            n = self._node("stmt", s, preds)
            ctx.brk((n, None))
            return []
        if isinstance(s, ast.Continue):
            n = self._node("stmt", s, preds)
            ctx.cont((n, None))
            return []
        if isinstance(s, ast.If):
            t = self._node("test", s.test, preds)
            if may_raise(s.test):
                ctx.exc((t, "exc"))
            body = self.seq(s.body, [(t, "T")], ctx)
            orelse = self.seq(s.orelse, [(t, "F")], ctx) if s.orelse else [(t, "F")]
            return body + orelse
        if isinstance(s, ast.While):
            t = self._node("test", s.test, preds)
            if may_raise(s.test):
                ctx.exc((t, "exc"))
            lc = _LoopCtx(cfg, ctx, t)
            body = self.seq(s.body, [(t, "T")], lc)
            for e in body:
                cfg._connect(e, t)
            const_true = isinstance(s.test, ast.Constant) and bool(s.test.value)
            outs: List[Edge] = []
            if not const_true:
                outs = self.seq(s.orelse, [(t, "F")], ctx) if s.orelse else [(t, "F")]
            return outs + lc.breaks
        if isinstance(s, (ast.For, ast.AsyncFor)):
            h = self._node("iter", s, preds)
            if may_raise(s.iter) or isinstance(s, ast.AsyncFor):
                ctx.exc((h, "exc"))
            lc = _LoopCtx(cfg, ctx, h)
            body = self.seq(s.body, [(h, "loop")], lc)
            for e in body:
                cfg._connect(e, h)
            outs = self.seq(s.orelse, [(h, "done")], ctx) if s.orelse else [(h, "done")]
            return outs + lc.breaks
        if isinstance(s, (ast.With, ast.AsyncWith)):
            n = self._node("with", s, preds)
            ctx.exc((n, "exc"))
            return self.seq(s.body, [(n, None)], ctx)
        if isinstance(s, ast.Try) or (hasattr(ast, "TryStar") and isinstance(s, getattr(ast, "TryStar"))):
            after: _Ctx = _FinallyCtx(cfg, ctx, self, s.finalbody, s) if s.finalbody else ctx
            entries: List[Tuple[int, ast.ExceptHandler]] = []
            for h in s.handlers:
                hid = cfg._new("handler", h)
                entries.append((hid, h))
            bctx = _TryBodyCtx(cfg, after, entries) if entries else after
            outs = self.seq(s.body, preds, bctx)
            if s.orelse:
                outs = self.seq(s.orelse, outs, after)
            for hid, h in entries:
                outs = outs + self.seq(h.body, [(hid, None)], after)
            if s.finalbody:
                outs = self.seq(s.finalbody, outs, ctx)
            return outs
        if isinstance(s, ast.Match):  # pragma: no cover - not used by the repo
            t = self._node("test", s.subject, preds)
            outs: List[Edge] = [(t, "F")]
            for case in s.cases:
                outs += self.seq(case.body, [(t, "T")], ctx)
            return outs
        # simple statement (incl. nested def / class as one node)
        n = self._node("stmt", s, preds)
        if not isinstance(s, (ast.FunctionDef, ast.AsyncFunctionDef, ast.ClassDef)) and may_raise(s):
            ctx.exc((n, "exc"))
        return [(n, None)]


_CACHE: Dict[int, CFG] = {}


def cfg_of(func_node: ast.AST) -> CFG:
    k = id(func_node)
    if k not in _CACHE:
        _CACHE[k] = CFG(func_node)
    return _CACHE[k]


def reachable_with_flag(g: CFG, starts: Iterable[Tuple[int, Optional[bool]]], flag,
                        follow_exc: bool = False) -> Set[int]:
    """Reachability that tracks boolean locals (*flag*: one name or several; constant assignments, ``if flag:`` /
    ``if not flag:`` tests) so the 'set flag; break; if flag: break' idiom is followed path-sensitively.  A start value other
    than None applies to the first flag."""
    flags = [flag] if isinstance(flag, str) else list(flag)
    seen: Set[Tuple[int, Tuple]] = set()
    work = []
    for n0, v0 in starts:
        st0 = tuple((f, v0 if i == 0 else None) for i, f in enumerate(flags))
        work.append((n0, st0))
    while work:
        n, st = work.pop()
        if (n, st) in seen:
            continue
        seen.add((n, st))
        node = g.nodes[n]
        vals = dict(st)
        if node.kind == "stmt" and isinstance(node.ast, ast.Assign) and len(node.ast.targets) == 1 and \
                isinstance(node.ast.targets[0], ast.Name) and node.ast.targets[0].id in vals:
            v = node.ast.value
            vals[node.ast.targets[0].id] = bool(v.value) if isinstance(v, ast.Constant) and v.value is not None else None
        out = tuple((f, vals[f]) for f in flags)
        for d, lab in g.succ[n]:
            if not follow_exc and (lab or "").startswith("exc"):
                continue
            if node.kind == "test" and lab in ("T", "F"):
                t = node.ast
                neg = False
                if isinstance(t, ast.UnaryOp) and isinstance(t.op, ast.Not):
                    t, neg = t.operand, True
                if isinstance(t, ast.Name) and vals.get(t.id) is not None:
                    truth = vals[t.id] != neg
                    if (lab == "T") != truth:
                        continue
            work.append((d, out))
    return {n for n, _ in seen}
