"""Virtual inlining of *new* private helpers ("extract method" refactorings).

The rules anchor on the functions of the reference tree (``rules/known_functions.json``).  A private function that the
reference tree does not have is, with overwhelming likelihood, code that was moved out of one of those functions.  Before the
program model is built, every call of such a helper is replaced by the helper's body (parameters substituted, locals renamed),
so that the rules analyse the same statements in the same place as before the refactoring; a helper all of whose calls could be
inlined is dropped from the model.  This changes nothing for the unchanged tree (it has no unknown functions) and it never
hides code: what cannot be inlined stays where it is and is analysed as a function of its own.

Supported call shapes: statement calls (``self._h(a)``, ``await self._h(a)``), ``x = self._h(a)``, ``return self._h(a)``,
expression helpers (body is a single ``return <expr>``) anywhere in an expression, ``for t in self._gen(a):`` for simple
generators, statement helpers called inside an unconditionally evaluated expression (hoisted into a temporary first), callables and ``*args`` forwarded by a
higher-order helper.  Helpers with a ``return`` inside a loop / try / with, and multi-statement predicates used as a condition,
are not inlined: they are analysed as functions of their own and the rules resolve them by what they do.
"""
from __future__ import annotations

import ast
import copy
import json
import os
from typing import Dict, List, Optional, Set, Tuple

HERE = os.path.dirname(os.path.dirname(os.path.abspath(__file__)))
KNOWN_FILE = os.path.join(HERE, "rules", "known_functions.json")


def load_known() -> Optional[Set[str]]:
    if not os.path.exists(KNOWN_FILE):
        return None
    with open(KNOWN_FILE) as fh:
        return set(json.load(fh)["functions"])


def load_known_params() -> Dict[str, List[str]]:
    if not os.path.exists(KNOWN_FILE):
        return {}
    with open(KNOWN_FILE) as fh:
        return json.load(fh).get("params", {})


def _scope(qn: str) -> str:
    return qn.rsplit(".", 1)[0] if "." in qn.split(":", 1)[1] else qn.split(":", 1)[0] + ":"


def qualnames(tree: ast.Module, modname: str) -> List[Tuple[str, ast.AST, List[ast.AST]]]:
    """(qualname, def node, chain of enclosing nodes) for every function of the module."""
    out = []

    def rec(body, prefix, chain):
        for n in body:
            if isinstance(n, (ast.FunctionDef, ast.AsyncFunctionDef)):
                out.append((f"{modname}:{prefix}{n.name}", n, chain))
                rec(_defs(n.body), f"{prefix}{n.name}.", chain + [n])
            elif isinstance(n, ast.ClassDef):
                rec(n.body, f"{prefix}{n.name}.", chain + [n])
    rec(tree.body, "", [])
    return out


def _defs(body):
    stack = list(body)
    while stack:
        n = stack.pop(0)
        if isinstance(n, (ast.FunctionDef, ast.AsyncFunctionDef, ast.ClassDef)):
            yield n
            continue
        for ch in ast.iter_child_nodes(n):
            if isinstance(ch, (ast.stmt, ast.ExceptHandler)):
                stack.append(ch)


def _body(fn) -> List[ast.stmt]:
    b = list(fn.body)
    if b and isinstance(b[0], ast.Expr) and isinstance(b[0].value, ast.Constant) and isinstance(b[0].value.value, str):
        b = b[1:]
    return b


def _has(node, kinds) -> bool:
    for x in ast.walk(node):
        if isinstance(x, (ast.FunctionDef, ast.AsyncFunctionDef, ast.Lambda)) and x is not node:
            continue
        if isinstance(x, kinds):
            return True
    return False


def _returns_in(node) -> bool:
    stack = [node]
    while stack:
        x = stack.pop()
        if isinstance(x, ast.Return):
            return True
        for ch in ast.iter_child_nodes(x):
            if not isinstance(ch, (ast.FunctionDef, ast.AsyncFunctionDef, ast.Lambda, ast.ClassDef)):
                stack.append(ch)
    return False


class _Subst(ast.NodeTransformer):
    def __init__(self, mapping: Dict[str, ast.AST], rename: Dict[str, str], star: Optional[Tuple[str, List[ast.AST]]]):
        self.mapping, self.rename, self.star = mapping, rename, star

    def visit_Name(self, n):
        if n.id in self.mapping and isinstance(n.ctx, ast.Load):
            return copy.deepcopy(self.mapping[n.id])
        if n.id in self.rename:
            return ast.copy_location(ast.Name(id=self.rename[n.id], ctx=n.ctx), n)
        return n

    def visit_Call(self, n):
        n = self.generic_visit(n)
        if self.star is not None:
            new_args = []
            for a in n.args:
                if isinstance(a, ast.Starred) and isinstance(a.value, ast.Name) and a.value.id == self.star[0]:
                    new_args.extend(copy.deepcopy(x) for x in self.star[1])
                else:
                    new_args.append(a)
            n.args = new_args
        return n

    def visit_arg(self, n):
        return n


def _bind(fn, call: ast.Call, is_method_call: bool) -> Optional[Tuple[Dict[str, ast.AST], Optional[Tuple[str, List[ast.AST]]]]]:
    a = fn.args
    params = [x.arg for x in a.posonlyargs + a.args]
    decos = [ast.unparse(d) for d in fn.decorator_list]
    if is_method_call and "staticmethod" not in decos and params and params[0] in ("self", "cls"):
        params = params[1:]
    mapping: Dict[str, ast.AST] = {}
    pos = list(call.args)
    if any(isinstance(x, ast.Starred) for x in pos) or any(k.arg is None for k in call.keywords):
        return None
    star = None
    if len(pos) > len(params):
        if a.vararg is None:
            return None
        star = (a.vararg.arg, pos[len(params):])
        pos = pos[:len(params)]
    elif a.vararg is not None:
        star = (a.vararg.arg, [])
    for p_, v in zip(params, pos):
        mapping[p_] = v
    kw = {k.arg: k.value for k in call.keywords}
    defaults = dict(zip(params[len(params) - len(a.defaults):], a.defaults)) if a.defaults else {}
    for p_ in params[len(pos):]:
        if p_ in kw:
            mapping[p_] = kw.pop(p_)
        elif p_ in defaults:
            mapping[p_] = defaults[p_]
        else:
            return None
    for ka, kd in zip(a.kwonlyargs, a.kw_defaults):
        if ka.arg in kw:
            mapping[ka.arg] = kw.pop(ka.arg)
        elif kd is not None:
            mapping[ka.arg] = kd
        else:
            return None
    if kw:
        return None
    return mapping, star


def _locals_of(fn) -> Set[str]:
    out = set()
    for x in ast.walk(fn):
        if isinstance(x, ast.Name) and isinstance(x.ctx, (ast.Store, ast.Del)):
            out.add(x.id)
    a = fn.args
    for p_ in [y.arg for y in a.posonlyargs + a.args + a.kwonlyargs] + ([a.vararg.arg] if a.vararg else []) + ([a.kwarg.arg] if a.kwarg else []):
        out.discard(p_)
    return out


def _tailify(stmts: List[ast.stmt], emit) -> Optional[List[ast.stmt]]:
    """Rewrite a body whose ``return``s are in tail position so that each ``return E`` becomes ``emit(E)``."""
    out: List[ast.stmt] = []
    for i, s in enumerate(stmts):
        if isinstance(s, ast.Return):
            out.extend(emit(s.value))
            return out
        if _returns_in(s):
            if isinstance(s, ast.If):
                rest = stmts[i + 1:]
                b = _tailify(list(s.body) + rest, emit)
                o = _tailify(list(s.orelse) + rest, emit)
                if b is None or o is None:
                    return None
                if not b and o:
                    # nothing left in the taken branch: write it the direct way round (if not c: <rest>)
                    new = ast.If(test=_push_not(s.test, True), body=o, orelse=[])
                else:
                    new = ast.If(test=s.test, body=b or [ast.Pass()], orelse=o)
                out.append(ast.copy_location(new, s))
                return out
            if isinstance(s, ast.Try) and not any(_returns_in(x) for x in s.body + s.finalbody + s.orelse):
                # returns only in the handlers, and every handler leaves (return / raise): what follows the try runs exactly when its
                # body completed - it moves into the else clause
                rest = stmts[i + 1:]
                hs = []
                for h in s.handlers:
                    if not _always_leaves(h.body):
                        return None
                    hb = _tailify(list(h.body), emit) if _returns_in(h) else list(h.body)
                    if hb is None:
                        return None
                    hs.append(ast.copy_location(ast.ExceptHandler(type=h.type, name=h.name, body=hb or [ast.Pass()]), h))
                tail = _tailify(list(rest), emit)
                if tail is None:
                    return None
                new = ast.Try(body=s.body, handlers=hs, orelse=list(s.orelse) + tail, finalbody=s.finalbody)
                out.append(ast.copy_location(new, s))
                return out
            return None
        out.append(s)
    out.extend(emit(None))
    return out


class _NoDeloop(Exception):
    pass


def _deloop(stmts: List[ast.stmt], ret: str, done: str) -> Optional[List[ast.stmt]]:
    """Structured return elimination for a body whose ``return``s are not in tail position (inside loops, before further
    statements): ``return E`` becomes ``ret = E; done = True`` (+ ``break`` inside a loop), a loop that may have returned is followed
    by ``if done: break`` when it is itself inside a loop, and what follows a statement that may have returned outside any loop runs under
    ``if not done``.  The result computes the same effects in the same order and leaves the value in *ret*."""
    def setv(name, value):
        return ast.Assign(targets=[ast.Name(id=name, ctx=ast.Store())], value=value)

    def notdone():
        return ast.UnaryOp(op=ast.Not(), operand=ast.Name(id=done, ctx=ast.Load()))

    def seq(body: List[ast.stmt], in_loop: bool) -> List[ast.stmt]:
        out: List[ast.stmt] = []
        for i, s in enumerate(body):
            if isinstance(s, ast.Return):
                out.append(setv(ret, s.value if s.value is not None else ast.Constant(value=None)))
                out.append(setv(done, ast.Constant(value=True)))
                if in_loop:
                    out.append(ast.Break())
                return out
            if not _returns_in(s):
                out.append(s)
                continue
            is_loop = isinstance(s, (ast.For, ast.AsyncFor, ast.While))
            if isinstance(s, ast.If):
                new = ast.If(test=s.test, body=seq(list(s.body), in_loop) or [ast.Pass()], orelse=seq(list(s.orelse), in_loop))
            elif is_loop:
                if s.orelse:
                    raise _NoDeloop()
                new = copy.copy(s)
                new.body = seq(list(s.body), True) or [ast.Pass()]
            elif isinstance(s, (ast.With, ast.AsyncWith)):
                new = copy.copy(s)
                new.body = seq(list(s.body), in_loop) or [ast.Pass()]
            elif isinstance(s, ast.Try):
                if s.finalbody and any(_returns_in(x) for x in s.finalbody):
                    raise _NoDeloop()
                body_ret = any(_returns_in(x) for x in s.body)
                oe = seq(list(s.orelse), in_loop)
                if body_ret and oe and not in_loop:
                    oe = [ast.If(test=notdone(), body=oe, orelse=[])]
                hs = [ast.ExceptHandler(type=h.type, name=h.name, body=seq(list(h.body), in_loop) or [ast.Pass()]) for h in s.handlers]
                new = ast.Try(body=seq(list(s.body), in_loop) or [ast.Pass()], handlers=hs, orelse=oe, finalbody=list(s.finalbody))
            else:
                raise _NoDeloop()
            out.append(ast.copy_location(new, s))
            rest = list(body[i + 1:])
            if is_loop and in_loop:
                out.append(ast.If(test=ast.Name(id=done, ctx=ast.Load()), body=[ast.Break()], orelse=[]))
                continue
            if in_loop and not is_loop:
                continue                # a return inside became a break of the enclosing loop: what follows runs only without it
            tail = seq(rest, in_loop)
            if tail:
                out.append(ast.If(test=notdone(), body=tail, orelse=[]))
            return out
        return out
    try:
        body = seq(list(stmts), False)
    except _NoDeloop:
        return None
    return [setv(done, ast.Constant(value=False)), setv(ret, ast.Constant(value=None))] + body


def _always_leaves(body: List[ast.stmt]) -> bool:
    if not body:
        return False
    last = body[-1]
    if isinstance(last, (ast.Return, ast.Raise)):
        return True
    if isinstance(last, ast.If) and last.orelse:
        return _always_leaves(last.body) and _always_leaves(last.orelse)
    return False


def _as_expr(stmts: List[ast.stmt]) -> Optional[ast.AST]:
    """The value of a body that consists of returns in an if-chain only:  if c: return A / return B  ->  A if c else B."""
    if not stmts:
        return None
    s0 = stmts[0]
    if isinstance(s0, ast.Return) and s0.value is not None:
        return s0.value
    # a local that only names an intermediate value:  prefix = key[:-2]; return e == prefix or e.startswith(prefix + ".")
    if isinstance(s0, ast.Assign) and len(s0.targets) == 1 and isinstance(s0.targets[0], ast.Name) and len(stmts) > 1 and \
            not any(isinstance(y, (ast.Call, ast.Await, ast.Yield, ast.Lambda)) and not (isinstance(y, ast.Call) and isinstance(y.func, ast.Name) and y.func.id in ("len", "str", "tuple")) for y in ast.walk(s0.value)):
        nm = s0.targets[0].id
        rest = [copy.deepcopy(x) for x in stmts[1:]]
        if not any(isinstance(y, ast.Name) and y.id == nm and isinstance(y.ctx, ast.Store) for x in rest for y in ast.walk(x)):
            sub = _Subst({nm: s0.value}, {}, None)
            return _as_expr([sub.visit(x) for x in rest])
    if isinstance(s0, ast.If):
        a = _as_expr(list(s0.body))
        b = _as_expr(list(s0.orelse) if s0.orelse else stmts[1:])
        if a is not None and b is not None:
            return ast.IfExp(test=s0.test, body=a, orelse=b)
    return None


class Inliner:
    def __init__(self, trees: Dict[str, ast.Module], known: Set[str]):
        self.trees = trees
        self.known = known
        self.helpers: Dict[str, Tuple[str, ast.AST, List[ast.AST]]] = {}
        self.counter = 0
        self.failed: Set[str] = set()
        self.inlined_sites: Dict[str, int] = {}
        self.renamed: Set[str] = set()
        self.renamed_back: Dict[str, str] = {}

    def collect(self) -> None:
        names: Dict[str, List[Tuple[str, ast.AST, List[ast.AST]]]] = {}
        every: Dict[str, int] = {}
        for mod, tree in self.trees.items():
            for qn, node, chain in qualnames(tree, mod):
                every[node.name] = every.get(node.name, 0) + 1
        # a reference function that is gone while a new one with the same parameters appeared in its scope: renamed, not extracted
        present = {qn for mod, tree in self.trees.items() for qn, node, chain in qualnames(tree, mod)}
        kp = load_known_params()
        gone: Dict[str, List[List[str]]] = {}
        gone_names: Dict[str, List[Tuple[str, List[str]]]] = {}
        for qn in self.known - present:
            gone.setdefault(_scope(qn), []).append(kp.get(qn, []))
            gone_names.setdefault(_scope(qn), []).append((qn, kp.get(qn, [])))
        # a consistent rename (one reference function gone, one new function of the same scope and parameters, the new name used
        # nowhere else as a definition) is undone in the model: definition and every reference get the reference name back, so
        # the rules - which know the reference names - analyse the same program
        new_by_scope: Dict[str, List[Tuple[str, ast.AST]]] = {}
        for mod, tree in self.trees.items():
            for qn, node, chain in qualnames(tree, mod):
                if qn not in self.known:
                    new_by_scope.setdefault(_scope(qn), []).append((qn, node))
        pairs: Dict[str, List[Tuple[str, ast.AST, str]]] = {}
        for sc, lst in gone_names.items():
            for old_qn, prm in lst:
                cands = [(qn, node) for qn, node in new_by_scope.get(sc, [])
                         if [x.arg for x in node.args.posonlyargs + node.args.args + node.args.kwonlyargs] == prm]
                same_sig_gone = [q for q, p_ in lst if p_ == prm]
                if len(cands) != 1 or len(same_sig_gone) != 1:
                    continue
                qn, node = cands[0]
                pairs.setdefault(node.name, []).append((qn, node, old_qn))
        for new_name, lst2 in pairs.items():
            olds = {old_qn.rsplit(".", 1)[-1].split(":")[-1] for _, _, old_qn in lst2}
            if len(olds) != 1 or every.get(new_name, 0) != len(lst2):
                continue            # the new name is also the name of something else: references cannot be told apart
            old_name = next(iter(olds))
            if every.get(old_name, 0) != 0:
                continue            # namesakes keep the old name (an override renamed on its own?): calls through ``self`` may now
                                    # reach a different function - not provably the same program, so nothing is undone
            used = any((isinstance(x, ast.Attribute) and x.attr == new_name) or (isinstance(x, ast.Name) and x.id == new_name and isinstance(x.ctx, ast.Load))
                       for tree in self.trees.values() for x in ast.walk(tree))
            if not used:
                continue            # nobody calls it by the new name: the old call sites lost their target
            for tree in self.trees.values():
                for x in ast.walk(tree):
                    if isinstance(x, ast.Attribute) and x.attr == new_name:
                        x.attr = old_name
                    elif isinstance(x, ast.Name) and x.id == new_name:
                        x.id = old_name
                    elif isinstance(x, ast.alias) and x.name == new_name:
                        x.name = old_name
            for qn, node, old_qn in lst2:
                node.name = old_name
                self.renamed_back[qn] = old_qn
            every[old_name] = every.get(old_name, 0) + len(lst2)
            every[new_name] = 0
        for mod, tree in self.trees.items():
            for qn, node, chain in qualnames(tree, mod):
                if every.get(node.name, 0) != 1:
                    continue            # an override / a namesake of another function: a call cannot be matched by name
                a_ = node.args
                if qn not in self.known and [x.arg for x in a_.posonlyargs + a_.args + a_.kwonlyargs] in gone.get(_scope(qn), []):
                    self.renamed.add(qn)
                    continue
                if qn in self.known or not node.name.startswith("_") or node.name.startswith("__"):
                    continue
                # a nested function of an unknown function is reached when that function is inlined
                names.setdefault(node.name, []).append((qn, node, chain))
        for nm, lst in names.items():
            if len(lst) == 1:           # a unique simple name: call sites can be matched by name
                self.helpers[nm] = lst[0]

    # -------------------------------------------------------------------------------------------------
    def _instantiate(self, fn, call: ast.Call, is_method_call: bool):
        b = _bind(fn, call, is_method_call)
        if b is None:
            return None
        mapping, star = b
        self.counter += 1
        # locals of the helper are renamed only where they would capture a name of the function they are inlined into
        clash = getattr(self, "cur_names", set())
        rename = {n: f"{n}__{fn.name.strip('_')}{self.counter}" for n in _locals_of(fn) if n not in mapping and n in clash}
        body = [copy.deepcopy(s) for s in _body(fn)]
        # an argument that does something (a call, an await) is evaluated once, as it was: a parameter read more than once,
        # or stored to, keeps its name as a local that is bound first
        pre: List[ast.stmt] = []
        for pn, arg in list(mapping.items()):
            effect = any(isinstance(y, (ast.Await, ast.Yield, ast.YieldFrom, ast.NamedExpr)) or
                         (isinstance(y, ast.Call) and not (isinstance(y.func, ast.Name) and y.func.id in ("len", "str", "tuple", "isinstance", "id")))
                         for y in ast.walk(arg))
            loads = sum(1 for st in body for y in ast.walk(st) if isinstance(y, ast.Name) and y.id == pn and isinstance(y.ctx, ast.Load))
            stored = any(isinstance(y, ast.Name) and y.id == pn and isinstance(y.ctx, ast.Store) for st in body for y in ast.walk(st))
            if (effect and loads != 1) or stored:
                del mapping[pn]
                local = pn
                if pn in clash:
                    local = rename[pn] = f"{pn}__{fn.name.strip('_')}{self.counter}"
                pre.append(ast.Assign(targets=[ast.Name(id=local, ctx=ast.Store())], value=copy.deepcopy(arg)))
        sub = _Subst(mapping, rename, star)
        body = pre + [sub.visit(s) for s in body]
        for s in body:
            ast.fix_missing_locations(s)
        return body

    def _call_of(self, e) -> Optional[Tuple[ast.Call, str, bool]]:
        if isinstance(e, ast.Await):
            e = e.value
        if not isinstance(e, ast.Call):
            return None
        f = e.func
        if isinstance(f, ast.Attribute) and isinstance(f.value, ast.Name) and f.attr in self.helpers:
            return e, f.attr, True
        if isinstance(f, ast.Name) and f.id in self.helpers:
            return e, f.id, False
        return None

    def _statement_helper_call(self, e) -> bool:
        """*e* is ``[not] self._helper(..)`` with a helper that is not a plain expression helper and answers with boolean constants."""
        if isinstance(e, ast.UnaryOp) and isinstance(e.op, ast.Not):
            e = e.operand
        hit = self._call_of(e)
        if hit is None:
            return False
        fn_ = self.helpers[hit[1]][1]
        if _as_expr(_body(fn_)) is not None:
            return False
        nested_ = [y for x in ast.walk(fn_) if isinstance(x, (ast.FunctionDef, ast.AsyncFunctionDef, ast.Lambda)) and x is not fn_ for y in ast.walk(x) if isinstance(y, ast.Return)]
        rets_ = [r for r in ast.walk(fn_) if isinstance(r, ast.Return) and r not in nested_]
        return bool(rets_) and all(isinstance(r.value, ast.Constant) and isinstance(r.value.value, bool) for r in rets_)

    def _splice_stmt(self, s: ast.stmt, flag_if: Optional[ast.If] = None) -> Optional[List[ast.stmt]]:
        """Replacement statements for *s* if it is a statement-level helper call, else None.  *flag_if*: the statement that follows
        ``ok = self._helper(..)`` when it is ``if [not] ok: ...`` and nothing else reads ``ok`` - a helper that reports success
        with constant returns is then inlined with each ``return True / False`` replaced by what the caller does in that case."""
        hit = None
        if isinstance(s, ast.Expr):
            hit = self._call_of(s.value)
            mode = "void"
        elif isinstance(s, ast.Return) and s.value is not None:
            hit = self._call_of(s.value)
            mode = "return"
        elif isinstance(s, (ast.Assign, ast.AnnAssign)) and getattr(s, "value", None) is not None:
            hit = self._call_of(s.value)
            mode = "assign"
        elif isinstance(s, (ast.For, ast.AsyncFor)):
            hit = self._call_of(s.iter)
            mode = "for"
        elif isinstance(s, ast.If) and not s.orelse and isinstance(s.test, ast.BoolOp) and isinstance(s.test.op, ast.And) and \
                self._statement_helper_call(s.test.values[-1]) and not any(self._call_of(y) for v in s.test.values[:-1] for y in ast.walk(v)):
            # if A and self._helper(..): BODY   ==   if A: if self._helper(..): BODY   (no else clause to duplicate)
            vals = s.test.values[:-1]
            outer = vals[0] if len(vals) == 1 else ast.BoolOp(op=ast.And(), values=list(vals))
            inner = ast.copy_location(ast.If(test=s.test.values[-1], body=list(s.body), orelse=[]), s)
            res0 = [ast.copy_location(ast.If(test=outer, body=[inner], orelse=[]), s)]
            ast.fix_missing_locations(res0[0])
            self.inlined_sites.setdefault("<and-split>", 0)
            return res0
        elif isinstance(s, ast.If) and not s.orelse:
            # if [not] self._helper(..): BODY   with a helper that answers with boolean constants only: each ``return True / False`` of
            # the helper becomes BODY or nothing
            t_ = s.test
            neg_if = isinstance(t_, ast.UnaryOp) and isinstance(t_.op, ast.Not)
            if neg_if:
                t_ = t_.operand
            hit = self._call_of(t_)
            mode = "iftest"
            if hit is not None:
                fn_ = self.helpers[hit[1]][1]
                nested_ = [y for x in ast.walk(fn_) if isinstance(x, (ast.FunctionDef, ast.AsyncFunctionDef, ast.Lambda)) and x is not fn_ for y in ast.walk(x) if isinstance(y, ast.Return)]
                rets_ = [r for r in ast.walk(fn_) if isinstance(r, ast.Return) and r not in nested_]
                if not rets_ or not all(isinstance(r.value, ast.Constant) and isinstance(r.value.value, bool) for r in rets_):
                    hit = None
        if hit is None:
            return None
        call, name, is_meth = hit
        qn, fn, chain = self.helpers[name]
        src_expr = s.iter if mode == "for" else ((s.test.operand if isinstance(s.test, ast.UnaryOp) else s.test) if mode == "iftest" else s.value)
        if isinstance(fn, ast.AsyncFunctionDef) != isinstance(src_expr, ast.Await) and mode != "for":
            return None          # a coroutine that is not awaited here (or a plain function that is): not the same as running its body
        body0 = _body(fn)
        if _as_expr(body0) is not None and mode != "for":
            return None          # an expression helper: substituted in place by _inline_exprs
        is_gen = any(_has(st, (ast.Yield, ast.YieldFrom)) for st in body0)
        if mode == "for":
            if not is_gen or _returns_in(fn) and any(isinstance(x, ast.Return) and x.value is not None for x in ast.walk(fn)):
                return None
            body = self._instantiate(fn, call, is_meth)
            if body is None or any(_has(st, (ast.YieldFrom,)) for st in body):
                return None

            class Y(ast.NodeTransformer):
                ok = True

                def visit_Expr(self, n):
                    if isinstance(n.value, ast.Yield):
                        tgt = copy.deepcopy(s.target)
                        asg = ast.Assign(targets=[tgt], value=n.value.value or ast.Constant(value=None))
                        return [ast.copy_location(asg, n)] + [copy.deepcopy(b) for b in s.body]
                    return n

                def visit_Yield(self, n):
                    Y.ok = False
                    return n
            Y.ok = True
            out = []
            for st in body:
                r = Y().visit(st)
                out.extend(r if isinstance(r, list) else [r])
            if not Y.ok or s.orelse:
                return None
            if _has(ast.Module(body=list(s.body), type_ignores=[]), (ast.Break,)):
                # a `break` in the consumer ends the generator's own loop instead: the same thing only if that loop is the last
                # statement of the generator and holds every yield
                gb = _body(fn)
                last = gb[-1] if gb else None
                n_y = sum(1 for x in ast.walk(fn) if isinstance(x, ast.Yield))
                n_in = sum(1 for x in ast.walk(last) if isinstance(x, ast.Yield)) if isinstance(last, (ast.While, ast.For)) else 0
                nested_loops = sum(1 for x in ast.walk(last) if isinstance(x, (ast.While, ast.For))) if last is not None else 0
                if not (isinstance(last, (ast.While, ast.For)) and n_y == n_in and nested_loops == 1):
                    return None
            for st in out:
                ast.fix_missing_locations(st)
            return out
        if is_gen:
            return None
        body = self._instantiate(fn, call, is_meth)
        if body is None:
            return None
        if mode == "void":
            res = _tailify(body, lambda v: [] if v is None or isinstance(v, ast.Constant) else [ast.Expr(value=v)])
        elif mode == "return":
            # ``return self._h(..)``: the helper's returns are the caller's returns wherever they stand (inside loops, try blocks ...)
            res = list(body)
            if not (res and isinstance(res[-1], (ast.Return, ast.Raise))):
                res.append(ast.Return(value=ast.Constant(value=None)))
        elif mode == "iftest":
            def emit(v):
                val = bool(v.value) if isinstance(v, ast.Constant) else False       # falling off the end returns None
                taken = (not val) if neg_if else val
                return [copy.deepcopy(x) for x in s.body] if taken else []
            res = _tailify(body, emit)
        elif mode == "assign" and flag_if is not None:
            neg_ = isinstance(flag_if.test, ast.UnaryOp)

            def emit(v):
                val = bool(v.value) if isinstance(v, ast.Constant) else False       # falling off the end returns None
                taken = (not val) if neg_ else val
                return [copy.deepcopy(x) for x in flag_if.body] if taken else []
            res = _tailify(body, emit)
        elif mode == "assign":
            def emit(v):
                tg = s.targets[0] if isinstance(s, ast.Assign) and len(s.targets) == 1 else None
                if isinstance(tg, ast.Tuple) and isinstance(v, ast.Tuple) and len(tg.elts) == len(v.elts) and all(isinstance(e, ast.Name) for e in tg.elts) \
                        and not ({e.id for e in tg.elts} & {y.id for e2 in v.elts for y in ast.walk(e2) if isinstance(y, ast.Name)}):
                    # a, b = helper()  with  return x, y :  a = x; b = y  (no name is both read and written)
                    return [ast.Assign(targets=[copy.deepcopy(t_)], value=e_) for t_, e_ in zip(tg.elts, v.elts)]
                n2 = copy.deepcopy(s)
                n2.value = v if v is not None else ast.Constant(value=None)
                return [n2]
            res = _tailify(body, emit)
        else:
            return None
        if res is None and (mode in ("void", "iftest") or (mode == "assign" and flag_if is not None)):
            # returns that are not in tail position (inside loops, before further statements): flag form
            self.counter += 1
            rn, dn = f"__ret{self.counter}", f"__done{self.counter}"
            res = _deloop(body, rn, dn)
            if res is not None:
                if mode == "iftest" or (mode == "assign" and flag_if is not None):
                    the_if = s if mode == "iftest" else flag_if
                    neg2 = isinstance(the_if.test, ast.UnaryOp) and isinstance(the_if.test.op, ast.Not)
                    tst = ast.Name(id=rn, ctx=ast.Load())
                    res.append(ast.If(test=ast.UnaryOp(op=ast.Not(), operand=tst) if neg2 else tst, body=[copy.deepcopy(x) for x in the_if.body], orelse=[]))
        if res is None:
            return None
        res = res or [ast.Pass()]
        for st in res:
            ast.copy_location(st, s)
            ast.fix_missing_locations(st)
        return res

    def _flag_if(self, s: ast.stmt, nxt: Optional[ast.stmt]) -> Optional[ast.If]:
        """``ok = self._helper(..)`` followed by ``if [not] ok: ...`` (no else), ``ok`` read nowhere else, the helper returning
        nothing but boolean constants: the ``if`` statement, else None."""
        if not (isinstance(s, ast.Assign) and len(s.targets) == 1 and isinstance(s.targets[0], ast.Name) and isinstance(nxt, ast.If) and not nxt.orelse):
            return None
        hit = self._call_of(s.value)
        if hit is None:
            return None
        flag = s.targets[0].id
        t = nxt.test
        if isinstance(t, ast.UnaryOp) and isinstance(t.op, ast.Not):
            t = t.operand
        if not (isinstance(t, ast.Name) and t.id == flag):
            return None
        fn_owner = getattr(self, "cur_fn", None)
        if fn_owner is None or sum(1 for x in ast.walk(fn_owner) if isinstance(x, ast.Name) and x.id == flag) != 2:
            return None
        fn = self.helpers[hit[1]][1]
        rets = [x for x in ast.walk(fn) if isinstance(x, ast.Return)]
        # returns of functions nested in the helper are not its own
        nested = [y for x in ast.walk(fn) if isinstance(x, (ast.FunctionDef, ast.AsyncFunctionDef, ast.Lambda)) and x is not fn for y in ast.walk(x) if isinstance(y, ast.Return)]
        rets = [r for r in rets if r not in nested]
        if not rets or not all(isinstance(r.value, ast.Constant) and isinstance(r.value.value, bool) for r in rets):
            return None
        return nxt

    def _hoist(self, s: ast.stmt) -> List[ast.stmt]:
        """A statement helper called in the middle of an expression that is evaluated unconditionally
        (``for x in sorted(self._h(), key=...)``, ``y = f(self._h())``): the call is given a temporary first."""
        slot = None
        if isinstance(s, (ast.For, ast.AsyncFor)):
            slot = ("iter", s.iter)
        elif isinstance(s, (ast.Assign, ast.AnnAssign, ast.AugAssign, ast.Return, ast.Expr)) and getattr(s, "value", None) is not None:
            slot = ("value", s.value)
        elif isinstance(s, (ast.If, ast.While)) and isinstance(s, ast.If):
            slot = ("test", s.test)
        if slot is None:
            return []
        fld, root = slot
        if self._call_of(root) is not None:
            hit0 = self._call_of(root)
            fn0 = self.helpers[hit0[1]][1]
            is_gen0 = any(_has(st, (ast.Yield, ast.YieldFrom)) for st in _body(fn0))
            if not (isinstance(s, (ast.For, ast.AsyncFor)) and not is_gen0 and _as_expr(_body(fn0)) is None):
                return []            # the whole expression is the call: handled by _splice_stmt
            # for x in self._helper(): with a helper that builds and returns a list - the list is given a temporary first
        out: List[ast.stmt] = []
        me = self

        def walk(e, parent_setter):
            # only positions that are evaluated whenever the statement is: no short-circuit operands, branches, lambdas, comprehensions
            if isinstance(e, (ast.Lambda, ast.ListComp, ast.SetComp, ast.DictComp, ast.GeneratorExp, ast.IfExp)):
                return
            if isinstance(e, ast.BoolOp):
                walk(e.values[0], lambda v: e.values.__setitem__(0, v))
                return
            hit = me._call_of(e)
            if hit is not None:
                call, name, is_meth = hit
                fn = me.helpers[name][1]
                b0 = _body(fn)
                if _as_expr(b0) is None and not any(_has(st, (ast.Yield, ast.YieldFrom)) for st in b0):
                    me.counter += 1
                    tmp = f"__h{me.counter}"
                    asg = ast.Assign(targets=[ast.Name(id=tmp, ctx=ast.Store())], value=e)
                    ast.copy_location(asg, s)
                    ast.fix_missing_locations(asg)
                    out.append(asg)
                    parent_setter(ast.copy_location(ast.Name(id=tmp, ctx=ast.Load()), e))
                    return
            for f_, v in ast.iter_fields(e):
                if isinstance(v, ast.AST):
                    walk(v, lambda nv, f_=f_: setattr(e, f_, nv))
                elif isinstance(v, list):
                    for i, it in enumerate(v):
                        if isinstance(it, ast.AST):
                            walk(it, lambda nv, v=v, i=i: v.__setitem__(i, nv))
        walk(root, lambda nv: setattr(s, fld, nv))
        return out

    def _inline_exprs(self, node: ast.AST) -> None:
        """Expression helpers (single ``return <expr>``) anywhere inside *node*."""
        me = self

        class E(ast.NodeTransformer):
            def visit_Call(self, n):
                n = self.generic_visit(n)
                hit = me._call_of(n)
                if hit is None:
                    return n
                call, name, is_meth = hit
                qn, fn, chain = me.helpers[name]
                b = _body(fn)
                if _as_expr(b) is not None:
                    body = me._instantiate(fn, call, is_meth)
                    if body is not None:
                        e = _as_expr(body)
                        if e is not None:
                            me.inlined_sites[name] = me.inlined_sites.get(name, 0) + 1
                            return ast.copy_location(e, n)
                return n

            def visit_Await(self, n):
                n = self.generic_visit(n)
                # await <expression helper of an async def> : keep the await only if something awaitable remains
                return n
        E().visit(node)

    def _walk_blocks(self, node: ast.AST) -> None:
        if isinstance(node, (ast.FunctionDef, ast.AsyncFunctionDef)):
            saved = getattr(self, "cur_names", set())
            saved_fn = getattr(self, "cur_fn", None)
            self.cur_fn = node
            self.cur_names = {x.id for x in ast.walk(node) if isinstance(x, ast.Name)} | {a.arg for a in ast.walk(node) if isinstance(a, ast.arg)}
            try:
                self._walk_blocks_inner(node)
                self._inline_exprs_in(node)
            finally:
                self.cur_names = saved
                self.cur_fn = saved_fn
            return
        self._walk_blocks_inner(node)

    def _inline_exprs_in(self, node: ast.AST) -> None:
        pass

    def _walk_blocks_inner(self, node: ast.AST) -> None:
        for fld in ("body", "orelse", "finalbody"):
            blk = getattr(node, fld, None)
            if isinstance(blk, list) and blk and isinstance(blk[0], ast.stmt):
                new = []
                skip_next = False
                for idx_, s in enumerate(blk):
                    if skip_next:
                        skip_next = False
                        continue
                    if isinstance(s, (ast.FunctionDef, ast.AsyncFunctionDef)) and s.name in self.helpers and self.helpers[s.name][1] is s:
                        new.append(s)       # the helper definition itself: handled later
                        continue
                    fl = self._flag_if(s, blk[idx_ + 1] if idx_ + 1 < len(blk) else None)
                    if fl is not None:
                        rep = self._splice_stmt(s, flag_if=fl)
                        if rep is not None:
                            nm = self._call_name(s)
                            self.inlined_sites[nm] = self.inlined_sites.get(nm, 0) + 1
                            for r in rep:
                                self._walk_blocks(r)
                            new.extend(rep)
                            skip_next = True
                            continue
                    pre = self._hoist(s)
                    if pre:
                        for h in pre:
                            rep_h = self._splice_stmt(h)
                            if rep_h is not None:
                                nm = self._call_name(h)
                                self.inlined_sites[nm] = self.inlined_sites.get(nm, 0) + 1
                                for r in rep_h:
                                    self._walk_blocks(r)
                                new.extend(rep_h)
                            else:
                                new.append(h)
                    rep = self._splice_stmt(s)
                    if rep is not None:
                        nm = self._call_name(s)
                        self.inlined_sites[nm] = self.inlined_sites.get(nm, 0) + 1
                        for r in rep:
                            self._walk_blocks(r)
                        new.extend(rep)
                    else:
                        self._walk_blocks(s)
                        new.append(s)
                setattr(node, fld, new)
        for h in getattr(node, "handlers", []) or []:
            self._walk_blocks(h)
        if isinstance(node, ast.Match) if hasattr(ast, "Match") else False:
            for c in node.cases:
                self._walk_blocks(c)

    def _call_name(self, s) -> str:
        for x in ast.walk(s):
            h = self._call_of(x) if isinstance(x, (ast.Call, ast.Await)) else None
            if h:
                return h[1]
        return "?"

    def _remaining_calls(self, name: str) -> int:
        n = 0
        for tree in self.trees.values():
            for x in ast.walk(tree):
                if isinstance(x, ast.Call):
                    f = x.func
                    if (isinstance(f, ast.Attribute) and f.attr == name) or (isinstance(f, ast.Name) and f.id == name):
                        n += 1
                elif isinstance(x, ast.Attribute) and x.attr == name and not isinstance(getattr(x, "ctx", None), ast.Store):
                    pass
        return n

    def run(self) -> Dict[str, str]:
        self.collect()
        report: Dict[str, str] = {}
        for qn, old_qn in self.renamed_back.items():
            report[qn] = f"a consistent rename of the reference function {old_qn}: analysed under the reference name"
        report.update({qn: "takes the place of a reference function that is gone (same scope, same parameters): a rename, left alone" for qn in self.renamed})
        if not self.helpers:
            return report
        for _ in range(3):
            for tree in self.trees.values():
                self._walk_blocks(tree)
                for qn, node, chain in qualnames(tree, "x"):
                    pass
                self._inline_exprs(tree)
        # drop helpers that are no longer called anywhere (references as values keep them); to a fixpoint: a helper that is only
        # referenced from another helper's (dropped) definition goes too
        dropped: Set[str] = set()
        for _round in range(4):
            before = len(dropped)
            self._drop_round(report, dropped)
            if len(dropped) == before:
                break
        for name, (qn, fn, chain) in self.helpers.items():
            if name in dropped:
                continue
            if self.inlined_sites.get(name):
                report[qn] = f"inlined at {self.inlined_sites[name]} site(s); still referenced elsewhere, kept"
            else:
                report[qn] = "not inlined (unsupported shape); analysed as a function of its own"
        return report

    def _drop_round(self, report: Dict[str, str], dropped: Set[str]) -> None:
        for name, (qn, fn, chain) in self.helpers.items():
            if name in dropped:
                continue
            refs = 0
            for tree in self.trees.values():
                for x in ast.walk(tree):
                    if isinstance(x, ast.Attribute) and x.attr == name:
                        refs += 1
                    elif isinstance(x, ast.Name) and x.id == name and isinstance(x.ctx, ast.Load):
                        refs += 1
            if refs == 0 and self.inlined_sites.get(name):
                owner = chain[-1] if chain else None
                for tree in self.trees.values():
                    for x in ast.walk(tree):
                        blk = getattr(x, "body", None)
                        if isinstance(blk, list) and fn in blk:
                            blk.remove(fn)
                            if not blk:
                                blk.append(ast.Pass())
                report[qn] = f"inlined at {self.inlined_sites[name]} site(s) and dropped"
                dropped.add(name)


def _fold_fstrings(tree: ast.AST) -> None:
    """f"{a}{'::'}"  ->  f"{a}::"  (a constant that was substituted into an f-string becomes part of its text)."""
    for n in ast.walk(tree):
        if isinstance(n, ast.JoinedStr):
            vals: List[ast.AST] = []
            for v in n.values:
                if isinstance(v, ast.FormattedValue) and isinstance(v.value, ast.Constant) and isinstance(v.value.value, str) and v.conversion == -1 and v.format_spec is None:
                    v = ast.Constant(value=v.value.value)
                if isinstance(v, ast.Constant) and isinstance(v.value, str) and vals and isinstance(vals[-1], ast.Constant) and isinstance(vals[-1].value, str):
                    vals[-1] = ast.Constant(value=vals[-1].value + v.value)
                else:
                    vals.append(v)
            n.values = vals


def propagate_new_constants(trees: Dict[str, ast.Module]) -> Dict[str, str]:
    """A module-level constant the reference tree does not have (``_TIMER_KEY_SEP = "::"`` introduced for a repeated literal) is
    replaced by its value wherever the module reads it: the rules see the literal they saw before."""
    if not os.path.exists(KNOWN_FILE):
        return {}
    with open(KNOWN_FILE) as fh:
        known_names = json.load(fh).get("module_names")
    if known_names is None:
        return {}
    report: Dict[str, str] = {}
    new_consts: Dict[str, Dict[str, ast.Constant]] = {}
    for mod, tree in trees.items():
        have = set(known_names.get(mod, []))
        counts: Dict[str, int] = {}
        for x in ast.walk(tree):
            if isinstance(x, ast.Name) and isinstance(x.ctx, (ast.Store, ast.Del)):
                counts[x.id] = counts.get(x.id, 0) + 1
        for st in tree.body:
            tg, val = None, None
            if isinstance(st, ast.Assign) and len(st.targets) == 1 and isinstance(st.targets[0], ast.Name):
                tg, val = st.targets[0].id, st.value
            elif isinstance(st, ast.AnnAssign) and isinstance(st.target, ast.Name) and st.value is not None:
                tg, val = st.target.id, st.value
            if tg is None or tg in have or counts.get(tg, 0) != 1:
                continue
            if isinstance(val, ast.Constant) and isinstance(val.value, (str, int, float, bool, type(None))):
                new_consts.setdefault(mod, {})[tg] = val
    if not new_consts:
        return report
    for mod, tree in trees.items():
        table = dict(new_consts.get(mod, {}))
        # names imported from a module that defines a new constant
        for st in tree.body:
            if isinstance(st, ast.ImportFrom) and st.module:
                src = st.module.split(".")[-1]
                for al in st.names:
                    for m2, t2 in new_consts.items():
                        if m2.split(".")[-1] == src and al.name in t2 and (al.asname or al.name) not in table:
                            table[al.asname or al.name] = t2[al.name]
        if not table:
            continue

        class C(ast.NodeTransformer):
            def visit_Name(self, n):
                if isinstance(n.ctx, ast.Load) and n.id in table:
                    return ast.copy_location(ast.Constant(value=table[n.id].value), n)
                return n
        shadow = set()      # a function that binds the same name locally keeps its own
        for fn in ast.walk(tree):
            if isinstance(fn, (ast.FunctionDef, ast.AsyncFunctionDef, ast.Lambda)):
                a = fn.args
                bound = {x.arg for x in a.posonlyargs + a.args + a.kwonlyargs} | ({a.vararg.arg} if a.vararg else set()) | ({a.kwarg.arg} if a.kwarg else set())
                if not isinstance(fn, ast.Lambda):
                    bound |= {x.id for x in ast.walk(fn) if isinstance(x, ast.Name) and isinstance(x.ctx, ast.Store)}
                shadow |= bound & set(table)
        for nm in shadow:
            table.pop(nm, None)
        if not table:
            continue
        C().visit(tree)
        _fold_fstrings(tree)
        for nm in table:
            report[f"{mod}:{nm}"] = f"new module-level constant: read as its value {table[nm].value!r}"
    return report


def ordered_locals(fn) -> List[str]:
    """Names bound in the function's own scope (not in nested functions, lambdas, comprehensions), in order of first binding."""
    found: List[Tuple[int, int, str]] = []
    stack = list(fn.body)
    while stack:
        x = stack.pop()
        if isinstance(x, (ast.FunctionDef, ast.AsyncFunctionDef, ast.ClassDef)):
            found.append((x.lineno, x.col_offset, x.name))
            continue
        if isinstance(x, (ast.Lambda, ast.ListComp, ast.SetComp, ast.DictComp, ast.GeneratorExp)):
            continue
        if isinstance(x, ast.Name) and isinstance(x.ctx, ast.Store):
            found.append((x.lineno, x.col_offset, x.id))
        if isinstance(x, ast.ExceptHandler) and x.name:
            found.append((x.lineno, x.col_offset, x.name))
        stack.extend(ast.iter_child_nodes(x))
    a = fn.args
    params = {y.arg for y in a.posonlyargs + a.args + a.kwonlyargs} | ({a.vararg.arg} if a.vararg else set()) | ({a.kwarg.arg} if a.kwarg else set())
    declared = {nm for y in ast.walk(fn) if isinstance(y, (ast.Global, ast.Nonlocal)) for nm in y.names}
    out: List[str] = []
    for _, _, nm in sorted(found):
        if nm not in out and nm not in params and nm not in declared:
            out.append(nm)
    return out


def undo_local_renames(trees: Dict[str, ast.Module]) -> Dict[str, str]:
    """A function of the reference tree whose locals, in order of first binding, differ from the reference only by their names
    (same number of locals, the new names unknown to the reference function, the old names no longer used in it) had locals
    renamed: the reference names are put back in the model, so a rule that knows a variable by its name still finds it."""
    if not os.path.exists(KNOWN_FILE):
        return {}
    with open(KNOWN_FILE) as fh:
        ref = json.load(fh).get("locals")
    if not ref:
        return {}
    report: Dict[str, str] = {}
    with open(KNOWN_FILE) as fh:
        ref_params = json.load(fh).get("params", {})
    # parameters first: same number, new names unknown to the reference function, old names unused in it
    for mod, tree in trees.items():
        qns = [q for q, _, _ in qualnames(tree, mod)]
        for qn, fn, chain in qualnames(tree, mod):
            wantp = ref_params.get(qn)
            if wantp is None or qns.count(qn) > 1:          # @overload stubs share a qualified name: nothing to compare with
                continue
            a_ = fn.args
            args_ = a_.posonlyargs + a_.args + a_.kwonlyargs
            havep = [x.arg for x in args_]
            if havep == wantp or len(havep) != len(wantp):
                continue
            pairs = [(h, w) for h, w in zip(havep, wantp) if h != w]
            used = {x.id for x in ast.walk(fn) if isinstance(x, ast.Name)} | set(havep)
            if not all(h not in wantp and w not in used for h, w in pairs):
                continue
            inner_clash = False
            for y in ast.walk(fn):
                if isinstance(y, (ast.FunctionDef, ast.AsyncFunctionDef, ast.Lambda)) and y is not fn:
                    ia = y.args
                    if {z.arg for z in ia.posonlyargs + ia.args + ia.kwonlyargs} & {h for h, _ in pairs}:
                        inner_clash = True
            if inner_clash:
                continue
            m = dict(pairs)
            for x in args_:
                if x.arg in m:
                    x.arg = m[x.arg]
            for y in ast.walk(fn):
                if isinstance(y, ast.Name) and y.id in m:
                    y.id = m[y.id]
            # call sites that pass the renamed parameter by keyword
            for t2 in trees.values():
                for c_ in ast.walk(t2):
                    if isinstance(c_, ast.Call):
                        callee = c_.func.attr if isinstance(c_.func, ast.Attribute) else (c_.func.id if isinstance(c_.func, ast.Name) else None)
                        if callee == fn.name:
                            for k in c_.keywords:
                                if k.arg in m:
                                    k.arg = m[k.arg]
            report[qn + "()"] = "parameters renamed (" + ", ".join(f"{h} -> {w}" for h, w in pairs) + "): analysed under the reference names"
    for mod, tree in trees.items():
        for qn, fn, chain in qualnames(tree, mod):
            want = ref.get(qn)
            if want is None:
                continue
            have = ordered_locals(fn)
            if have == want or len(have) != len(want):
                continue
            pairs = [(h, w) for h, w in zip(have, want) if h != w]
            used = {x.id for x in ast.walk(fn) if isinstance(x, ast.Name)} | {x.arg for x in ast.walk(fn) if isinstance(x, ast.arg)} | \
                   {x.name for x in ast.walk(fn) if isinstance(x, (ast.FunctionDef, ast.AsyncFunctionDef, ast.ClassDef)) and x is not fn}
            ok = all(h not in want and w not in used for h, w in pairs) and len({h for h, _ in pairs}) == len(pairs) == len({w for _, w in pairs})
            # a nested function that re-binds one of the names as its own local / parameter keeps it
            if ok:
                for y in ast.walk(fn):
                    if isinstance(y, (ast.FunctionDef, ast.AsyncFunctionDef, ast.Lambda)) and y is not fn:
                        a = y.args
                        inner = {z.arg for z in a.posonlyargs + a.args + a.kwonlyargs}
                        if not isinstance(y, ast.Lambda):
                            inner |= set(ordered_locals(y))
                        if inner & {h for h, _ in pairs}:
                            ok = False
            if not ok:
                continue
            m = dict(pairs)
            for y in ast.walk(fn):
                if isinstance(y, ast.Name) and y.id in m:
                    y.id = m[y.id]
                elif isinstance(y, ast.ExceptHandler) and y.name in m:
                    y.name = m[y.name]
                elif isinstance(y, (ast.FunctionDef, ast.AsyncFunctionDef, ast.ClassDef)) and y is not fn and y.name in m:
                    y.name = m[y.name]
            report[qn] = "locals renamed (" + ", ".join(f"{h} -> {w}" for h, w in pairs) + "): analysed under the reference names"
    return report


_PURE_CALLS = ("len", "str", "bool", "isinstance", "callable", "any", "all", "startswith", "endswith", "get", "isawaitable", "iscoroutine", "tuple",
               "frozenset", "getattr", "hasattr", "id")


def _pure_expr(v: ast.AST) -> bool:
    for y in ast.walk(v):
        if isinstance(y, ast.Call):
            fn = y.func
            nm = fn.id if isinstance(fn, ast.Name) else (fn.attr if isinstance(fn, ast.Attribute) else "")
            if nm not in _PURE_CALLS:
                return False
        if isinstance(y, (ast.Await, ast.Yield, ast.YieldFrom, ast.Lambda, ast.NamedExpr)):
            return False
    return True


def _leftmost_name(e: ast.AST) -> Optional[ast.Name]:
    """The name that is evaluated first in a condition: X, not X, X and .., (not X) or .."""
    while True:
        if isinstance(e, ast.UnaryOp) and isinstance(e.op, ast.Not):
            e = e.operand
        elif isinstance(e, ast.BoolOp):
            e = e.values[0]
        else:
            break
    return e if isinstance(e, ast.Name) else None


def _push_not(e: ast.AST, negate: bool = False) -> ast.AST:
    """Negation normal form of a condition (valid where only the truth value matters)."""
    if isinstance(e, ast.UnaryOp) and isinstance(e.op, ast.Not):
        return _push_not(e.operand, not negate)
    if isinstance(e, ast.BoolOp):
        op = e.op
        if negate:
            op = ast.Or() if isinstance(e.op, ast.And) else ast.And()
        return ast.copy_location(ast.BoolOp(op=op, values=[_push_not(v, negate) for v in e.values]), e)
    if negate:
        if isinstance(e, ast.Compare) and len(e.ops) == 1:
            flip = {ast.In: ast.NotIn, ast.NotIn: ast.In, ast.Eq: ast.NotEq, ast.NotEq: ast.Eq, ast.Is: ast.IsNot, ast.IsNot: ast.Is}
            if type(e.ops[0]) in flip:
                return ast.copy_location(ast.Compare(left=e.left, ops=[flip[type(e.ops[0])]()], comparators=e.comparators), e)
        return ast.copy_location(ast.UnaryOp(op=ast.Not(), operand=e), e)
    return e


def normalise_conditions(trees: Dict[str, ast.Module]) -> Dict[str, str]:
    """Two spellings of conditions are undone in the model, so that every rule reads the condition where it is tested:
      * ``cond = <test>`` immediately followed by ``if cond:`` (the name used nowhere else) - the test is put back in place; likewise a
        named sub-condition folded into the assignment that follows it;
      * ``not (not a or not b)`` - negations are pushed inward in the tests of ``if`` / ``while`` / conditional expressions / filters
        (only a *double* negation or a negated and / or is rewritten: ``not x == y`` stays as written)."""
    n_fold = n_nnf = 0
    for tree in trees.values():
        for fn in [x for x in ast.walk(tree) if isinstance(x, (ast.FunctionDef, ast.AsyncFunctionDef))]:
            changed = True
            while changed:
                changed = False
                counts: Dict[str, int] = {}
                stores: Dict[str, int] = {}
                for x in ast.walk(fn):
                    if isinstance(x, ast.Name):
                        if isinstance(x.ctx, ast.Load):
                            counts[x.id] = counts.get(x.id, 0) + 1
                        else:
                            stores[x.id] = stores.get(x.id, 0) + 1
                for owner in ast.walk(fn):
                    for fld in ("body", "orelse", "finalbody"):
                        blk = getattr(owner, fld, None)
                        if not (isinstance(blk, list) and len(blk) >= 2 and isinstance(blk[0], ast.stmt)):
                            continue
                        for i in range(len(blk) - 1):
                            a, b = blk[i], blk[i + 1]
                            if not (isinstance(a, ast.Assign) and len(a.targets) == 1 and isinstance(a.targets[0], ast.Name)):
                                continue
                            nm = a.targets[0].id
                            if counts.get(nm, 0) != 1 or stores.get(nm, 0) != 1:
                                continue
                            if isinstance(b, ast.If):
                                host, fldn = b, "test"
                            elif isinstance(b, ast.Assign) and len(b.targets) == 1 and isinstance(b.targets[0], ast.Name) and isinstance(b.value, (ast.BoolOp, ast.UnaryOp)):
                                host, fldn = b, "value"
                            else:
                                continue
                            expr = getattr(host, fldn)
                            uses = [y for y in ast.walk(expr) if isinstance(y, ast.Name) and y.id == nm and isinstance(y.ctx, ast.Load)]
                            if len(uses) != 1 or not isinstance(a.value, (ast.Compare, ast.BoolOp, ast.UnaryOp, ast.Call, ast.Attribute, ast.Name, ast.Constant)):
                                continue
                            if fldn == "value" and not isinstance(a.value, (ast.Compare, ast.BoolOp, ast.UnaryOp, ast.Call)):
                                continue
                            lm = _leftmost_name(expr)
                            if not (_pure_expr(a.value) or (lm is not None and lm is uses[0])):
                                continue
                            if any(isinstance(y, (ast.Lambda, ast.ListComp, ast.SetComp, ast.DictComp, ast.GeneratorExp)) and any(z is uses[0] for z in ast.walk(y)) for y in ast.walk(expr)):
                                continue

                            class R(ast.NodeTransformer):
                                def visit_Name(self, x):
                                    return a.value if x is uses[0] else x
                            setattr(host, fldn, R().visit(expr))
                            del blk[i]
                            n_fold += 1
                            changed = True
                            break
                        if changed:
                            break
                    if changed:
                        break
        for x in ast.walk(tree):
            tests = []
            if isinstance(x, (ast.If, ast.While, ast.IfExp)):
                tests.append((x, "test"))
            if isinstance(x, ast.comprehension):
                for k in range(len(x.ifs)):
                    tests.append((x.ifs, k))
            for holder, key in tests:
                t = getattr(holder, key) if isinstance(key, str) else holder[key]
                needs = any(isinstance(y, ast.UnaryOp) and isinstance(y.op, ast.Not) and isinstance(y.operand, (ast.BoolOp, ast.UnaryOp)) for y in ast.walk(t)
                            if not isinstance(y, (ast.Lambda,)))
                if not needs:
                    continue
                t2 = _push_not(t)
                if isinstance(key, str):
                    setattr(holder, key, t2)
                else:
                    holder[key] = t2
                n_nnf += 1
    # a literal that was given a local name (wildcard = "*"; prefixes = ("done.", "error.")) is read as the literal
    n_const = 0
    known_loc = {}
    if os.path.exists(KNOWN_FILE):
        with open(KNOWN_FILE) as fh_:
            known_loc = json.load(fh_).get("locals", {})
    for mod_, tree in trees.items():
        for qn, fn, chain in qualnames(tree, mod_):
            ref_locals = set(known_loc.get(qn, []))
            stores = {}
            for x in ast.walk(fn):
                if isinstance(x, ast.Name) and isinstance(x.ctx, (ast.Store, ast.Del)):
                    stores[x.id] = stores.get(x.id, 0) + 1
            for owner in ast.walk(fn):
                for fld in ("body", "orelse", "finalbody"):
                    blk = getattr(owner, fld, None)
                    if not (isinstance(blk, list) and blk and isinstance(blk[0], ast.stmt)):
                        continue
                    for a in list(blk):
                        if not (isinstance(a, ast.Assign) and len(a.targets) == 1 and isinstance(a.targets[0], ast.Name)):
                            continue
                        nm, v = a.targets[0].id, a.value
                        lit = isinstance(v, ast.Constant) and isinstance(v.value, (str, int, float)) and not isinstance(v.value, bool) or \
                            (isinstance(v, ast.Tuple) and v.elts and all(isinstance(e, ast.Constant) and isinstance(e.value, str) for e in v.elts))
                        if not lit or stores.get(nm, 0) != 1 or nm in ref_locals:
                            continue          # (names the reference function already has keep their meaning for the rules)

                        class K(ast.NodeTransformer):
                            def visit_Name(self, x):
                                return copy.deepcopy(v) if x.id == nm and isinstance(x.ctx, ast.Load) else x
                        fn.body = [K().visit(st) if st is not a else st for st in fn.body]
                        blk2 = getattr(owner, fld)
                        if a in blk2:
                            blk2.remove(a)
                            if not blk2:
                                blk2.append(ast.Pass())
                        n_const += 1
        _fold_fstrings(tree)
    # the inliner's own temporaries assigned in both branches of an if / else:  if c: __h = A  else: __h = B   ->   __h = A if c else B
    for tree in trees.values():
        for owner in ast.walk(tree):
            for fld in ("body", "orelse", "finalbody"):
                blk = getattr(owner, fld, None)
                if not (isinstance(blk, list) and blk and isinstance(blk[0], ast.stmt)):
                    continue
                for i, st in enumerate(blk):
                    if isinstance(st, ast.If) and len(st.body) == 1 and len(st.orelse) == 1 and all(
                            isinstance(b_, ast.Assign) and len(b_.targets) == 1 and isinstance(b_.targets[0], ast.Name) for b_ in (st.body[0], st.orelse[0])) \
                            and st.body[0].targets[0].id == st.orelse[0].targets[0].id and st.body[0].targets[0].id.startswith("__h"):
                        new_ = ast.Assign(targets=[st.body[0].targets[0]], value=ast.IfExp(test=st.test, body=st.body[0].value, orelse=st.orelse[0].value))
                        blk[i] = ast.fix_missing_locations(ast.copy_location(new_, st))
    # a sort key (or any small function) that was given a name:  by_depth = lambda s: (s.depth, s.id) ... sorted(x, key=by_depth)
    n_lam = 0
    known_ = load_known() or set()
    for mod_, tree in trees.items():
        ref_defs = {id(node) for qn, node, chain in qualnames(tree, mod_) if qn in known_}
        for fn in [x for x in ast.walk(tree) if isinstance(x, (ast.FunctionDef, ast.AsyncFunctionDef))]:
            for owner in ast.walk(fn):
                for fld in ("body", "orelse", "finalbody"):
                    blk = getattr(owner, fld, None)
                    if not (isinstance(blk, list) and blk and isinstance(blk[0], ast.stmt)):
                        continue
                    for a in list(blk):
                        if isinstance(a, ast.FunctionDef) and a is not fn and id(a) not in ref_defs and not a.decorator_list and not a.args.vararg and not a.args.kwarg and not a.args.defaults \
                                and not a.args.kw_defaults and len(_body(a)) == 1 and isinstance(_body(a)[0], ast.Return) and _body(a)[0].value is not None:
                            # def by_depth(s): return (s.depth, s.id)   - a lambda with a name
                            nm = a.name
                            if any(isinstance(y, ast.Name) and y.id == nm and not isinstance(y.ctx, ast.Load) for y in ast.walk(fn)):
                                continue
                            lam = ast.Lambda(args=ast.arguments(posonlyargs=[], args=[ast.arg(arg=z.arg) for z in a.args.posonlyargs + a.args.args], kwonlyargs=[],
                                                                kw_defaults=[], defaults=[]), body=_body(a)[0].value)
                            ast.copy_location(lam, a)
                            ast.fix_missing_locations(lam)
                        elif isinstance(a, ast.Assign) and len(a.targets) == 1 and isinstance(a.targets[0], ast.Name) and isinstance(a.value, ast.Lambda):
                            nm = a.targets[0].id
                            occ = [y for y in ast.walk(fn) if isinstance(y, ast.Name) and y.id == nm]
                            if sum(1 for y in occ if not isinstance(y.ctx, ast.Load)) != 1:
                                continue
                            lam = a.value
                        else:
                            continue
                        lp = {z.arg for z in lam.args.posonlyargs + lam.args.args + lam.args.kwonlyargs}
                        free = {y.id for y in ast.walk(lam.body) if isinstance(y, ast.Name)} - lp
                        if free - {"self", "len", "str", "int", "tuple"}:
                            continue          # closes over something that may change between definition and use

                        class L(ast.NodeTransformer):
                            def visit_Name(self, x):
                                return copy.deepcopy(lam) if x.id == nm and isinstance(x.ctx, ast.Load) else x
                        for st in ast.walk(fn):
                            pass
                        for fld2 in ("body",):
                            fn.body = [L().visit(st) if st is not a else st for st in fn.body]
                        blk2 = getattr(owner, fld)
                        if a in blk2:
                            blk2.remove(a)
                            if not blk2:
                                blk2.append(ast.Pass())
                        n_lam += 1
    out = {}
    if n_const:
        out["<literals>"] = f"{n_const} literal(s) that were given a local name read in place"
    if n_lam:
        out["<lambdas>"] = f"{n_lam} named lambda(s) read where they are used"
    if n_fold:
        out["<conditions>"] = f"{n_fold} named condition(s) that were tested in the very next statement read in place"
    if n_nnf:
        out["<negations>"] = f"{n_nnf} negated and / or test(s) read with the negation pushed inward"
    return out


def beta_reduce(trees: Dict[str, ast.Module]) -> Dict[str, str]:
    """``(lambda: E)()`` -> ``E``: what is left when a helper that takes a zero-argument callable (``_run_guarded(step)``) was inlined at a
    site that passed a lambda.  Only parameterless lambdas called without arguments - nothing to bind, evaluated exactly once, in place."""
    n = 0

    class B(ast.NodeTransformer):
        def visit_Call(self, node):
            nonlocal n
            node = self.generic_visit(node)
            f = node.func
            if isinstance(f, ast.Lambda) and not node.args and not node.keywords:
                a = f.args
                if not (a.args or a.posonlyargs or a.kwonlyargs or a.vararg or a.kwarg):
                    n += 1
                    return ast.copy_location(f.body, node)
            return node
    for tree in trees.values():
        B().visit(tree)
        ast.fix_missing_locations(tree)
    return {"<lambdas-called>": f"{n} parameterless lambda(s) called on the spot read as their body"} if n else {}


def inline_new_helpers(trees: Dict[str, ast.Module]) -> Dict[str, str]:
    known = load_known()
    if known is None:
        return {}
    report = undo_local_renames(trees) if not os.environ.get("XSM_NO_LOCAL_RENAME") else {}
    from .localnames import name_locals
    report.update(name_locals(trees))
    report.update(propagate_new_constants(trees))
    report.update(Inliner(trees, known).run())
    report.update(beta_reduce(trees))
    if not os.environ.get("XSM_NO_COND_NORMALISE"):
        report.update(normalise_conditions(trees))
    return report
