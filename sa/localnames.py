"""Semantic names for locals the rules talk about.

A handful of rules follow one particular local variable of the engine (the decoded snapshot in ``from_snapshot``, the child
interpreter a spawn routine builds, the raise-chain limit of the drain loop ...).  They know it by the name it has in the reference
tree.  This pass recognises each such variable by *what it holds* - the expression it is bound to - and gives it its reference
name in the model, so that renaming it (alone or together with other changes, which ``undo_local_renames`` cannot undo) changes
nothing for the rules.  A function in which the pattern matches no variable, or more than one, or in which the reference name is
already used for something else, is left as it is.
"""
from __future__ import annotations

import ast
from typing import Callable, Dict, List, Optional, Tuple

ENGINE = ("base_interpreter", "interpreter", "sync_interpreter", "helpers", "logic_loader", "models")


def _assigned(fn, pred: Callable[[ast.AST], bool]) -> List[str]:
    out = []
    for x in _own(fn):
        tg, val = None, None
        if isinstance(x, ast.Assign) and len(x.targets) == 1 and isinstance(x.targets[0], ast.Name):
            tg, val = x.targets[0].id, x.value
        elif isinstance(x, ast.AnnAssign) and isinstance(x.target, ast.Name) and x.value is not None:
            tg, val = x.target.id, x.value
        elif isinstance(x, ast.Assign) and len(x.targets) == 1 and isinstance(x.targets[0], ast.Tuple) and x.targets[0].elts and isinstance(x.targets[0].elts[0], ast.Name):
            tg, val = x.targets[0].elts[0].id, x.value          # probe, recorded = _build_probe(...): the first result
        if tg is not None and pred(val) and tg not in out:
            out.append(tg)
    return out


def _loop_target(fn, pred_iter: Callable[[ast.AST], bool], index: Optional[int] = None) -> List[str]:
    out = []
    for x in _own(fn):
        if isinstance(x, (ast.For, ast.AsyncFor)) and pred_iter(x.iter):
            t = x.target
            if index is None and isinstance(t, ast.Name):
                nm = t.id
            elif index is not None and isinstance(t, ast.Tuple) and len(t.elts) > index and isinstance(t.elts[index], ast.Name):
                nm = t.elts[index].id
            else:
                continue
            if nm not in out:
                out.append(nm)
    return out


def _own(fn):
    stack = list(fn.body)
    while stack:
        x = stack.pop()
        if isinstance(x, (ast.FunctionDef, ast.AsyncFunctionDef, ast.ClassDef, ast.Lambda)):
            continue
        yield x
        stack.extend(ast.iter_child_nodes(x))


def _u(e) -> str:
    return ast.unparse(e)


def _is_call_of(e, *names) -> bool:
    return isinstance(e, ast.Call) and _u(e.func) in names


def _constructs_interpreter(e) -> bool:
    if not isinstance(e, ast.Call):
        return False
    f = _u(e.func)
    return f in ("Interpreter", "SyncInterpreter", "type(self)", "self.__class__", "cls") or f.endswith(("Interpreter",))


# (function name, reference name, finder, acceptable names: if the variable already has one of these nothing is done)
TABLE: List[Tuple[str, str, Callable, Tuple[str, ...]]] = [
    ("from_snapshot", "snapshot", lambda fn: _assigned(fn, lambda v: _is_call_of(v, "json.loads")), ("snapshot",)),
    ("from_snapshot", "interpreter", lambda fn: _assigned(fn, lambda v: _is_call_of(v, "cls")), ("interpreter",)),
    ("from_snapshot", "record", lambda fn: _loop_target(fn, lambda it: "'actors'" in _u(it).replace('"', "'"), 1), ("record",)),
    ("from_snapshot", "child", lambda fn: _assigned(fn, lambda v: _is_call_of(v, "cls.from_snapshot")), ("child",)),
    ("*", "limit", lambda fn: _assigned(fn, lambda v: _is_call_of(v, "getattr") and len(v.args) >= 2 and "max_iterations" in _u(v.args[1])), ("limit",)),
    ("stop", "actor", lambda fn: _loop_target(fn, lambda it: "self._actors.values()" in _u(it)) or _loop_target(fn, lambda it: "self._actors.items()" in _u(it), 1),
     ("actor", "child")),
    ("*", "actor", lambda fn: _assigned(fn, lambda v: _is_call_of(v, "self._resolve_actor_target")), ("actor",)),
    ("*", "registry", lambda fn: _assigned(fn, lambda v: _is_call_of(v, "self._system_registry")), ("registry",)),
    ("*", "probe", lambda fn: _assigned(fn, lambda v: _is_call_of(v, "_Probe", "_build_probe")), ("probe",)),
    ("_extract_logic_from_node", "invoke_def", lambda fn: _loop_target(fn, lambda it: _u(it).endswith(".invoke")), ("invoke_def",)),
    ("_parse_initial", "candidates", lambda fn: _assigned(fn, lambda v: isinstance(v, ast.ListComp) and "states" in _u(v)), ("candidates",)),
    ("_parse_after", "delay", lambda fn: _loop_target(fn, lambda it: _u(it).endswith(".items()") and "after" in _u(it), 0), ("delay",)),
    ("_spawn_actor", "child", lambda fn: _assigned(fn, _constructs_interpreter), ("child", "child_interpreter")),
    ("_spawn_and_manage_actor", "child_interpreter", lambda fn: _assigned(fn, _constructs_interpreter), ("child", "child_interpreter")),
    ("_spawn_actor", "actor_id", lambda fn: _assigned(fn, lambda v: "uuid" in _u(v)), ("actor_id",)),
    ("_spawn_and_manage_actor", "actor_id", lambda fn: _assigned(fn, lambda v: "uuid" in _u(v)), ("actor_id",)),
]


def name_locals(trees: Dict[str, ast.Module]) -> Dict[str, str]:
    report: Dict[str, str] = {}
    for mod, tree in trees.items():
        if mod not in ENGINE:
            continue
        for fn in ast.walk(tree):
            if not isinstance(fn, (ast.FunctionDef, ast.AsyncFunctionDef)):
                continue
            for fname, ref, finder, fine in TABLE:
                if fname != "*" and fn.name != fname:
                    continue
                found = finder(fn)
                if len(found) != 1 or found[0] in fine:
                    continue
                cur = found[0]
                used = {x.id for x in ast.walk(fn) if isinstance(x, ast.Name)} | {x.arg for x in ast.walk(fn) if isinstance(x, ast.arg)}
                if ref in used:
                    continue
                for x in ast.walk(fn):
                    if isinstance(x, ast.Name) and x.id == cur:
                        x.id = ref
                report[f"{mod}:{fn.name}:{cur}"] = f"local '{cur}' holds what the reference tree calls '{ref}': analysed under that name"
    return report
