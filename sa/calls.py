"""Per-view callee resolution and call graph.

A *view* is the concrete interpreter class a query is about ("Interpreter",
"SyncInterpreter", "_Probe").  ``self.m(...)`` inside any method of the
interpreter hierarchy resolves through the MRO of the view.  Functions outside
the hierarchy are analysed view-independently.

Call-site classification:
  resolved   -> list of FuncInfo targets
  dynamic    -> callee is a local variable / parameter / subscript result: a call
                into a value the program computed (user code, closures)
  external   -> builtins, stdlib, methods on values of unknown type
"""
from __future__ import annotations

import ast
import builtins
from typing import Dict, Iterable, Iterator, List, Optional, Set, Tuple

from .program import AnalysisError, ClassInfo, FuncInfo, Program, dotted, own_nodes

BUILTINS = set(dir(builtins))

# Receivers whose static type is known from annotations / construction sites in
# the repo.  value: class name, or "@view" for "an interpreter of the same kind
# as the view" (children are created with the view's own class).
ATTR_TYPES = {
    "self.task_manager": "TaskManager",
    "self.parent": "@view",
    "self.machine.logic": "MachineLogic",
}
# local variable names that always hold an interpreter in the engine files
# (confirmed by reading every assignment of these names).
INTERPRETER_LOCALS = {"actor", "child", "child_interpreter", "interpreter", "probe",
                      "restored_actor", "root", "candidate"}
ENGINE_MODULES = ("base_interpreter", "interpreter", "sync_interpreter", "helpers", "task_manager")


class CallSite:
    __slots__ = ("call", "func", "kind", "targets", "callee_text", "recv")

    def __init__(self, call: ast.Call, func: FuncInfo, kind: str, targets: List[FuncInfo], callee_text: str):
        self.call = call
        self.func = func
        self.kind = kind          # resolved | dynamic | external
        self.targets = targets
        self.callee_text = callee_text
        fn = call.func
        if isinstance(fn, ast.Attribute):
            rt = dotted(fn.value)
            self.recv = "self" if rt in ("self", "cls") or (isinstance(fn.value, ast.Call) and dotted(fn.value.func) == "super") else "other"
        else:
            self.recv = "name"

    @property
    def line(self) -> int:
        return self.call.lineno


class Resolver:
    def __init__(self, program: Program):
        self.p = program
        self._cache: Dict[Tuple[str, Optional[str]], List[CallSite]] = {}

    # ------------------------------------------------------------ utilities
    def view_class(self, view: Optional[str]) -> Optional[ClassInfo]:
        return self.p.cls(view) if view else None

    def effective_class(self, func: FuncInfo, view: Optional[str]) -> Optional[ClassInfo]:
        """Class that ``self`` denotes in *func* under *view*."""
        sc = func.self_class
        if sc is None:
            return None
        if view:
            vc = self.p.cls(view)
            if any(c.qualname == sc.qualname for c in vc.mro()):
                return vc
        return sc

    def _local_names(self, func: FuncInfo) -> Set[str]:
        names: Set[str] = set(func.params)
        for n in own_nodes(func.node):
            if isinstance(n, ast.Name) and isinstance(n.ctx, ast.Store):
                names.add(n.id)
            elif isinstance(n, ast.arg):
                names.add(n.arg)
        return names

    def _lookup_name(self, name: str, func: FuncInfo) -> Optional[object]:
        """Lexical lookup of a bare name: nested function/class in the enclosing
        function chain, then module level, then intra-package import."""
        f: Optional[FuncInfo] = func
        while f is not None:
            if name in f.nested:
                return f.nested[name]
            if name in f.nested_classes:
                return f.nested_classes[name]
            f = f.parent
        m = func.module
        if name in m.functions:
            return m.functions[name]
        if name in m.classes:
            return m.classes[name]
        imp = m.imports.get(name)
        if imp and imp[0] is not None and imp[0] in self.p.modules:
            tm = self.p.modules[imp[0]]
            sym = imp[1] or name
            if sym in tm.functions:
                return tm.functions[sym]
            if sym in tm.classes:
                return tm.classes[sym]
            # re-export through __init__
            imp2 = tm.imports.get(sym)
            if imp2 and imp2[0] in self.p.modules:
                tm2 = self.p.modules[imp2[0]]
                return tm2.functions.get(imp2[1] or sym) or tm2.classes.get(imp2[1] or sym)
        return None

    def _ctor(self, c: ClassInfo) -> List[FuncInfo]:
        init = c.find_method("__init__")
        return [init] if init else []

    # --------------------------------------------------------------- resolve
    def resolve(self, call: ast.Call, func: FuncInfo, view: Optional[str]) -> CallSite:
        fn = call.func
        text = dotted(fn) or ast.unparse(fn)
        eff = self.effective_class(func, view)

        def site(kind, targets=()):
            return CallSite(call, func, kind, list(targets), text)

        # super().m(...)
        if isinstance(fn, ast.Attribute) and isinstance(fn.value, ast.Call) and \
                isinstance(fn.value.func, ast.Name) and fn.value.func.id == "super":
            sc = func.self_class
            if sc is not None:
                mro = sc.mro()
                for c in mro[1:]:
                    if fn.attr in c.methods:
                        return site("resolved", [c.methods[fn.attr]])
            return site("external")

        if isinstance(fn, ast.Name):
            name = fn.id
            hit = self._lookup_name(name, func)
            if isinstance(hit, FuncInfo):
                return site("resolved", [hit])
            if isinstance(hit, ClassInfo):
                return site("resolved", self._ctor(hit))
            if name == "cls" and func.is_classmethod and eff is not None:
                return site("resolved", self._ctor(eff))
            if name in self._local_names(func.outermost) or name in self._local_names(func):
                return site("dynamic")
            if name in BUILTINS:
                return site("external")
            if name in func.module.imports:
                return site("external")
            return site("dynamic")

        if isinstance(fn, ast.Attribute):
            recv = fn.value
            rtext = dotted(recv)
            attr = fn.attr
            if rtext == "self" and eff is not None and not func.outermost.is_static:
                m = eff.find_method(attr)
                if m is not None:
                    return site("resolved", [m])
                return site("external")     # attribute holding a callable, e.g. container methods handled below
            if rtext == "cls" and func.outermost.is_classmethod and eff is not None:
                m = eff.find_method(attr)
                if m is not None:
                    return site("resolved", [m])
            # module_alias.function(...)   (from . import emit  /  from .. import actions)
            if isinstance(recv, ast.Name):
                imp = func.module.imports.get(recv.id)
                if imp and imp[0] is not None:
                    cand = f"{imp[0]}.{imp[1]}" if imp[0] and imp[1] else (imp[1] or imp[0])
                    tm = self.p.modules.get(cand)
                    if tm is not None:
                        if attr in tm.functions:
                            return site("resolved", [tm.functions[attr]])
                        if attr in tm.classes:
                            return site("resolved", self._ctor(tm.classes[attr]))
            # ClassName.method(...)
            if isinstance(recv, ast.Name):
                hit = self._lookup_name(recv.id, func)
                if isinstance(hit, ClassInfo):
                    m = hit.find_method(attr)
                    if m is not None:
                        return site("resolved", [m])
            if isinstance(recv, ast.Attribute) and isinstance(recv.value, ast.Name):
                hit = self._lookup_name(recv.value.id, func)
                if isinstance(hit, ClassInfo) and recv.attr in hit.methods:
                    # SyncInterpreter._walk_tree(child) style
                    pass
            # typed attribute receivers
            if rtext in ATTR_TYPES:
                tname = ATTR_TYPES[rtext]
                tc = eff if tname == "@view" else self.p.find_class(tname)
                if tc is not None:
                    m = tc.find_method(attr)
                    if m is not None:
                        return site("resolved", [m])
            # locals that hold interpreters (engine files only)
            if isinstance(recv, ast.Name) and recv.id in INTERPRETER_LOCALS and \
                    func.module.name in ENGINE_MODULES:
                vc = self.view_class(view) or eff
                if vc is not None and vc.is_subclass_of("BaseInterpreter"):
                    m = vc.find_method(attr)
                    if m is not None:
                        return site("resolved", [m])
            return site("external")

        # call of a call result / subscript / lambda ...
        return site("dynamic")

    # ----------------------------------------------------------- call sites
    def callsites(self, func: FuncInfo, view: Optional[str]) -> List[CallSite]:
        key = (func.qualname, view if func.self_class is not None else None)
        if key not in self._cache:
            out = []
            for n in own_nodes(func.node):
                if isinstance(n, ast.Call):
                    out.append(self.resolve(n, func, view))
            out.sort(key=lambda s: (s.call.lineno, s.call.col_offset))
            self._cache[key] = out
        return self._cache[key]

    def callees(self, func: FuncInfo, view: Optional[str], include_closures: bool = True) -> List[FuncInfo]:
        """Resolved callees; closures *defined* in func are included as
        potential callees when ``include_closures`` (they are created here and
        run later: thread targets, task bodies, returned cancellers)."""
        out: List[FuncInfo] = []
        seen = set()
        for s in self.callsites(func, view):
            for t in s.targets:
                if t.qualname not in seen:
                    seen.add(t.qualname)
                    out.append(t)
        if include_closures:
            for t in func.nested.values():
                if t.qualname not in seen:
                    seen.add(t.qualname)
                    out.append(t)
        return out

    def closure(self, roots: Iterable[FuncInfo], view: Optional[str],
                stop: Optional[Set[str]] = None, include_closures: bool = True,
                max_nodes: int = 5000) -> Dict[str, Tuple[FuncInfo, Optional[str]]]:
        """Transitive callees. Returns qualname -> (func, parent qualname) so a
        path back to a root can be printed.  ``stop`` = qualnames not expanded."""
        stop = stop or set()
        out: Dict[str, Tuple[FuncInfo, Optional[str]]] = {}
        work: List[Tuple[FuncInfo, Optional[str]]] = [(r, None) for r in roots]
        while work:
            f, par = work.pop(0)
            if f.qualname in out:
                continue
            out[f.qualname] = (f, par)
            if len(out) > max_nodes:
                raise AnalysisError("call-graph closure exploded")
            if f.qualname in stop:
                continue
            for t in self.callees(f, view, include_closures):
                if t.qualname not in out:
                    work.append((t, f.qualname))
        return out

    def self_closure(self, roots: Iterable[FuncInfo], view: Optional[str]) -> Dict[str, FuncInfo]:
        """Functions reachable through calls on the *same object* only (``self.m()``,
        ``super().m()``, and closures / module functions called by bare name)."""
        out: Dict[str, FuncInfo] = {}
        work = list(roots)
        while work:
            f = work.pop()
            if f.qualname in out:
                continue
            out[f.qualname] = f
            for s in self.callsites(f, view):
                if s.recv in ("self", "name"):
                    for t in s.targets:
                        if t.qualname not in out and t.name != "__init__":
                            work.append(t)
            for t in f.nested.values():
                if t.qualname not in out:
                    work.append(t)
        return out

    @staticmethod
    def path_to(closure: Dict[str, Tuple[FuncInfo, Optional[str]]], qualname: str) -> List[str]:
        path = []
        cur: Optional[str] = qualname
        while cur is not None:
            path.append(cur)
            cur = closure[cur][1]
        return list(reversed(path))

    def callers_of(self, target: FuncInfo, view: Optional[str],
                   scope: Optional[Iterable[FuncInfo]] = None) -> List[CallSite]:
        out = []
        for f in (scope if scope is not None else self.p.all_funcs):
            for s in self.callsites(f, view):
                if any(t.qualname == target.qualname for t in s.targets):
                    out.append(s)
        return out

    def calls_named(self, func: FuncInfo, view: Optional[str], method: str) -> List[CallSite]:
        """Call sites in *func* whose callee is ``<anything>.method`` or bare ``method``."""
        out = []
        for s in self.callsites(func, view):
            fn = s.call.func
            if (isinstance(fn, ast.Attribute) and fn.attr == method) or \
                    (isinstance(fn, ast.Name) and fn.id == method):
                out.append(s)
        return out
