"""Obligation bookkeeping, known-findings matching, evidence and exit codes."""
from __future__ import annotations

import hashlib
import json
import os
import re
import sys
import time
from typing import Any, Dict, List, Optional

from .program import AnalysisError, FuncInfo, Program

VERIF = os.path.dirname(os.path.dirname(os.path.abspath(__file__)))
KNOWN_FILE = os.path.join(VERIF, "known_findings.json")


class Finding:
    def __init__(self, prop: str, rule: str, where: str, construct: str, message: str,
                 file: str = "", line: int = 0, path: Optional[List[str]] = None):
        self.prop = prop
        self.rule = rule
        self.where = where            # Class.function (short qualname), stable under line moves
        self.construct = construct    # rule-chosen stable descriptor of the offending construct
        self.message = message
        self.file = file
        self.line = line
        self.path = path or []

    @property
    def key(self) -> str:
        return f"{self.rule}|{self.where}|{self.construct}"

    def to_json(self) -> Dict[str, Any]:
        return {"property": self.prop, "rule": self.rule, "where": self.where,
                "construct": self.construct, "key": self.key, "message": self.message,
                "file": self.file, "line": self.line, "path": self.path}


class Check:
    """One property check run.  Rules call ``ob()`` for every evaluated rule
    instance; a failing obligation becomes a finding."""

    def __init__(self, prop: str, tier: str, program: Program):
        self.prop = prop
        self.tier = tier
        self.program = program
        self.t0 = time.time()
        self.obligations: List[Dict[str, Any]] = []
        self.findings: List[Finding] = []
        self.notes: List[str] = []
        for qn, what in sorted((getattr(program, "inlined", None) or {}).items()):
            self.notes.append(f"program model: {qn}: {what}")
        self.rules_run: Dict[str, Dict[str, int]] = {}
        self.functions_consulted: set = set()
        self.modules_consulted: set = set()
        self.assumptions: List[str] = []
        self.only_key: Optional[str] = None     # --replay
        self.write_files = True
        self.extra: Dict[str, Any] = {}

    # ---------------------------------------------------------------- record
    def consult(self, *funcs: FuncInfo) -> None:
        for f in funcs:
            if f is None:
                continue
            self.functions_consulted.add(f.qualname)
            self.modules_consulted.add(f.module.name)

    def ob(self, rule: str, ok: bool, where: Any, construct: str, message: str,
           node: Any = None, path: Optional[List[str]] = None, nontrivial: bool = True) -> bool:
        """Record one evaluated rule instance."""
        rid = f"{self.prop}.{rule}" if not rule.startswith(self.prop) else rule
        if isinstance(where, FuncInfo):
            self.consult(where)
            wtxt, file = where.short, where.file
        else:
            wtxt, file = str(where), ""
        line = getattr(node, "lineno", 0) if node is not None else 0
        st = self.rules_run.setdefault(rid, {"instances": 0, "failed": 0})
        st["instances"] += 1
        self.obligations.append({"rule": rid, "where": wtxt, "construct": construct,
                                 "ok": bool(ok), "line": line, "nontrivial": nontrivial,
                                 "detail": message if not ok else message[:160]})
        if not ok:
            st["failed"] += 1
            self.findings.append(Finding(self.prop, rid, wtxt, construct, message, file, line, path))
        return ok

    def note(self, text: str) -> None:
        self.notes.append(text)

    def floor(self, rule: str, what: str, count: int, minimum: int) -> None:
        """Vacuity guard: fewer instances than were confirmed by hand = the rule
        stopped matching = analysis broken (never a silent pass)."""
        if count < minimum:
            raise AnalysisError(f"{self.prop}.{rule}: only {count} {what} located, floor is {minimum} "
                                f"(anchor vanished or matcher broken)")

    def expect(self, rule: str, what: str, count: int, minimum: int, where: Any, message: str = "", node: Any = None) -> bool:
        """Like ``floor`` for constructs *inside an already located function*: their absence is not a broken matcher
        but the removal of the behaviour the rule is about, so it is reported as a violation of the rule."""
        if count >= minimum:
            return True
        slug = re.sub(r"[^a-z0-9]+", "-", what.lower()).strip("-")[:60]
        self.ob(rule, False, where, f"missing:{slug}",
                message or f"{what}: {count} found where the rule expects at least {minimum}: the construct this clause of the property rests on "
                           f"has been removed from the function", node if node is not None else getattr(where, "node", None))
        return False

    def need(self, cond: Any, role: str) -> Any:
        if not cond:
            raise AnalysisError(f"{self.prop}: role '{role}' could not be located")
        return cond

    # ---------------------------------------------------------------- finish
    def finish(self) -> int:
        known = load_known()
        known_keys = {k["key"]: k for k in known.get("findings", []) if k.get("property") == self.prop}
        fixed_keys = {k["key"]: k for k in known.get("fixed", []) if k.get("property") == self.prop}
        violations: List[Finding] = []
        knowns: List[Finding] = []
        seen = set()
        for f in self.findings:
            if f.key in seen:
                continue
            seen.add(f.key)
            if self.only_key is not None and f.key != self.only_key:
                continue
            if f.key in known_keys:
                knowns.append(f)
            else:
                violations.append(f)
        for k, rec in known_keys.items():
            if k not in seen:
                self.notes.append(f"known finding no longer reproduced by the analysis: {k}")
        for k in fixed_keys:
            if k in seen:
                self.notes.append(f"finding recorded as fixed has RETURNED: {k}")
        if self.write_files:
            os.makedirs(os.path.join(VERIF, "replays", self.prop), exist_ok=True)
        for f in knowns:
            print(f"KNOWN-FINDING: property={self.prop} {f.rule} {f.where}: {known_keys[f.key].get('what', f.message)}")
        for f in violations:
            h = hashlib.sha256(f.key.encode()).hexdigest()[:12]
            rp = os.path.join(VERIF, "replays", self.prop, f"{h}.json")
            if self.write_files:
                with open(rp, "w") as fh:
                    json.dump(f.to_json(), fh, indent=1)
            print(f"  {f.file}:{f.line}: [{f.rule}] {f.where}: {f.message}")
            if f.path:
                print(f"    path: {' -> '.join(f.path)}")
            print(f"VIOLATION property={self.prop} replay={rp}")
        if self.write_files:
            self._write_evidence(violations, knowns)
        n_ob = len(self.obligations)
        print(f"[{self.prop}/{self.tier}] {n_ob} rule instances over {len(self.functions_consulted)} functions "
              f"in {len(self.modules_consulted)} modules; {len(violations)} violation(s), "
              f"{len(knowns)} known finding(s); {time.time() - self.t0:.2f}s")
        for rid, st in sorted(self.rules_run.items()):
            print(f"   {rid}: {st['instances']} instances, {st['failed']} failed")
        for nt in self.notes:
            if nt.startswith("program model:"):
                print(f"   note: {nt}")
        return 1 if violations else 0

    def _write_evidence(self, violations: List[Finding], knowns: List[Finding]) -> None:
        distinct = {(o["rule"], o["where"], o["construct"]) for o in self.obligations if o["nontrivial"]}
        samples = []
        per_rule: Dict[str, int] = {}
        for o in self.obligations:
            if per_rule.get(o["rule"], 0) < 3:
                per_rule[o["rule"]] = per_rule.get(o["rule"], 0) + 1
                samples.append({k: o[k] for k in ("rule", "where", "construct", "ok", "line", "detail")})
        ev = {
            "property_id": self.prop,
            "tier": self.tier,
            "seed": int(os.environ.get("VERIF_SEED", "0") or 0),
            "level": "other",
            "coverage": {
                "explanation": (
                    "Static analysis of /repo/src/xstate_statemachine (stdlib ast; nothing executed). "
                    "Decides the structural clauses listed in DESIGN.md section 5 for this property on every "
                    "enumerated site of the parsed program; does not decide the behaviour itself. "
                    "Rules run: " + ", ".join(f"{r}({s['instances']})" for r, s in sorted(self.rules_run.items()))),
                "evaluations": len(self.obligations),
                "distinct_nontrivial": len(distinct),
                "rule": ("one evaluation = one rule instance on one code site (writer, call site, path query, "
                         "twin operation, handler); distinct = distinct (rule, function, construct); "
                         "non-trivial = the instance inspected at least one located construct"),
                "samples": samples[:60],
                "exhaustive": True,
                "obligations": len(self.obligations),
                "discharged": sum(1 for o in self.obligations if o["ok"]),
                "rules": self.rules_run,
                "functions_analysed": len(self.functions_consulted),
                "modules_analysed": sorted(self.modules_consulted),
                "module_sha256": self.program.digest(self.modules_consulted),
                "known_findings": [f.to_json() for f in knowns],
                "violations": [f.to_json() for f in violations],
                "notes": self.notes,
                **self.extra,
            },
            "assumptions": self.assumptions + [
                "the analysed program is the package source; no monkey-patching / setattr on protected attributes",
                "user code (actions, guards, services, plugins) is outside the program",
                "callee resolution is the engine's own (MRO + annotation table); unresolved calls are counted",
            ],
            "wall_s": round(time.time() - self.t0, 3),
            "violations": len(violations),
        }
        os.makedirs(os.path.join(VERIF, "evidence"), exist_ok=True)
        with open(os.path.join(VERIF, "evidence", f"{self.prop}.json"), "w") as fh:
            json.dump(ev, fh, indent=1, sort_keys=False)


def load_known() -> Dict[str, Any]:
    if not os.path.exists(KNOWN_FILE):
        return {"findings": [], "fixed": []}
    with open(KNOWN_FILE) as fh:
        return json.load(fh)
