"""F4: twin agreement.

Extracts from a function a list of *operation records*
    (operation, canonical arguments, enclosing guards, loop context)
with locals alpha-normalised (parameters, loop elements, inlined single
assignments), ``await`` / logging stripped, trivial model properties inlined,
and compares the records of two implementations of the same algorithm.
"""
from __future__ import annotations

import ast
import copy
from collections import Counter
from typing import Dict, List, NamedTuple, Optional, Set, Tuple

from .program import FuncInfo, Program, dotted, norm
from .util import assignments_to

HOOK_RECEIVERS = {"plugin", "plug", "p"}
OBJ_RECEIVERS = {"actor", "child", "child_interpreter", "self.parent", "candidate"}
SKIP_CALLS = {"logger", "logging"}


class Record(NamedTuple):
    op: str
    args: Tuple[str, ...]
    guards: Tuple[str, ...]
    loops: Tuple[str, ...]
    line: int

    @property
    def key(self):
        return (self.op, self.args, self.guards, self.loops)


class Canon:
    """Canonical text of expressions inside one function."""

    def __init__(self, program: Program, func: FuncInfo, renames: Dict[str, str], param_renames: Optional[Dict[str, str]] = None):
        self.p = program
        self.f = func
        self.renames = renames
        self.param_renames = param_renames or {}
        self.props = self._simple_properties()
        self._stack: Set[str] = set()
        # loop variables -> iter expr
        self.loopvars: Dict[str, ast.AST] = {}
        for n in ast.walk(func.node):
            if isinstance(n, (ast.For, ast.AsyncFor)):
                for t in ast.walk(n.target):
                    if isinstance(t, ast.Name):
                        self.loopvars.setdefault(t.id, n.iter)

    def _simple_properties(self) -> Dict[str, ast.AST]:
        out = {}
        for c in self.p.all_classes:
            if c.module.name != "models":
                continue
            for name, m in c.methods.items():
                if "property" in m.decorators:
                    body = [s for s in m.node.body if not (isinstance(s, ast.Expr) and isinstance(s.value, ast.Constant))]
                    if len(body) == 1 and isinstance(body[0], ast.Return) and body[0].value is not None:
                        out[name] = body[0].value
        return out

    def _await_identity(self, name: str) -> bool:
        cache = self.__dict__.setdefault("_ai_cache", {})
        if name in cache:
            return cache[name]
        ok = False
        for f in self.p.all_funcs:
            if f.name != name or not f.is_async:
                continue
            prm = [q for q in f.params if q not in ("self", "cls")]
            if len(prm) != 1:
                continue
            body = [st for st in f.node.body if not (isinstance(st, ast.Expr) and isinstance(st.value, ast.Constant))]

            def plumbing(st):
                if isinstance(st, ast.If) and "isawaitable" in ast.unparse(st.test) and prm[0] in ast.unparse(st.test):
                    return all(plumbing(x) for x in st.body) and all(plumbing(x) for x in st.orelse)
                if isinstance(st, ast.Expr) and isinstance(st.value, ast.Await) and ast.unparse(st.value.value) == prm[0]:
                    return True
                if isinstance(st, ast.Return) and (st.value is None or ast.unparse(st.value) in (prm[0], f"await {prm[0]}")):
                    return True
                return False
            if body and all(plumbing(st) for st in body):
                ok = True
        cache[name] = ok
        return ok

    def text(self, e: ast.AST, depth: int = 0) -> str:
        return ast.unparse(self._c(self._copy(e), depth, {}))

    def _copy(self, e: ast.AST) -> ast.AST:
        """deep copy that remembers, for every Name, the original node (needed for block queries)."""
        c = copy.deepcopy(e)
        for a, b in zip(ast.walk(e), ast.walk(c)):
            if isinstance(a, ast.Name):
                b._orig = getattr(a, "_orig", a)
        return c

    # ------------------------------------------------------------------
    def _c(self, e: ast.AST, depth: int, bound: Dict[str, str]) -> ast.AST:
        me = self

        class T(ast.NodeTransformer):
            def visit_Await(self, n):
                return self.visit(n.value)

            def visit_Call(self, n):
                # ``await self._maybe_await(x.stop())``: a helper that only awaits its argument when it is awaitable is plumbing,
                # exactly like the inline ``r = x.stop(); if inspect.isawaitable(r): await r`` it replaces
                name = n.func.attr if isinstance(n.func, ast.Attribute) else (n.func.id if isinstance(n.func, ast.Name) else None)
                if name and len(n.args) == 1 and not n.keywords and me._await_identity(name):
                    return self.visit(n.args[0])
                return self.generic_visit(n)

            def visit_Name(self, n):
                if n.id in bound:
                    return ast.Name(id=bound[n.id], ctx=ast.Load())
                return me._name(n, depth, bound)

            def visit_Attribute(self, n):
                v = self.visit(n.value)
                if n.attr in me.props and not (isinstance(v, ast.Name) and v.id == "self"):
                    # inline  X.is_final  ->  X.type == 'final'
                    body = copy.deepcopy(me.props[n.attr])

                    class S(ast.NodeTransformer):
                        def visit_Name(self, m):
                            return copy.deepcopy(v) if m.id == "self" else m
                    return _norm_compare(S().visit(body))
                attr = me.renames.get(n.attr, n.attr) if isinstance(v, ast.Name) and v.id == "self" else n.attr
                return ast.Attribute(value=v, attr=attr, ctx=ast.Load())

            def visit_Compare(self, n):
                return _norm_compare(self.generic_visit(n))

            def visit_UnaryOp(self, n):
                n = self.generic_visit(n)
                if isinstance(n.op, ast.Not) and isinstance(n.operand, ast.Compare) and len(n.operand.ops) == 1:
                    flip = {ast.In: ast.NotIn, ast.NotIn: ast.In, ast.Eq: ast.NotEq, ast.NotEq: ast.Eq, ast.Is: ast.IsNot, ast.IsNot: ast.Is}
                    op = n.operand.ops[0]
                    if type(op) in flip:
                        return ast.Compare(left=n.operand.left, ops=[flip[type(op)]()], comparators=n.operand.comparators)
                return n

            def _comp(self, n):
                nb = dict(bound)
                for i, g in enumerate(n.generators):
                    for t in ast.walk(g.target):
                        if isinstance(t, ast.Name):
                            nb[t.id] = f"_{len(nb)}"
                return me._c_comp(n, depth, nb)

            visit_ListComp = visit_SetComp = visit_GeneratorExp = visit_DictComp = _comp

            def visit_Lambda(self, n):
                nb = dict(bound)
                for a in n.args.args:
                    nb[a.arg] = f"_{len(nb)}"
                n.body = me._c(n.body, depth, nb)
                for a in n.args.args:
                    a.arg = nb[a.arg]
                return n

            def visit_JoinedStr(self, n):
                return self.generic_visit(n)
        return T().visit(e)

    def _c_comp(self, n, depth, nb):
        for g in n.generators:
            g.iter = self._c(g.iter, depth, nb)
            g.target = self._c(g.target, depth, nb) if not isinstance(g.target, ast.Name) else ast.Name(id=nb[g.target.id], ctx=ast.Store())
            g.ifs = [self._c(i, depth, nb) for i in g.ifs]
        for fld in ("elt", "key", "value"):
            if hasattr(n, fld):
                setattr(n, fld, self._c(getattr(n, fld), depth, nb))
        return n

    def _name(self, n: ast.Name, depth: int, bound) -> ast.AST:
        nm = n.id
        if nm == "self":
            return n
        if nm in self.f.params:
            mapped = self.param_renames.get(nm, nm)
            if mapped.isidentifier():
                return ast.Name(id=f"P_{mapped}", ctx=ast.Load())
            try:                                           # inlined helper: the caller's canonical argument text
                return ast.parse(mapped, mode="eval").body
            except SyntaxError:
                return ast.Name(id=mapped, ctx=ast.Load())
        if nm in self.loopvars and nm not in self._stack and depth < 4:
            self._stack.add(nm)
            try:
                it = self.text(self.loopvars[nm], depth + 1)
            finally:
                self._stack.discard(nm)
            return ast.Name(id=f"ELEM[{it}]", ctx=ast.Load())
        assigns = [a for a in assignments_to(self.f, nm) if isinstance(a, (ast.Assign, ast.AnnAssign)) and getattr(a, "value", None) is not None]
        simple = [a for a in assigns if (isinstance(a, ast.AnnAssign) or (len(a.targets) == 1 and isinstance(a.targets[0], ast.Name)))]
        if len(simple) == 1 and len(assigns) == 1 and nm not in self._stack and depth < 4:
            self._stack.add(nm)
            try:
                v = self._c(self._copy(simple[0].value), depth + 1, {})
            finally:
                self._stack.discard(nm)
            return v
        if len(assigns) > 1 and nm not in self._stack and depth < 4:
            # several assignments: take the one that reaches this use -- the latest one before it whose
            # enclosing block also encloses the use
            use_line = getattr(n, "lineno", None)
            if use_line is not None:
                from .util import ancestors
                use_anc = {id(a) for a in self._anc(getattr(n, "_orig", n))}
                cands = [a for a in simple if a.lineno < use_line and self._block_owner(a) in use_anc]
                if cands:
                    best = max(cands, key=lambda a: a.lineno)
                    # conditional overrides: later assignments (before the use) in blocks that do not enclose the use
                    overrides = [a for a in simple if best.lineno < a.lineno < use_line and self._block_owner(a) not in use_anc]
                    self._stack.add(nm)
                    try:
                        v0 = self._c(self._copy(best.value), depth + 1, {})
                        if not overrides:
                            return v0
                        alts = sorted({ast.unparse(v0)} | {ast.unparse(self._c(self._copy(a.value), depth + 1, {})) for a in overrides})
                        return ast.Call(func=ast.Name(id="PHI", ctx=ast.Load()),
                                        args=[ast.parse(t, mode="eval").body for t in alts], keywords=[])
                    finally:
                        self._stack.discard(nm)
            return ast.Name(id="VAR", ctx=ast.Load())
        if len(assigns) > 1:
            return ast.Name(id="VAR", ctx=ast.Load())
        return n

    def _anc(self, node):
        if not hasattr(self, "_pm"):
            self._pm = {}
            for x in ast.walk(self.f.node):
                for ch in ast.iter_child_nodes(x):
                    self._pm[id(ch)] = x
            self._orig = {}
        out = []
        cur = self._pm.get(id(node))
        while cur is not None:
            out.append(cur)
            cur = self._pm.get(id(cur))
        return out

    def _block_owner(self, stmt) -> int:
        """id of the statement (or function) whose block directly contains *stmt*."""
        anc = self._anc(stmt)
        return id(anc[0]) if anc else id(self.f.node)


def _norm_compare(n: ast.AST) -> ast.AST:
    if isinstance(n, ast.Compare) and len(n.ops) == 1:
        l, op, r = n.left, n.ops[0], n.comparators[0]
        if isinstance(op, (ast.Eq, ast.NotEq, ast.Is, ast.IsNot)):
            a, b = sorted([l, r], key=ast.unparse)
            return ast.Compare(left=a, ops=[op], comparators=[b])
        if isinstance(op, (ast.In, ast.NotIn)) and isinstance(r, ast.DictComp):
            n.comparators = [ast.SetComp(elt=r.key, generators=r.generators)]
    return n


def _always_exits(body: List[ast.stmt]) -> bool:
    if not body:
        return False
    last = body[-1]
    if isinstance(last, (ast.Return, ast.Raise, ast.Continue, ast.Break)):
        return True
    if isinstance(last, ast.If):
        return _always_exits(last.body) and _always_exits(last.orelse)
    return False


def _guard_atoms(cn, test: ast.AST, truth: bool) -> List[str]:
    """The guard contributed by ``test`` being *truth*, as a list of canonical signed atoms: conjunctions (and negated
    disjunctions) are split, a leading ``not`` becomes the sign - so ``if a and b:`` / ``if not (not a or not b):`` / nested
    ``if a: if b:`` and the else-branch of ``if not a or not b:`` all carry the same guard."""
    from .cfg import split_atoms
    out = []
    for a, pol in split_atoms(test, truth):
        while isinstance(a, ast.UnaryOp) and isinstance(a.op, ast.Not):
            a, pol = a.operand, not pol
        if isinstance(a, ast.Compare) and len(a.ops) == 1 and isinstance(a.ops[0], (ast.NotIn, ast.IsNot, ast.NotEq)):
            flip = {ast.NotIn: ast.In, ast.IsNot: ast.Is, ast.NotEq: ast.Eq}[type(a.ops[0])]
            a = ast.Compare(left=a.left, ops=[flip()], comparators=a.comparators)
            pol = not pol
        out.append(("+" if pol else "-") + cn.text(a))
    return out


def extract(program: Program, func: FuncInfo, renames: Dict[str, str],
            inline: Optional[Dict[str, FuncInfo]] = None, param_renames=None) -> List[Record]:
    """Operation records of *func*. ``inline``: self-method name -> helper whose
    records are spliced in at the call site (single-caller private helpers)."""
    cn = Canon(program, func, renames, param_renames)
    out: List[Record] = []
    inline = inline or {}

    def ops_of(node: ast.AST, guards, loops):
        calls = [x for x in ast.walk(node) if isinstance(x, ast.Call)]
        calls.sort(key=lambda c: (c.lineno, c.col_offset))
        for c in calls:
            fn = c.func
            if isinstance(fn, ast.Attribute):
                recv = dotted(fn.value)
                if recv in SKIP_CALLS:
                    continue
                if recv == "self":
                    if len(c.args) == 1 and not c.keywords and cn._await_identity(fn.attr):
                        continue          # await plumbing; the wrapped call is recorded on its own
                    name = renames.get(fn.attr, fn.attr)
                    if fn.attr in inline:
                        sub = extract(program, inline[fn.attr], renames, None, _param_map(inline[fn.attr], c, cn))
                        for r in sub:
                            out.append(Record(r.op, r.args, tuple(guards) + r.guards, tuple(loops) + r.loops, r.line))
                        continue
                    args = tuple(cn.text(a) for a in c.args) + tuple(f"{k.arg}={cn.text(k.value)}" for k in c.keywords)
                    out.append(Record(f"self.{name}", args, tuple(guards), tuple(loops), c.lineno))
                elif recv in HOOK_RECEIVERS and fn.attr.startswith("on_"):
                    out.append(Record(f"hook:{fn.attr}", tuple(cn.text(a) for a in c.args[1:]), tuple(guards), tuple(loops), c.lineno))
                elif recv in OBJ_RECEIVERS:
                    out.append(Record(f"obj.{fn.attr}", tuple(cn.text(a) for a in c.args), tuple(guards), tuple(loops), c.lineno))
                elif recv is not None and recv.startswith("self.") and fn.attr in _MUT:
                    out.append(Record(f"mut:{recv}.{fn.attr}", tuple(cn.text(a) for a in c.args), tuple(guards), tuple(loops), c.lineno))
                elif recv is not None and recv.startswith("self.") and recv.count(".") >= 1 and fn.attr not in ("get", "items", "values", "keys", "copy", "startswith"):
                    out.append(Record(f"call:{recv}.{fn.attr}", tuple(cn.text(a) for a in c.args), tuple(guards), tuple(loops), c.lineno))
            elif isinstance(fn, ast.Name) and fn.id in func.nested:
                out.append(Record(f"closure:{fn.id}", (), tuple(guards), tuple(loops), c.lineno))

    def walk(stmts, guards, loops):
        guards = list(guards)
        for s in stmts:
            if isinstance(s, ast.Expr) and isinstance(s.value, ast.Constant):
                continue
            if isinstance(s, ast.If):
                pos, neg = _guard_atoms(cn, s.test, True), _guard_atoms(cn, s.test, False)
                ops_of(s.test, guards, loops)
                walk(s.body, guards + pos, loops)
                walk(s.orelse, guards + neg, loops)
                if _always_exits(s.body) and not s.orelse:
                    guards = guards + neg
                elif s.orelse and _always_exits(s.orelse) and not _always_exits(s.body):
                    guards = guards + pos
            elif isinstance(s, (ast.For, ast.AsyncFor)):
                ops_of(s.iter, guards, loops)
                walk(s.body, guards, loops + [cn.text(s.iter)])
            elif isinstance(s, ast.While):
                ops_of(s.test, guards, loops)
                walk(s.body, guards + _guard_atoms(cn, s.test, True), loops + ["while"])
            elif isinstance(s, ast.Try):
                walk(s.body, guards, loops)
                for h in s.handlers:
                    hn = ast.unparse(h.type) if h.type is not None else "BaseException"
                    if "CancelledError" in hn:
                        continue          # asyncio-only plumbing
                    walk(h.body, guards + [f"+except:{hn}"], loops)
                walk(s.orelse, guards, loops)
                walk(s.finalbody, guards + ["+finally"], loops)
            elif isinstance(s, (ast.With, ast.AsyncWith)):
                walk(s.body, guards, loops)
            elif isinstance(s, (ast.FunctionDef, ast.AsyncFunctionDef, ast.ClassDef)):
                continue
            elif isinstance(s, ast.Raise):
                cls = ""
                if s.exc is not None:
                    cls = norm(s.exc.func) if isinstance(s.exc, ast.Call) else norm(s.exc)
                out.append(Record(f"raise:{cls or 're-raise'}", (), tuple(guards), tuple(loops), s.lineno))
            elif isinstance(s, ast.Return):
                if s.value is not None:
                    ops_of(s.value, guards, loops)
                out.append(Record("return", (), tuple(guards), tuple(loops), s.lineno))
            elif isinstance(s, (ast.Assign, ast.AnnAssign, ast.AugAssign)):
                tgts = s.targets if isinstance(s, ast.Assign) else [s.target]
                val = getattr(s, "value", None)
                if val is not None:
                    ops_of(val, guards, loops)
                for t in tgts:
                    if isinstance(t, ast.Attribute) and dotted(t.value) == "self":
                        out.append(Record(f"set:self.{t.attr}", (cn.text(val) if val is not None else "",), tuple(guards), tuple(loops), s.lineno))
                    elif isinstance(t, ast.Subscript) and isinstance(t.value, ast.Attribute) and dotted(t.value.value) == "self":
                        out.append(Record(f"setitem:self.{t.value.attr}", (cn.text(t.slice),), tuple(guards), tuple(loops), s.lineno))
            elif isinstance(s, ast.Delete):
                for t in s.targets:
                    if isinstance(t, ast.Subscript):
                        out.append(Record(f"del:{cn.text(t.value)}", (), tuple(guards), tuple(loops), s.lineno))
            else:
                ops_of(s, guards, loops)
    walk(func.node.body, [], [])
    return out


_MUT = {"add", "discard", "remove", "clear", "update", "append", "extend", "pop", "popleft", "put", "setdefault", "set"}


def _param_map(helper: FuncInfo, call: ast.Call, cn: Canon) -> Dict[str, str]:
    """Map helper parameter names to the canonical text of the caller's arguments."""
    m = {}
    params = [p_ for p_ in helper.params if p_ != "self"]
    for p_, a in zip(params, call.args):
        t = cn.text(a)
        m[p_] = t[2:] if t.startswith("P_") else t
    for k in call.keywords:
        if k.arg:
            t = cn.text(k.value)
            m[k.arg] = t[2:] if t.startswith("P_") else t
    return m


class Diff(NamedTuple):
    kind: str            # only-a | only-b | guards | args | loops
    op: str
    a: Optional[Record]
    b: Optional[Record]

    @property
    def construct(self) -> str:
        """Stable descriptor: operation + kind (+ position of the first differing argument).
        Callers add an ordinal when one twin pair has several diffs with the same descriptor."""
        if self.kind == "args" and self.a is not None and self.b is not None:
            if len(self.a.args) != len(self.b.args):
                return f"{self.op}:args#count"
            for i, (x, y) in enumerate(zip(self.a.args, self.b.args)):
                if x != y:
                    return f"{self.op}:args@{i}"
        return f"{self.op}:{self.kind}"


def compare(A: List[Record], B: List[Record]) -> List[Diff]:
    # ambient guards: an atom that one twin carries on its records and the other never mentions
    # (e.g. an extra early 'if x is None: raise') is reported once and stripped
    diffs0: List[Diff] = []
    ga = {g for r in A for g in r.guards}
    gb = {g for r in B for g in r.guards}
    for side, mine, other, recs in (("a", ga, gb, A), ("b", gb, ga, B)):
        for g in sorted(mine - other):
            carriers = [r for r in recs if g in r.guards]
            if len(carriers) >= 3:
                diffs0.append(Diff(f"ambient-guard-{side}", g[:60], carriers[0] if side == "a" else None, carriers[0] if side == "b" else None))
                for i, r in enumerate(recs):
                    if g in r.guards:
                        recs[i] = Record(r.op, r.args, tuple(x for x in r.guards if x != g), r.loops, r.line)
    return diffs0 + _compare(A, B)


def _compare(A: List[Record], B: List[Record]) -> List[Diff]:
    ca = Counter(r.key for r in A)
    cb = Counter(r.key for r in B)
    onlyA = []
    onlyB = []
    for r in A:
        if ca[r.key] > cb.get(r.key, 0):
            onlyA.append(r)
            ca[r.key] -= 1
    for r in B:
        if cb[r.key] > Counter(x.key for x in A).get(r.key, 0):
            onlyB.append(r)
            cb[r.key] -= 1
    diffs: List[Diff] = []
    usedB = set()
    usedA = set()
    cands = []
    for i, r in enumerate(onlyA):
        for j, q in enumerate(onlyB):
            if q.op == r.op:
                score = (q.args == r.args) * 4 + (q.guards == r.guards) * 2 + (q.loops == r.loops) + len(set(q.guards) & set(r.guards)) / 100.0
                cands.append((score, i, j))
    for score, i, j in sorted(cands, key=lambda t: (-t[0], t[1], t[2])):
        if i in usedA or j in usedB:
            continue
        usedA.add(i)
        usedB.add(j)
        r, q = onlyA[i], onlyB[j]
        if q.args != r.args:
            diffs.append(Diff("args", r.op, r, q))
        if q.guards != r.guards:
            diffs.append(Diff("guards", r.op, r, q))
        if q.loops != r.loops and q.args == r.args and q.guards == r.guards:
            diffs.append(Diff("loops", r.op, r, q))
    for i, r in enumerate(onlyA):
        if i not in usedA:
            diffs.append(Diff("only-a", r.op, r, None))
    for j, q in enumerate(onlyB):
        if j not in usedB:
            diffs.append(Diff("only-b", q.op, None, q))
    return diffs
