"""F4: twin agreement.

Extracts from a function a list of *operation records*
    (operation, canonical arguments, enclosing guards, loop context)
with locals alpha-normalised (parameters, loop elements, inlined single
assignments), ``await`` / logging stripped, trivial model properties inlined,
and compares the records of two implementations of the same algorithm.
"""
from __future__ import annotations

import ast
import copy
from collections import Counter
from typing import Dict, List, NamedTuple, Optional, Set, Tuple

from .program import FuncInfo, Program, dotted, norm
from .util import assignments_to

# calls on other objects that are operations of the algorithm, recognised by what they are, not by the name of the variable:
#   <local>.on_*(...)                       a plugin hook
#   <local or self.parent>.start/stop/send/get_persisted_snapshot(...)   an operation on another interpreter (not on a thread / timer / event)
OBJ_METHODS = {"start", "stop", "send", "get_persisted_snapshot"}
_NOT_INTERPRETERS = ("Thread", "Timer", "Event(", "Lock", "Queue", "create_task", "ensure_future", "get_event_loop", "get_running_loop")


def _is_hook_receiver(func: FuncInfo, recv: Optional[str]) -> bool:
    return recv is not None and "." not in recv and recv not in ("self", "cls")


def _is_obj_receiver(func: FuncInfo, recv: Optional[str]) -> bool:
    if recv == "self.parent":
        return True
    if recv is None or "." in recv or recv in ("self", "cls", "asyncio", "threading", "time", "json", "copy", "inspect", "logging", "logger"):
        return False
    f: Optional[FuncInfo] = func
    while f is not None:
        for x in ast.walk(f.node):
            if isinstance(x, (ast.Assign, ast.AnnAssign)) and getattr(x, "value", None) is not None:
                tg = x.targets[0] if isinstance(x, ast.Assign) else x.target
                if isinstance(tg, ast.Name) and tg.id == recv and any(k in ast.unparse(x.value) for k in _NOT_INTERPRETERS):
                    return False
        f = f.parent
    return True
SKIP_CALLS = {"logger", "logging"}


class Record(NamedTuple):
    op: str
    args: Tuple[str, ...]
    guards: Tuple[str, ...]
    loops: Tuple[str, ...]
    line: int

    @property
    def key(self):
        return (self.op, self.args, self.guards, self.loops)


class Canon:
    """Canonical text of expressions inside one function."""

    def __init__(self, program: Program, func: FuncInfo, renames: Dict[str, str], param_renames: Optional[Dict[str, str]] = None):
        self.p = program
        self.f = func
        self.renames = renames
        self.param_renames = param_renames or {}
        self.props = self._simple_properties()
        self._stack: Set[str] = set()
        # loop variables -> iter expr
        self.loopvars: Dict[str, ast.AST] = {}
        for n in ast.walk(func.node):
            if isinstance(n, (ast.For, ast.AsyncFor)):
                for t in ast.walk(n.target):
                    if isinstance(t, ast.Name):
                        self.loopvars.setdefault(t.id, n.iter)

    def _simple_properties(self) -> Dict[str, ast.AST]:
        out = {}
        for c in self.p.all_classes:
            if c.module.name != "models":
                continue
            for name, m in c.methods.items():
                if "property" in m.decorators:
                    body = [s for s in m.node.body if not (isinstance(s, ast.Expr) and isinstance(s.value, ast.Constant))]
                    if len(body) == 1 and isinstance(body[0], ast.Return) and body[0].value is not None:
                        out[name] = body[0].value
        return out

    def _await_identity(self, name: str) -> bool:
        cache = self.__dict__.setdefault("_ai_cache", {})
        if name in cache:
            return cache[name]
        ok = False
        for f in self.p.all_funcs:
            if f.name != name or not f.is_async:
                continue
            prm = [q for q in f.params if q not in ("self", "cls")]
            if len(prm) != 1:
                continue
            body = [st for st in f.node.body if not (isinstance(st, ast.Expr) and isinstance(st.value, ast.Constant))]

            def plumbing(st):
                if isinstance(st, ast.If) and "isawaitable" in ast.unparse(st.test) and prm[0] in ast.unparse(st.test):
                    return all(plumbing(x) for x in st.body) and all(plumbing(x) for x in st.orelse)
                if isinstance(st, ast.Expr) and isinstance(st.value, ast.Await) and ast.unparse(st.value.value) == prm[0]:
                    return True
                if isinstance(st, ast.Return) and (st.value is None or ast.unparse(st.value) in (prm[0], f"await {prm[0]}")):
                    return True
                return False
            if body and all(plumbing(st) for st in body):
                ok = True
        cache[name] = ok
        return ok

    def text(self, e: ast.AST, depth: int = 0) -> str:
        return ast.unparse(self._c(self._copy(e), depth, {}))

    def _copy(self, e: ast.AST) -> ast.AST:
        """deep copy that remembers, for every Name, the original node (needed for block queries)."""
        c = copy.deepcopy(e)
        for a, b in zip(ast.walk(e), ast.walk(c)):
            if isinstance(a, ast.Name):
                b._orig = getattr(a, "_orig", a)
        return c

    # ------------------------------------------------------------------
    def _c(self, e: ast.AST, depth: int, bound: Dict[str, str]) -> ast.AST:
        me = self

        class T(ast.NodeTransformer):
            def visit_Await(self, n):
                return self.visit(n.value)

            def visit_Call(self, n):
                # ``await self._maybe_await(x.stop())``: a helper that only awaits its argument when it is awaitable is plumbing,
                # exactly like the inline ``r = x.stop(); if inspect.isawaitable(r): await r`` it replaces
                name = n.func.attr if isinstance(n.func, ast.Attribute) else (n.func.id if isinstance(n.func, ast.Name) else None)
                if name and len(n.args) == 1 and not n.keywords and me._await_identity(name):
                    return self.visit(n.args[0])
                if isinstance(n.func, ast.Name) and n.func.id in ("sorted", "set", "frozenset", "tuple", "list", "any", "all", "sum", "min", "max", "enumerate", "reversed") \
                        and n.args and isinstance(n.args[0], ast.Call) and isinstance(n.args[0].func, ast.Name) and n.args[0].func.id in ("list", "tuple") \
                        and len(n.args[0].args) == 1 and not n.args[0].keywords and n.func.id != "reversed":
                    # sorted(list(X), ..) is sorted(X, ..): a copy that is only iterated
                    n = ast.Call(func=n.func, args=[n.args[0].args[0]] + list(n.args[1:]), keywords=n.keywords)
                if name in ("startswith", "endswith") and len(n.args) == 1 and isinstance(n.args[0], ast.Tuple) and \
                        all(isinstance(e, ast.Constant) and isinstance(e.value, str) for e in n.args[0].elts):
                    # s.startswith(('spawn_', 'spawn_blocking_'))  is  s.startswith('spawn_'): an alternative that another one subsumes adds nothing
                    vals = [e.value for e in n.args[0].elts]
                    sub = (lambda a_, b_: a_.startswith(b_)) if name == "startswith" else (lambda a_, b_: a_.endswith(b_))
                    keep = [v for i, v in enumerate(vals) if not any(j != i and sub(v, w) and (w != v or j < i) for j, w in enumerate(vals))]
                    arg = ast.Constant(value=keep[0]) if len(keep) == 1 else ast.Tuple(elts=[ast.Constant(value=v) for v in sorted(keep)], ctx=ast.Load())
                    n = ast.Call(func=n.func, args=[arg], keywords=[])
                return self.generic_visit(n)

            def visit_Name(self, n):
                if n.id in bound:
                    return ast.Name(id=bound[n.id], ctx=ast.Load())
                return me._name(n, depth, bound)

            def visit_Attribute(self, n):
                v = self.visit(n.value)
                if n.attr in me.props and not (isinstance(v, ast.Name) and v.id == "self"):
                    # inline  X.is_final  ->  X.type == 'final'
                    body = copy.deepcopy(me.props[n.attr])

                    class S(ast.NodeTransformer):
                        def visit_Name(self, m):
                            return copy.deepcopy(v) if m.id == "self" else m
                    return _norm_compare(S().visit(body))
                attr = me.renames.get(n.attr, n.attr) if isinstance(v, ast.Name) and v.id == "self" else n.attr
                return ast.Attribute(value=v, attr=attr, ctx=ast.Load())

            def visit_Compare(self, n):
                return _norm_compare(self.generic_visit(n))

            def visit_UnaryOp(self, n):
                if isinstance(n.op, ast.Not) and isinstance(n.operand, ast.BoolOp):
                    # De Morgan: not (a or b)  ->  not a and not b   (one spelling for filters and conditions alike)
                    swapped = ast.And() if isinstance(n.operand.op, ast.Or) else ast.Or()
                    return self.visit(ast.BoolOp(op=swapped, values=[ast.UnaryOp(op=ast.Not(), operand=v) for v in n.operand.values]))
                if isinstance(n.op, ast.Not) and isinstance(n.operand, ast.UnaryOp) and isinstance(n.operand.op, ast.Not):
                    return self.visit(n.operand.operand) if False else self.generic_visit(n)
                n = self.generic_visit(n)
                if isinstance(n.op, ast.Not) and isinstance(n.operand, ast.Compare) and len(n.operand.ops) == 1:
                    flip = {ast.In: ast.NotIn, ast.NotIn: ast.In, ast.Eq: ast.NotEq, ast.NotEq: ast.Eq, ast.Is: ast.IsNot, ast.IsNot: ast.Is}
                    op = n.operand.ops[0]
                    if type(op) in flip:
                        return ast.Compare(left=n.operand.left, ops=[flip[type(op)]()], comparators=n.operand.comparators)
                return n

            def _comp(self, n):
                nb = dict(bound)
                for i, g in enumerate(n.generators):
                    for t in ast.walk(g.target):
                        if isinstance(t, ast.Name):
                            nb[t.id] = f"_{len(nb)}"
                return me._c_comp(n, depth, nb)

            visit_ListComp = visit_SetComp = visit_GeneratorExp = visit_DictComp = _comp

            def visit_Lambda(self, n):
                nb = dict(bound)
                for a in n.args.args:
                    nb[a.arg] = f"_{len(nb)}"
                n.body = me._c(n.body, depth, nb)
                for a in n.args.args:
                    a.arg = nb[a.arg]
                return n

            def visit_JoinedStr(self, n):
                return self.generic_visit(n)
        return T().visit(e)

    def _c_comp(self, n, depth, nb):
        for g in n.generators:
            g.iter = self._c(g.iter, depth, nb)
            g.target = self._c(g.target, depth, nb) if not isinstance(g.target, ast.Name) else ast.Name(id=nb[g.target.id], ctx=ast.Store())
            g.ifs = [self._c(i, depth, nb) for i in g.ifs]
        for fld in ("elt", "key", "value"):
            if hasattr(n, fld):
                setattr(n, fld, self._c(getattr(n, fld), depth, nb))
        # {f(x) for x in [y for y in S if P(y)]}  is  {f(x) for x in S if P(x)}: a filtered copy that is only iterated is fused
        if len(n.generators) == 1 and isinstance(n.generators[0].target, ast.Name):
            g = n.generators[0]
            inner = g.iter
            if isinstance(inner, (ast.ListComp, ast.GeneratorExp)) and len(inner.generators) == 1 and isinstance(inner.generators[0].target, ast.Name) \
                    and isinstance(inner.elt, ast.Name) and inner.elt.id == inner.generators[0].target.id:
                ig = inner.generators[0]
                iv, ov = ig.target.id, g.target.id

                class R(ast.NodeTransformer):
                    def visit_Name(self, x):
                        return ast.Name(id=ov, ctx=x.ctx) if x.id == iv else x
                g.iter = ig.iter
                g.ifs = [R().visit(i) for i in ig.ifs] + list(g.ifs)
        return n

    def _name(self, n: ast.Name, depth: int, bound) -> ast.AST:
        nm = n.id
        if nm == "self":
            return n
        if nm in self.f.params:
            mapped = self.param_renames.get(nm, nm)
            if mapped.isidentifier():
                return ast.Name(id=f"P_{mapped}", ctx=ast.Load())
            try:                                           # inlined helper: the caller's canonical argument text
                return ast.parse(mapped, mode="eval").body
            except SyntaxError:
                return ast.Name(id=mapped, ctx=ast.Load())
        if nm in self.loopvars and nm not in self._stack and depth < 4:
            # the loop this use stands in (a name may be the variable of several loops of one function)
            it_expr = self.loopvars[nm]
            try:
                for a_ in self._anc(getattr(n, "_orig", n)):
                    if isinstance(a_, (ast.For, ast.AsyncFor)) and any(isinstance(t_, ast.Name) and t_.id == nm for t_ in ast.walk(a_.target)):
                        it_expr = getattr(a_, "_twin_iter", a_.iter)
                        break
            except Exception:
                pass
            self._stack.add(nm)
            try:
                it = self.text(_strip_copy(it_expr), depth + 1)
            finally:
                self._stack.discard(nm)
            return ast.Name(id=f"ELEM[{it}]", ctx=ast.Load())
        assigns = [a for a in assignments_to(self.f, nm) if isinstance(a, (ast.Assign, ast.AnnAssign)) and getattr(a, "value", None) is not None]
        simple = [a for a in assigns if (isinstance(a, ast.AnnAssign) or (len(a.targets) == 1 and isinstance(a.targets[0], ast.Name)))]
        if len(simple) == 1 and len(assigns) == 1 and nm not in self._stack and depth < 4:
            self._stack.add(nm)
            try:
                v = self._c(self._copy(simple[0].value), depth + 1, {})
            finally:
                self._stack.discard(nm)
            return v
        if len(assigns) > 1 and nm not in self._stack and depth < 4:
            # several assignments: take the one that reaches this use -- the latest one before it whose
            # enclosing block also encloses the use
            use_line = getattr(n, "lineno", None)
            if use_line is not None:
                from .util import ancestors
                use_anc = {id(a) for a in self._anc(getattr(n, "_orig", n))}
                cands = [a for a in simple if a.lineno < use_line and self._block_owner(a) in use_anc]
                if cands:
                    best = max(cands, key=lambda a: a.lineno)
                    # conditional overrides: later assignments (before the use) in blocks that do not enclose the use
                    overrides = [a for a in simple if best.lineno < a.lineno < use_line and self._block_owner(a) not in use_anc]
                    self._stack.add(nm)
                    try:
                        v0 = self._c(self._copy(best.value), depth + 1, {})
                        if not overrides:
                            return v0
                        alts = sorted({ast.unparse(v0)} | {ast.unparse(self._c(self._copy(a.value), depth + 1, {})) for a in overrides})
                        return ast.Call(func=ast.Name(id="PHI", ctx=ast.Load()),
                                        args=[ast.parse(t, mode="eval").body for t in alts], keywords=[])
                    finally:
                        self._stack.discard(nm)
            return ast.Name(id="VAR", ctx=ast.Load())
        if len(assigns) > 1:
            return ast.Name(id="VAR", ctx=ast.Load())
        return n

    def _anc(self, node):
        if not hasattr(self, "_pm"):
            self._pm = {}
            for x in ast.walk(self.f.node):
                for ch in ast.iter_child_nodes(x):
                    self._pm[id(ch)] = x
            self._orig = {}
        out = []
        cur = self._pm.get(id(node))
        while cur is not None:
            out.append(cur)
            cur = self._pm.get(id(cur))
        return out

    def _block_owner(self, stmt) -> int:
        """id of the statement (or function) whose block directly contains *stmt*."""
        anc = self._anc(stmt)
        return id(anc[0]) if anc else id(self.f.node)


def _norm_compare(n: ast.AST) -> ast.AST:
    if isinstance(n, ast.Compare) and len(n.ops) == 1:
        l, op, r = n.left, n.ops[0], n.comparators[0]
        if isinstance(op, (ast.Eq, ast.NotEq, ast.Is, ast.IsNot)):
            a, b = sorted([l, r], key=ast.unparse)
            return ast.Compare(left=a, ops=[op], comparators=[b])
        if isinstance(op, (ast.In, ast.NotIn)) and isinstance(r, ast.DictComp):
            n.comparators = [ast.SetComp(elt=r.key, generators=r.generators)]
    return n


def _always_exits(body: List[ast.stmt]) -> bool:
    if not body:
        return False
    last = body[-1]
    if isinstance(last, (ast.Return, ast.Raise, ast.Continue, ast.Break)):
        return True
    if isinstance(last, ast.If):
        return _always_exits(last.body) and _always_exits(last.orelse)
    return False


def _signed(a: ast.AST, pol: bool, known: Optional[Set[str]] = None) -> List[str]:
    """Signed atoms of an already canonical expression.  *known*: atoms that hold where the expression is evaluated - conditional
    expressions whose test is decided by them are replaced by the branch taken (``(f(x) if c else None) is not None`` under ``c``)."""
    from .cfg import split_atoms
    known = set(known or ())
    out_: List[str] = []
    for a, pol in split_atoms(a, pol):
        if known:
            a = _simplify(a, known)
        while True:
            if isinstance(a, ast.UnaryOp) and isinstance(a.op, ast.Not):
                a, pol = a.operand, not pol
            elif isinstance(a, ast.Call) and isinstance(a.func, ast.Name) and a.func.id == "bool" and len(a.args) == 1 and not a.keywords:
                a = a.args[0]            # bool(x) as a condition is x
            else:
                break
        if isinstance(a, ast.BoolOp) and ((isinstance(a.op, ast.And) and pol) or (isinstance(a.op, ast.Or) and not pol)):
            got = _signed(a, pol, known)      # became splittable after unwrapping
            out_.extend(got)
            known.update(got)
            continue
        if isinstance(a, ast.BoolOp):
            # what is left is a disjunction: a true ``x or y`` / a false ``x and y``.  One spelling for both (De Morgan):
            # the negated conjunction of the negated parts, parts sorted
            parts: List[str] = []
            k2 = set(known)
            for v in a.values:
                got = _signed(v, not isinstance(a.op, ast.Or), k2)
                parts.extend(got)
                if isinstance(a.op, ast.And):
                    k2.update(got)        # x and y: y is evaluated only where x held
            out_.append("-&(" + ", ".join(sorted(parts)) + ")")
            continue
        if isinstance(a, ast.Compare) and len(a.ops) == 1 and isinstance(a.ops[0], (ast.NotIn, ast.IsNot, ast.NotEq)):
            flip = {ast.NotIn: ast.In, ast.IsNot: ast.Is, ast.NotEq: ast.Eq}[type(a.ops[0])]
            a = ast.Compare(left=a.left, ops=[flip()], comparators=a.comparators)
            pol = not pol
        if isinstance(a, ast.Compare) and len(a.ops) == 1 and isinstance(a.ops[0], (ast.LtE, ast.GtE)):
            # x <= 1  is  not (x > 1)
            flip = {ast.LtE: ast.Gt, ast.GtE: ast.Lt}[type(a.ops[0])]
            a = ast.Compare(left=a.left, ops=[flip()], comparators=a.comparators)
            pol = not pol
        atom = ("+" if pol else "-") + ast.unparse(a)
        out_.append(atom)
        if pol or True:
            known.add(atom)           # later conjuncts are evaluated only if this one held
    return out_


def _simplify(e: ast.AST, known: Set[str]) -> ast.AST:
    """Replace ``X if C else Y`` by X (or Y) where the atoms of C (of not C) are all among *known*."""
    if not any(isinstance(x, ast.IfExp) for x in ast.walk(e)):
        return e

    class S(ast.NodeTransformer):
        def visit_IfExp(self, n):
            n = self.generic_visit(n)
            t_atoms = _signed(n.test, True)
            if t_atoms and all(t in known for t in t_atoms):
                return n.body
            f_atoms = _signed(n.test, False)
            if f_atoms and all(t in known for t in f_atoms):
                return n.orelse
            return n
    return S().visit(copy.deepcopy(e))


def _guard_atoms(cn, test: ast.AST, truth: bool, known=None) -> List[str]:
    """The guard contributed by ``test`` being *truth*, as a list of canonical signed atoms: conjunctions (and negated
    disjunctions) are split, a leading ``not`` becomes the sign - so ``if a and b:`` / ``if not (not a or not b):`` / nested
    ``if a: if b:`` and the else-branch of ``if not a or not b:`` all carry the same guard.  Canonical form first (a condition
    that was given a name - ``has_transient = bool(sel) and any(...)`` - is that condition), then split into signed atoms."""
    return _signed(cn._c(cn._copy(test), 0, {}), truth, known)


def _exit_conjs(cn, s: ast.If, known, depth: int = 0) -> List[List[str]]:
    """Conjunctions of atoms under which the ``if`` statement *s* leaves the enclosing block (return / raise / continue / break),
    including exits of ``if`` statements nested in its branches:  if a: (x = f(); if b: ...; continue)  leaves under  a and b."""
    out: List[List[str]] = []
    pos, neg = _guard_atoms(cn, s.test, True, known), _guard_atoms(cn, s.test, False, known)
    for branch, cond in ((s.body, pos), (s.orelse, neg)):
        if not branch:
            continue
        if _always_exits(branch):
            if not isinstance(branch[-1], ast.Raise):       # an error path says nothing about the normal continuation
                out.append(list(cond))
            continue
        if depth < 2:
            for st in branch:
                if isinstance(st, ast.If):
                    for cj in _exit_conjs(cn, st, set(known or ()) | set(cond), depth + 1):
                        out.append(list(cond) + cj)
    return out


def _strip_copy(e: ast.AST) -> ast.AST:
    """list(X) / tuple(X) taken only to iterate over a snapshot: the elements are X's."""
    while isinstance(e, ast.Call) and isinstance(e.func, ast.Name) and e.func.id in ("list", "tuple") and len(e.args) == 1 and not e.keywords:
        e = e.args[0]
    return e


def _iter_text(cn, it: ast.AST) -> str:
    return cn.text(_strip_copy(it))


def _single_value(func: FuncInfo, name: str) -> Optional[ast.AST]:
    vals = [getattr(a, "value", None) for a in assignments_to(func, name)]
    vals = [v for v in vals if v is not None]
    return vals[0] if len(vals) == 1 and len(assignments_to(func, name)) == 1 else None


def _first_match(cn, func: FuncInfo, test: ast.AST):
    """``NAME is not SENTINEL`` where NAME = next((.. for .. in X if P), SENTINEL): (NAME, generator)."""
    if not (isinstance(test, ast.Compare) and len(test.ops) == 1 and isinstance(test.ops[0], ast.IsNot) and isinstance(test.left, ast.Name)):
        return None
    v = _single_value(func, test.left.id)
    if not (isinstance(v, ast.Call) and isinstance(v.func, ast.Name) and v.func.id == "next" and len(v.args) == 2 and isinstance(v.args[0], ast.GeneratorExp)):
        return None
    if ast.unparse(v.args[1]) != ast.unparse(test.comparators[0]):
        return None
    gen = v.args[0]
    if len(gen.generators) != 1 or gen.generators[0].is_async:
        return None
    tnames = {t.id for t in ast.walk(gen.generators[0].target) if isinstance(t, ast.Name)}
    if not (isinstance(gen.elt, ast.Name) and gen.elt.id in tnames):
        return None
    return test.left.id, gen


def _selected_list(cn, func: FuncInfo, it: ast.AST):
    """The comprehension behind ``for k in hits`` when hits = [k for k, v in X if P] (k one of the comprehension's own variables);
    also the comprehension written in place: ``for k in [k for k, v in X if P]``."""
    if isinstance(it, (ast.ListComp, ast.GeneratorExp)):
        if len(it.generators) == 1 and not it.generators[0].is_async and isinstance(it.elt, ast.Name) and \
                it.elt.id in {t.id for t in ast.walk(it.generators[0].target) if isinstance(t, ast.Name)}:
            return it
        return None
    if not isinstance(it, ast.Name):
        return None
    v = _single_value(func, it.id)
    if not isinstance(v, (ast.ListComp, ast.GeneratorExp)) or len(v.generators) != 1 or v.generators[0].is_async:
        return None
    tnames = {t.id for t in ast.walk(v.generators[0].target) if isinstance(t, ast.Name)}
    if not (isinstance(v.elt, ast.Name) and v.elt.id in tnames):
        return None
    # the list must be used for this loop only
    uses = [x for x in ast.walk(func.node) if isinstance(x, ast.Name) and x.id == it.id and isinstance(x.ctx, ast.Load)]
    if len(uses) != 1:
        return None
    return v


def _merge_complementary(recs: List[Record]) -> List[Record]:
    """f(X) under c and f(Y) under not c (same operation, same other guards, same other arguments) is one f(X if c else Y):
    a call written once with a conditional argument and the same call written in both branches of an ``if`` are one record."""
    recs = list(recs)
    changed = True
    while changed:
        changed = False
        for i in range(len(recs)):
            for j in range(i + 1, len(recs)):
                r, q = recs[i], recs[j]
                if r.op != q.op or r.loops != q.loops or len(r.args) != len(q.args) or not r.op.startswith("self."):
                    continue
                d = set(r.guards) ^ set(q.guards)
                if len(d) != 2:
                    continue
                a1, a2 = sorted(d)
                if not (a1[0] == "+" and a2[0] == "-" and a1[1:] == a2[1:]):
                    continue
                diff = [k for k in range(len(r.args)) if r.args[k] != q.args[k]]
                if len(diff) != 1:
                    continue
                k = diff[0]
                pos, neg = (r, q) if a1 in r.guards else (q, r)
                merged_arg = f"({pos.args[k]}) if [{a1[1:]}] else ({neg.args[k]})"
                args = tuple(merged_arg if m == k else r.args[m] for m in range(len(r.args)))
                common = tuple(g for g in r.guards if g in q.guards)
                recs[i] = Record(r.op, args, common, r.loops, min(r.line, q.line))
                del recs[j]
                changed = True
                break
            if changed:
                break
    return recs


def extract(program: Program, func: FuncInfo, renames: Dict[str, str],
            inline: Optional[Dict[str, FuncInfo]] = None, param_renames=None) -> List[Record]:
    """Operation records of *func*. ``inline``: self-method name -> helper whose
    records are spliced in at the call site (single-caller private helpers)."""
    cn = Canon(program, func, renames, param_renames)
    out: List[Record] = []
    inline = inline or {}

    class _CN:
        """cn.text with conditional expressions decided by the guards in force replaced by the branch taken."""
        def __init__(self, guards):
            self.known = set(guards)

        def canon(self, e):
            c_ = cn._c(cn._copy(e), 0, {})
            if self.known and any(isinstance(x, ast.IfExp) for x in ast.walk(c_)):
                c_ = _simplify(c_, self.known)
            return c_

        def text(self, e):
            return ast.unparse(self.canon(e))

    def ops_of(node: ast.AST, guards, loops):
        base_guards = guards
        calls = [x for x in ast.walk(node) if isinstance(x, ast.Call)]
        calls.sort(key=lambda c: (c.lineno, c.col_offset))
        ternaries = [x for x in ast.walk(node) if isinstance(x, ast.IfExp)]
        for c in calls:
            c_src = c
            # a call inside a branch of a conditional expression runs under that expression's test
            guards = list(base_guards)
            for te in ternaries:
                if any(y is c_src for y in ast.walk(te.body)):
                    guards += _guard_atoms(cn, te.test, True, guards)
                elif any(y is c_src for y in ast.walk(te.orelse)):
                    guards += _guard_atoms(cn, te.test, False, guards)
            cg = _CN(guards)
            fn = c.func
            if isinstance(fn, ast.Attribute):
                recv = dotted(fn.value)
                if recv in SKIP_CALLS:
                    continue
                if recv == "self":
                    if len(c.args) == 1 and not c.keywords and cn._await_identity(fn.attr):
                        continue          # await plumbing; the wrapped call is recorded on its own
                    name = renames.get(fn.attr, fn.attr)
                    if fn.attr in inline:
                        sub = extract(program, inline[fn.attr], renames, None, _param_map(inline[fn.attr], c, cn))
                        for r in sub:
                            out.append(Record(r.op, r.args, tuple(guards) + r.guards, tuple(loops) + r.loops, r.line))
                        continue
                    # f(X if c else Y)  is  f(X) under c  and  f(Y) under not c  (also when the conditional expression was given a name)
                    cargs = [cg.canon(a) for a in c.args]
                    tern = [i for i, a_ in enumerate(cargs) if isinstance(a_, ast.IfExp)]
                    kw = tuple(f"{k.arg}={cg.text(k.value)}" for k in c.keywords)
                    if len(tern) == 1:
                        i = tern[0]
                        for branch, truth in ((cargs[i].body, True), (cargs[i].orelse, False)):
                            g_ = list(guards) + _signed(cargs[i].test, truth, set(guards))
                            args = tuple(ast.unparse(branch if j == i else a_) for j, a_ in enumerate(cargs)) + kw
                            out.append(Record(f"self.{name}", args, tuple(g_), tuple(loops), c.lineno))
                        continue
                    args = tuple(ast.unparse(a_) for a_ in cargs) + kw
                    out.append(Record(f"self.{name}", args, tuple(guards), tuple(loops), c.lineno))
                elif fn.attr.startswith("on_") and _is_hook_receiver(func, recv):
                    out.append(Record(f"hook:{fn.attr}", tuple(cg.text(a) for a in c.args[1:]), tuple(guards), tuple(loops), c.lineno))
                elif fn.attr in OBJ_METHODS and _is_obj_receiver(func, recv):
                    out.append(Record(f"obj.{fn.attr}", tuple(cg.text(a) for a in c.args), tuple(guards), tuple(loops), c.lineno))
                elif recv is not None and recv.startswith("self.") and fn.attr in _MUT:
                    out.append(Record(f"mut:{recv}.{fn.attr}", tuple(cg.text(a) for a in c.args), tuple(guards), tuple(loops), c.lineno))
                elif recv is not None and recv.startswith("self.") and recv.count(".") >= 1 and fn.attr not in ("get", "items", "values", "keys", "copy", "startswith"):
                    out.append(Record(f"call:{recv}.{fn.attr}", tuple(cg.text(a) for a in c.args), tuple(guards), tuple(loops), c.lineno))
            elif isinstance(fn, ast.Name) and fn.id in func.nested:
                out.append(Record(f"closure:{fn.id}", (), tuple(guards), tuple(loops), c.lineno))

    def walk(stmts, guards, loops, plain=False):
        # plain: every enclosing statement up to the function is an ``if`` / ``with`` - there a bare ``return`` says nothing that
        # the guards of the statements after it do not say (``if c: return; X``  is  ``if not c: X``)
        guards = list(guards)
        for s in stmts:
            if isinstance(s, ast.Expr) and isinstance(s.value, ast.Constant):
                continue
            if isinstance(s, ast.If):
                fm = _first_match(cn, func, s.test)
                if fm is not None and not s.orelse:
                    # k = next((k for k, v in X if P), S); if k is not S: OPS   is   for k, v in X: if P: OPS; break
                    nm, comp = fm
                    gen = comp.generators[0]
                    for t_ in ast.walk(gen.target):
                        if isinstance(t_, ast.Name):
                            cn.loopvars[t_.id] = gen.iter
                    cn.loopvars[nm] = gen.iter
                    g2 = list(guards)
                    for cnd in gen.ifs:
                        g2 += _guard_atoms(cn, cnd, True)
                    walk(s.body, g2, loops + [_iter_text(cn, gen.iter)], False)
                    continue
                pos, neg = _guard_atoms(cn, s.test, True, guards), _guard_atoms(cn, s.test, False, guards)
                ops_of(s.test, guards, loops)
                walk(s.body, guards + pos, loops, plain)
                walk(s.orelse, guards + neg, loops, plain)
                if _always_exits(s.body) and not s.orelse:
                    guards = guards + neg
                elif s.orelse and _always_exits(s.orelse) and not _always_exits(s.body):
                    guards = guards + pos
                elif not (_always_exits(s.body) and _always_exits(s.orelse)):
                    # exits nested deeper:  if a: (c = f(); if c: ...; continue)   - what follows runs under  not (a and c),
                    # exactly as after the flattened  if a and c: ...; continue
                    for cj in _exit_conjs(cn, s, guards):
                        if len(cj) > 1:
                            guards = guards + ["-&(" + ", ".join(sorted(cj)) + ")"]
            elif isinstance(s, (ast.For, ast.AsyncFor)):
                sel = _selected_list(cn, func, s.iter)
                if sel is not None and isinstance(s.target, ast.Name):
                    # hits = [k for k, v in X if P]; for k in hits: OPS   is   for k, v in list(X): if P: OPS
                    gen = sel.generators[0]
                    for t_ in ast.walk(gen.target):
                        if isinstance(t_, ast.Name):
                            cn.loopvars[t_.id] = gen.iter
                    cn.loopvars[s.target.id] = gen.iter
                    s._twin_iter = gen.iter
                    g2 = list(guards)
                    for cnd in gen.ifs:
                        g2 += _guard_atoms(cn, cnd, True)
                    ops_of(gen.iter, guards, loops)
                    walk(s.body, g2, loops + [_iter_text(cn, gen.iter)])
                    continue
                ops_of(s.iter, guards, loops)
                walk(s.body, guards, loops + [_iter_text(cn, s.iter)])
            elif isinstance(s, ast.While):
                ops_of(s.test, guards, loops)
                walk(s.body, guards + _guard_atoms(cn, s.test, True), loops + ["while"])
            elif isinstance(s, ast.Try):
                walk(s.body, guards, loops)
                for h in s.handlers:
                    hn = ast.unparse(h.type) if h.type is not None else "BaseException"
                    if "CancelledError" in hn:
                        continue          # asyncio-only plumbing
                    walk(h.body, guards + [f"+except:{hn}"], loops)
                walk(s.orelse, guards, loops)
                walk(s.finalbody, guards + ["+finally"], loops)
            elif isinstance(s, (ast.With, ast.AsyncWith)):
                walk(s.body, guards, loops, plain)
            elif isinstance(s, (ast.FunctionDef, ast.AsyncFunctionDef, ast.ClassDef)):
                continue
            elif isinstance(s, ast.Raise):
                cls = ""
                if s.exc is not None:
                    cls = norm(s.exc.func) if isinstance(s.exc, ast.Call) else norm(s.exc)
                out.append(Record(f"raise:{cls or 're-raise'}", (), tuple(guards), tuple(loops), s.lineno))
            elif isinstance(s, ast.Return):
                if s.value is not None:
                    ops_of(s.value, guards, loops)
                if plain and (s.value is None or (isinstance(s.value, ast.Constant) and s.value.value is None)):
                    continue
                out.append(Record("return", (), tuple(guards), tuple(loops), s.lineno))
            elif isinstance(s, (ast.Assign, ast.AnnAssign, ast.AugAssign)):
                tgts = s.targets if isinstance(s, ast.Assign) else [s.target]
                val = getattr(s, "value", None)
                if val is not None:
                    ops_of(val, guards, loops)
                for t in tgts:
                    if isinstance(t, ast.Attribute) and dotted(t.value) == "self":
                        out.append(Record(f"set:self.{t.attr}", (cn.text(val) if val is not None else "",), tuple(guards), tuple(loops), s.lineno))
                    elif isinstance(t, ast.Subscript) and isinstance(t.value, ast.Attribute) and dotted(t.value.value) == "self":
                        out.append(Record(f"setitem:self.{t.value.attr}", (cn.text(t.slice),), tuple(guards), tuple(loops), s.lineno))
            elif isinstance(s, ast.Delete):
                for t in s.targets:
                    if isinstance(t, ast.Subscript):
                        out.append(Record(f"del:{cn.text(t.value)}", (), tuple(guards), tuple(loops), s.lineno))
            else:
                ops_of(s, guards, loops)
    walk(func.node.body, [], [], True)
    return _merge_complementary(out)


_MUT = {"add", "discard", "remove", "clear", "update", "append", "extend", "pop", "popleft", "put", "setdefault", "set"}


def _param_map(helper: FuncInfo, call: ast.Call, cn: Canon) -> Dict[str, str]:
    """Map helper parameter names to the canonical text of the caller's arguments."""
    m = {}
    params = [p_ for p_ in helper.params if p_ != "self"]
    for p_, a in zip(params, call.args):
        t = cn.text(a)
        m[p_] = t[2:] if t.startswith("P_") else t
    for k in call.keywords:
        if k.arg:
            t = cn.text(k.value)
            m[k.arg] = t[2:] if t.startswith("P_") else t
    return m


class Diff(NamedTuple):
    kind: str            # only-a | only-b | guards | args | loops
    op: str
    a: Optional[Record]
    b: Optional[Record]

    @property
    def construct(self) -> str:
        """Stable descriptor: operation + kind (+ position of the first differing argument).
        Callers add an ordinal when one twin pair has several diffs with the same descriptor."""
        if self.kind == "args" and self.a is not None and self.b is not None:
            if len(self.a.args) != len(self.b.args):
                return f"{self.op}:args#count"
            for i, (x, y) in enumerate(zip(self.a.args, self.b.args)):
                if x != y:
                    return f"{self.op}:args@{i}"
        return f"{self.op}:{self.kind}"


def compare(A: List[Record], B: List[Record]) -> List[Diff]:
    # ambient guards: an atom that one twin carries on its records and the other never mentions
    # (e.g. an extra early 'if x is None: raise') is reported once and stripped
    diffs0: List[Diff] = []
    ga = {g for r in A for g in r.guards}
    gb = {g for r in B for g in r.guards}
    for side, mine, other, recs in (("a", ga, gb, A), ("b", gb, ga, B)):
        for g in sorted(mine - other):
            carriers = [r for r in recs if g in r.guards]
            if len(carriers) >= 3:
                diffs0.append(Diff(f"ambient-guard-{side}", g[:60], carriers[0] if side == "a" else None, carriers[0] if side == "b" else None))
                for i, r in enumerate(recs):
                    if g in r.guards:
                        recs[i] = Record(r.op, r.args, tuple(x for x in r.guards if x != g), r.loops, r.line)
    return diffs0 + _compare(A, B)


def _compare(A: List[Record], B: List[Record]) -> List[Diff]:
    ca = Counter(r.key for r in A)
    cb = Counter(r.key for r in B)
    onlyA = []
    onlyB = []
    for r in A:
        if ca[r.key] > cb.get(r.key, 0):
            onlyA.append(r)
            ca[r.key] -= 1
    for r in B:
        if cb[r.key] > Counter(x.key for x in A).get(r.key, 0):
            onlyB.append(r)
            cb[r.key] -= 1
    diffs: List[Diff] = []
    usedB = set()
    usedA = set()
    cands = []
    for i, r in enumerate(onlyA):
        for j, q in enumerate(onlyB):
            if q.op == r.op:
                score = (q.args == r.args) * 4 + (q.guards == r.guards) * 2 + (q.loops == r.loops) + len(set(q.guards) & set(r.guards)) / 100.0 - len(set(q.guards) ^ set(r.guards)) / 1000.0
                cands.append((score, i, j))
    for score, i, j in sorted(cands, key=lambda t: (-t[0], t[1], t[2])):
        if i in usedA or j in usedB:
            continue
        usedA.add(i)
        usedB.add(j)
        r, q = onlyA[i], onlyB[j]
        if q.args != r.args:
            diffs.append(Diff("args", r.op, r, q))
        if q.guards != r.guards:
            diffs.append(Diff("guards", r.op, r, q))
        if q.loops != r.loops and q.args == r.args and q.guards == r.guards:
            diffs.append(Diff("loops", r.op, r, q))
    for i, r in enumerate(onlyA):
        if i not in usedA:
            diffs.append(Diff("only-a", r.op, r, None))
    for j, q in enumerate(onlyB):
        if j not in usedB:
            diffs.append(Diff("only-b", q.op, None, q))
    return diffs
