"""F7: finite-domain dataflow over ``self.status``.

Forward may-analysis on the CFG: each node gets the set of status values that
are possible when it starts executing, given (a) an entry assumption, (b)
refinement along branch edges whose tests mention ``<recv>.status``, (c)
assignments of constants, (d) calls into functions that themselves write the
status (their written values are added)."""
from __future__ import annotations

import ast
from typing import Callable, Dict, FrozenSet, Iterable, Optional, Set

from .cfg import CFG, cfg_of, node_exprs
from .program import FuncInfo, dotted, const_str

DOMAIN = frozenset({"uninitialized", "running", "done", "error", "stopped"})


def _is_status(e: ast.AST, recv: str) -> bool:
    return isinstance(e, ast.Attribute) and e.attr == "status" and dotted(e.value) == recv


def _const_set(e: ast.AST) -> Optional[Set[str]]:
    if isinstance(e, (ast.Tuple, ast.List, ast.Set)):
        out = set()
        for x in e.elts:
            s = const_str(x)
            if s is None:
                return None
            out.add(s)
        return out
    s = const_str(e)
    return {s} if s is not None else None


def eval_cond(test: ast.AST, polarity: bool, cur: FrozenSet[str], recv: str = "self",
              consts: Optional[Dict[str, Set[str]]] = None) -> FrozenSet[str]:
    """Subset of *cur* compatible with test == polarity."""
    if isinstance(test, ast.UnaryOp) and isinstance(test.op, ast.Not):
        return eval_cond(test.operand, not polarity, cur, recv, consts)
    if isinstance(test, ast.BoolOp):
        parts = [eval_cond(v, polarity, cur, recv, consts) for v in test.values]
        conj = isinstance(test.op, ast.And) == polarity     # And/True or Or/False -> all hold
        if conj:
            out = cur
            for p_ in parts:
                out = out & p_
            return out
        out = frozenset()
        for p_ in parts:
            out = out | p_
        return out
    if isinstance(test, ast.Compare) and len(test.ops) == 1:
        l, op, r = test.left, test.ops[0], test.comparators[0]
        if _is_status(r, recv) and not _is_status(l, recv):
            l, r = r, l
        if _is_status(l, recv):
            vals = _const_set(r)
            if vals is None and isinstance(r, ast.Name) and consts and r.id in consts:
                vals = consts[r.id]
            if vals is None and isinstance(r, ast.Attribute) and consts and r.attr in consts:
                vals = consts[r.attr]
            if vals is not None:
                if isinstance(op, (ast.Eq, ast.In, ast.Is)):
                    sat = cur & frozenset(vals)
                elif isinstance(op, (ast.NotEq, ast.NotIn, ast.IsNot)):
                    sat = cur - frozenset(vals)
                else:
                    return cur
                return sat if polarity else cur - sat
    return cur


def module_status_consts(f: FuncInfo) -> Dict[str, Set[str]]:
    """Module-level (and class-level) constants that are tuples / sets / frozensets of status strings, so that
    ``self.status in _TERMINAL`` is understood like the literal tuple."""
    out: Dict[str, Set[str]] = {}
    srcs = dict(f.module.constants)
    sc = f.self_class
    if sc is not None:
        for c in sc.mro():
            srcs.update(c.class_attrs)
            srcs.update(c.module.constants)
    for name, val in srcs.items():
        v = val
        if isinstance(v, ast.Call) and isinstance(v.func, ast.Name) and v.func.id in ("frozenset", "set", "tuple") and v.args:
            v = v.args[0]
        vals = _const_set(v)
        if vals and vals <= set(DOMAIN):
            out[name] = vals
    return out


def status_flow(f: FuncInfo, entry: FrozenSet[str] = DOMAIN, recv: str = "self",
                call_effect: Optional[Callable[[ast.Call], Set[str]]] = None,
                consts: Optional[Dict[str, Set[str]]] = None) -> Dict[int, FrozenSet[str]]:
    if consts is None:
        consts = module_status_consts(f)
    g = cfg_of(f.node)
    live = g.live_nodes()
    IN: Dict[int, FrozenSet[str]] = {n: frozenset() for n in live}
    IN[g.entry] = entry

    def out_of(nid: int, cur: FrozenSet[str]) -> FrozenSet[str]:
        n = g.nodes[nid]
        if n.ast is None:
            return cur
        res = cur
        if call_effect is not None:
            for x in node_exprs(n):
                if isinstance(x, ast.Call):
                    res = res | frozenset(call_effect(x))
        if n.kind == "stmt" and isinstance(n.ast, (ast.Assign, ast.AnnAssign)):
            tgts = n.ast.targets if isinstance(n.ast, ast.Assign) else [n.ast.target]
            for t in tgts:
                if _is_status(t, recv):
                    v = const_str(n.ast.value) if n.ast.value is not None else None
                    res = frozenset({v}) if v is not None else DOMAIN
        return res

    changed = True
    it = 0
    while changed:
        changed = False
        it += 1
        if it > 200:
            break
        for nid in sorted(live):
            cur = IN[nid]
            if not cur and nid != g.entry:
                continue
            o = out_of(nid, cur)
            n = g.nodes[nid]
            for d, lab in g.succ[nid]:
                if d not in live:
                    continue
                if (lab or "").startswith("exc"):
                    val = cur | o        # the statement may or may not have taken effect
                elif n.kind == "test" and lab in ("T", "F"):
                    val = eval_cond(n.ast, lab == "T", o, recv, consts)
                else:
                    val = o
                new = IN[d] | val
                if new != IN[d]:
                    IN[d] = new
                    changed = True
    return IN


def entry_statuses_reaching(f: FuncInfo, node_ids: Iterable[int], recv: str = "self",
                            consts: Optional[Dict[str, Set[str]]] = None) -> FrozenSet[str]:
    """Statuses at function entry from which one of *node_ids* is reachable."""
    out = set()
    ids = list(node_ids)
    for s in DOMAIN:
        flow = status_flow(f, frozenset({s}), recv, None, consts)
        if any(flow.get(i) for i in ids):
            out.add(s)
    return frozenset(out)
