"""C03 - exit -> transition -> entry ordering, event identity, frame (structural clauses)."""
import ast

from sa.cfg import cfg_of, split_atoms
from sa.program import dotted, norm, own_nodes
from sa.util import (assignments_to, cfg_node_of, enclosing_loops, guards_at, in_handler, provenance,
                     self_calls_in, stmt_text, names_in)
from . import shared
from .roles import VIEWS, roles


def _actions_calls(f, attr):
    """self._execute_actions(<x>.<attr>, ...) calls in f."""
    out = []
    for call in self_calls_in(f, "_execute_actions"):
        if call.args and isinstance(call.args[0], ast.Attribute) and call.args[0].attr == attr:
            out.append(call)
    return out


def run(ctx):
    c, p, res = ctx.c, ctx.p, ctx.r
    # ---- R11 rollback re-arms exactly the exit set (seeded change C03-e): states that were never exited - sibling regions of a parallel
    #         domain - see no service restart and no second timer ------------------------------------------------------------------
    shared.rollback_rearm(ctx, "R11")
    # ---- R1 exit < transition actions < enter in each executor -----------------
    for v in VIEWS:
        ex = roles(ctx, v).executor
        g = cfg_of(ex.node)
        exits = [n for call in self_calls_in(ex, "_exit_states") for n in cfg_node_of(ex, call)]
        acts = [n for call in _actions_calls(ex, "actions") for n in cfg_node_of(ex, call)]
        enters = [n for call in self_calls_in(ex, "_enter_states") for n in cfg_node_of(ex, call)]
        # only the external-transition path: action calls from which an entry is still reachable
        acts = [a for a in acts if any(g.can_reach(a, e, follow_exc=False) for e in enters)]
        for kind, f_, msg in roles(ctx, v).defects:
            if kind == "executor-half":
                c.ob("R1", False, f_, "executor-performs-exit-and-entry", msg, f_.node)
        for what, sites in (("exits the source states (_exit_states)", exits), ("runs the transition's actions", acts), ("enters the target (_enter_states)", enters)):
            if not sites and not roles(ctx, v).defects:
                c.ob("R1", False, ex, f"executor-step-missing:{what.split()[0]}", f"{ex.short} no longer {what} on the external-transition path", ex.node)
        for a in acts:
            ok = g.always_before(exits, a, follow_exc=False)
            c.ob("R1", ok, ex, "exit<actions", "exit states precede the transition actions on every path" if ok else
                 "transition actions can run before the source states were exited", g.nodes[a].ast)
        for e in enters:
            ok = g.always_before(acts, e, follow_exc=False)
            c.ob("R1", ok, ex, "actions<enter", "transition actions precede every entry on every path" if ok else
                 "states can be entered before the transition actions ran", g.nodes[e].ast)
        for e in exits:
            ok = not any(g.can_reach(n, e, follow_exc=False) for n in enters + acts)
            c.ob("R1", ok, ex, "no-exit-after", "no exit after actions/entry within one transition" if ok else
                 "an exit call is reachable after transition actions or entry", g.nodes[e].ast)
    # ---- R2 exit order: sorted by depth descending with total tie-break --------
    for v in VIEWS:
        ex = roles(ctx, v).executor
        for call in self_calls_in(ex, "_exit_states"):
            arg = call.args[0] if call.args else None
            expr = arg
            if isinstance(arg, ast.Name):
                defs = [a for a in assignments_to(ex, arg.id) if isinstance(a, ast.Assign)]
                expr = defs[-1].value if defs else arg
            ok, why = _deepest_first_total(expr)
            c.ob("R2", ok, ex, "exit-order", why, call)
    # ---- R3 per-state order inside entry / exit routines -----------------------
    for v in VIEWS:
        r = roles(ctx, v)
        en = r.enter
        g = cfg_of(en.node)
        adds = shared.config_op_nodes(ctx, v, en, {"call:add"})
        eacts = _actions_calls(en, "entry")
        c.expect("R3", f"entry-action sites in {en.short}", len(eacts), 1, en, f"{en.short} no longer executes the entry actions of the states it enters")
        for call in eacts:
            loops = [l for l in enclosing_loops(en, call) if isinstance(l, ast.For)]
            hdr = g.nodes_of(loops[0])[0] if loops else None
            ok = hdr is not None and all(shared.before_within_iteration(g, hdr, adds, n) for n in cfg_node_of(en, call))
            c.ob("R3", ok, en, "add<entry-actions", "a state is added to the configuration before its entry actions run" if ok else
                 "entry actions can run before the state is in the configuration", call)
        xt = r.exit
        g = cfg_of(xt.node)
        cancels = [n for call in self_calls_in(xt, "_cancel_state_tasks") for n in cfg_node_of(xt, call)]
        discards = shared.config_op_nodes(ctx, v, xt, {"call:discard", "call:remove"})
        xacts = _actions_calls(xt, "exit")
        c.expect("R3", f"exit-action sites in {xt.short}", len(xacts), 1, xt, f"{xt.short} no longer executes the exit actions of the states it leaves")
        c.expect("R3", f"task cancellation in {xt.short}", len(cancels), 1, xt, f"{xt.short} no longer cancels the timers and services of the states it leaves: they fire after the state was left")
        c.expect("R3", f"removal from the configuration in {xt.short}", len(discards), 1, xt, f"{xt.short} no longer removes the exited states from the configuration")
        for call in xacts:
            ids = cfg_node_of(xt, call)
            # the cancel must cover the same states: iterate the same collection
            cl = [l for cc in self_calls_in(xt, "_cancel_state_tasks") for l in enclosing_loops(xt, cc) if isinstance(l, ast.For)]
            al = [l for l in enclosing_loops(xt, call) if isinstance(l, ast.For)]
            same = bool(cl) and bool(al) and norm(cl[0].iter) == norm(al[0].iter)
            if cl and al and cl[0] is al[0]:
                # same loop: cancel precedes the exit actions within each iteration
                hdr0 = g.nodes_of(al[0])[0]
                ok1 = all(shared.before_within_iteration(g, hdr0, cancels, n) for n in ids)
            elif cl and al:
                # separate loop over the same collection: it must wholly precede, and cancel
                # unconditionally in every iteration
                chdr = g.nodes_of(cl[0])[0]
                ok1 = all(g.always_before([chdr], n, follow_exc=False) for n in ids) and \
                    not any(g.can_reach(n, chdr, follow_exc=False) for n in ids) and \
                    shared.unconditional_in_loop(g, chdr, cancels)
            else:
                ok1 = False
            c.ob("R3", ok1 and same, xt, "cancel<exit-actions",
                 "a state's timers/services are cancelled before its exit actions run" if ok1 and same else
                 "exit actions can run while the state's timers/services are still armed", call)
            hdr = g.nodes_of(al[0])[0] if al else None
            ok2 = hdr is not None and all(
                not (g.reachable([d for d, lab in g.succ[hdr] if lab == "loop"], blocked_nodes=set(ids) | {hdr}, follow_exc=False)
                     & set(discards)) for _ in [0])
            c.ob("R3", ok2, xt, "exit-actions<discard",
                 "a state leaves the configuration only after its exit actions ran" if ok2 else
                 "a state is discarded from the configuration before its exit actions ran", call)
    # ---- R4 event identity -----------------------------------------------------
    n_calls = 0
    for v in VIEWS:
        r = roles(ctx, v)
        for f in (r.enter, r.exit, r.executor, r.dispatch):
            ev_param = next((x for x in f.params if x == "event"), None)
            c.need(ev_param, f"'event' parameter of {f.short}")
            for call in self_calls_in(f, "_execute_actions"):
                n_calls += 1
                ev = call.args[1] if len(call.args) > 1 else next((k.value for k in call.keywords if k.arg == "event"), None)
                ok = ev is not None and "event" in provenance(f, ev)
                c.ob("R4", ok, f, f"actions-event:{norm(call.args[0]) if call.args else ''}",
                     "actions receive the triggering event" if ok else
                     f"'{stmt_text(call)}' does not pass the event that caused the transition", call)
        en = r.enter
        for call in self_calls_in(en, "_enter_states"):
            n_calls += 1
            ev = call.args[1] if len(call.args) > 1 else next((k.value for k in call.keywords if k.arg == "event"), None)
            ok = ev is not None and "event" in provenance(en, ev)
            kind = "regions" if not isinstance(call.args[0], ast.List) else "initial"
            c.ob("R4", ok, en, f"descent-forwards-event:{kind}",
                 "default descent forwards the triggering event" if ok else
                 f"'{stmt_text(call)}' drops the triggering event: entry actions of states reached by default descent "
                 f"receive a synthetic payload-less event", call)
        ex = r.executor
        for name in ("_exit_states", "_enter_states"):
            for call in self_calls_in(ex, name):
                n_calls += 1
                ev = call.args[1] if len(call.args) > 1 else next((k.value for k in call.keywords if k.arg == "event"), None)
                ok = ev is not None and "event" in provenance(ex, ev)
                c.ob("R4", ok, ex, f"{name}-event", "executor forwards the triggering event" if ok else
                     f"'{stmt_text(call)}' does not forward the triggering event", call)
    c.floor("R4", "event-forwarding sites", n_calls, 20)
    # ---- R5 frame: who may run entry/exit actions, arm and disarm --------------
    allowed = {}
    for v in VIEWS:
        r = roles(ctx, v)
        allowed.setdefault("entry", set()).add(r.enter.qualname)
        allowed.setdefault("exit", set()).add(r.exit.qualname)
        allowed.setdefault("_cancel_state_tasks", set()).add(r.exit.qualname)
        allowed.setdefault("_schedule_state_tasks", set()).update({r.enter.qualname, r.executor.qualname})
    n = 0
    for f in p.funcs_in("base_interpreter", "interpreter", "sync_interpreter", "helpers"):
        for attr in ("entry", "exit"):
            for call in _actions_calls(f, attr):
                n += 1
                ok = f.qualname in allowed[attr]
                c.ob("R5", ok, f, f"runs-{attr}-actions", f"{attr} actions are run by the {attr} routine" if ok else
                     f"{f.short} runs a state's {attr} actions outside the {attr} routine (states outside the transition's "
                     f"domain would see {attr} actions)", call)
        for name in ("_cancel_state_tasks", "_schedule_state_tasks"):
            for call in self_calls_in(f, name):
                n += 1
                ok = f.qualname in allowed[name]
                if ok and name == "_schedule_state_tasks" and f.qualname in {roles(ctx, v).executor.qualname for v in VIEWS}:
                    ok = in_handler(f, call) is not None
                c.ob("R5", ok, f, f"calls-{name}", f"{name} called from its owning role" if ok else
                     f"{f.short} calls {name} outside the entry/exit/rollback roles: timers or services of states that "
                     f"the transition does not touch would be (re)started or cancelled", call)
    c.floor("R5", "entry/exit/arming call sites", n, 10)
    # ---- R6 targetless / internal branches do not exit or enter ----------------
    for v in VIEWS:
        r = roles(ctx, v)
        d = r.dispatch
        g = cfg_of(d.node)
        heavy = set()
        for name in ("_exit_states", "_enter_states", r.executor.name):
            for call in self_calls_in(d, name):
                heavy |= set(cfg_node_of(d, call))
        from sa.util import expand_names
        tests = [n for n in g.nodes if n.kind == "test" and n.ast is not None and
                 any(isinstance(x, ast.Attribute) and x.attr in ("target_str", "reenter") for x in ast.walk(expand_names(d, n.ast)))]
        tests = [t for t in tests if not enclosing_loops(d, t.ast) and in_handler(d, t.ast) is None]
        c.expect("R6", f"targetless/internal tests in {d.short}", len(tests), 2, d, f"{d.short} no longer separates targetless and internal self-transitions from external ones: they exit and re-enter their source (entry/exit actions run, timers restart)")
        for t in tests[:2]:
            region = g.reachable([dd for dd, lab in g.succ[t.id] if lab == "T"], follow_exc=False)
            bad = region & heavy
            ok = not bad          # (a branch that fell through to the exit / entry calls would have them in its region)
            c.ob("R6", ok, d, f"actions-only:{norm(t.ast)[:40]}",
                 "branch runs the transition's actions and returns without exiting or entering any state" if ok else
                 "a targetless/internal transition reaches an exit/enter call", t.ast)
    # ---- R7 the transition domain is an ancestor of the target ----------------------------
    # The entry path is _get_path_to_state(target, stop_at=domain): it stops only if the domain lies on the
    # target's ancestor chain; otherwise it runs to the root and re-enters states that are already active
    # (and the exit set, computed under the domain, misses the real LCA subtree).
    fd = p.method("BaseInterpreter", "_find_transition_domain")
    for v in VIEWS:
        if p.method(v, "_find_transition_domain").qualname != fd.qualname:
            c.ob("R7", False, p.method(v, "_find_transition_domain"), "domain-overridden", f"{v} overrides _find_transition_domain; rule must be re-derived", fd.node)
    tparam = fd.params[2] if len(fd.params) > 2 else "target_state"
    rets = [x for x in own_nodes(fd.node) if isinstance(x, ast.Return) and x.value is not None]
    c.floor("R7", "return statements of _find_transition_domain", len(rets), 3)
    for r_ in sorted(rets, key=lambda n: n.lineno):
        ok, why = _domain_is_target_ancestor(fd, r_, tparam)
        c.ob("R7", ok, fd, f"domain-return:{norm(r_.value)[:40]}", why, r_)
    # the domain is the *nearest* such ancestor: the machine root only stands in for a missing parent, the LCCA is the deepest common ancestor
    for r_ in [x for x in own_nodes(fd.node) if isinstance(x, ast.Return) and (x.value is None or (isinstance(x.value, ast.Constant) and x.value.value is None))]:
        c.ob("R7", False, fd, "root-domain-returned", "'return None' makes the whole machine the transition domain: every active state is exited (sibling regions "
             "included) and only the target's path is entered again", r_)
    for r_ in rets:
        exprs = [r_.value]
        if isinstance(r_.value, ast.Name):
            exprs = [a.value for a in assignments_to(fd, r_.value.id) if getattr(a, "value", None) is not None] or exprs
        for e in exprs:
            if "self.machine" in norm(e):
                ok = isinstance(e, ast.BoolOp) and isinstance(e.op, ast.Or) and len(e.values) == 2 and norm(e.values[0]).endswith(".parent") and norm(e.values[1]) == "self.machine"
                c.ob("R7", ok, fd, f"root-only-as-fallback:{norm(e)[:40]}", "the machine root is used only when the state has no parent" if ok else
                     f"'{norm(e)}' yields the machine root although the state has a parent: the domain becomes the whole machine, every active state (sibling "
                     f"regions included) is exited and only the target's path is entered again", r_)
            if isinstance(e, ast.Call) and isinstance(e.func, ast.Name) and e.func.id in ("max", "min") and "common" in norm(e):
                key = next((k.value for k in e.keywords if k.arg == "key"), None)
                ok = e.func.id == "max" and key is not None and "depth" in norm(key) and "-" not in norm(key)
                c.ob("R7", ok, fd, "lcca-is-deepest", "the least common ancestor is the deepest common one" if ok else
                     f"'{norm(e)}' does not select the deepest common ancestor: a shallower domain exits (and kills) states outside the transition's subtree", r_)
    # ---- R10 the entry path is outermost-first (entry actions of a state run after those of its ancestors) ----
    from sa.util import canon_atom, loop_exit_atoms
    gp = p.method("BaseInterpreter", "_get_path_to_state")
    for v in VIEWS:
        if p.method(v, "_get_path_to_state").qualname != gp.qualname:
            c.ob("R10", False, p.method(v, "_get_path_to_state"), "path-overridden", f"{v} overrides _get_path_to_state; rule must be re-derived", gp.node)
    walks = [l for l in own_nodes(gp.node) if isinstance(l, ast.While) and any(isinstance(x, ast.Assign) and norm(x.value).endswith(".parent") for x in l.body)]
    if c.expect("R10", "upward walk of _get_path_to_state", len(walks), 1, gp, "_get_path_to_state no longer walks from the target up to the domain"):
        l = walks[0]
        stepv = next(norm(x.targets[0]) for x in l.body if isinstance(x, ast.Assign) and norm(x.value).endswith(".parent"))
        apps = [x for st_ in l.body for x in ast.walk(st_) if isinstance(x, ast.Call) and isinstance(x.func, ast.Attribute) and x.func.attr in ("append", "insert")]
        front = any(x.func.attr == "insert" and x.args and isinstance(x.args[0], ast.Constant) and x.args[0].value == 0 for x in apps)
        lst = norm(apps[0].func.value) if apps else None
        g = cfg_of(gp.node)
        revs = [i for x in own_nodes(gp.node) if isinstance(x, ast.Call) and isinstance(x.func, ast.Attribute) and x.func.attr == "reverse" and norm(x.func.value) == lst
                for i in cfg_node_of(gp, x)]
        rets = [n for n in g.nodes if n.kind == "stmt" and isinstance(n.ast, ast.Return)]
        rev_ok = bool(revs) and all(g.always_before(revs, r_.id, follow_exc=False) for r_ in rets)
        sliced = any(isinstance(r_.ast.value, ast.Subscript) and norm(r_.ast.value.slice) == "::-1" for r_ in rets) or \
            any(isinstance(r_.ast.value, ast.Call) and norm(r_.ast.value.func) in ("reversed", "list") and "reversed" in norm(r_.ast.value) for r_ in rets)
        ok = bool(apps) and (int(bool(front)) + int(bool(rev_ok)) + int(bool(sliced)) == 1)
        c.ob("R10", ok, gp, "path-outermost-first", "the walk collects child-to-parent and the result is reversed (or built at the front): ancestors are entered first" if ok else
             "the path collected from the target upwards is returned without being reversed: states are entered innermost-first - a child's entry actions run "
             "before its parent's and the parent's default descent then activates a second child", gp.node)
        mode, ex = loop_exit_atoms(l.test)
        stop = gp.params[-1] if gp.params else "stop_at"
        want = ("is", *sorted([stepv, stop]), True)
        # the walk may also be left by a `break` (generator-style loops): its guard is one more reason for the walk to end
        from sa.util import expand_names as _en3
        implied = {(t[0], t[1], t[2], not t[3]) for t in ex}
        for br in [y for st_ in l.body for y in ast.walk(st_) if isinstance(y, ast.Break)]:
            for a_, pol_ in guards_at(gp, br):
                t = canon_atom(_en3(gp, a_), pol_)
                if t not in implied and t not in ex:
                    ex = ex + [t]
        ok2 = want in ex and all(t == want or (t[0] == "truthy" and t[1] == stepv and t[3] is False) or t == ("is", *sorted([stepv, "None"]), True) for t in ex)
        c.ob("R10", ok2, gp, "path-stops-at-domain", f"the walk ends at the domain ('{stop}') or the root" if ok2 else
             f"the walk 'while {norm(l.test)}' does not end exactly when it reaches the domain '{stop}' (it ends when one of {ex} holds): the domain itself, or "
             f"states above it, are entered again although they are active", l)
    # ---- R9 the exit set is the domain's subtree, narrowed to the target's region under a parallel domain ----
    shared.exit_set_scope(ctx, "R9")
    shared.exit_set_anchored_on_target(ctx, "R9")
    # ---- R8 the exit set is scoped with separator-carrying id tests (frame: sibling regions untouched) ----
    shared.dotted_id_tests(ctx, "R8")
    # twin agreement for the pairs (C03 depends on it) is checked under C05.R1


def _deepest_first_total(expr):
    if not (isinstance(expr, ast.Call) and isinstance(expr.func, ast.Name) and expr.func.id == "sorted"):
        return False, f"exit list '{norm(expr)[:60]}' is not produced by sorted(): children could exit after their parents / in set order"
    key = next((k.value for k in expr.keywords if k.arg == "key"), None)
    rev = next((k.value for k in expr.keywords if k.arg == "reverse"), None)
    reverse = isinstance(rev, ast.Constant) and bool(rev.value)
    if not isinstance(key, ast.Lambda):
        return False, "exit list sorted without a key lambda: order undefined"
    arg = key.args.args[0].arg
    comps = key.body.elts if isinstance(key.body, ast.Tuple) else [key.body]
    first, last = comps[0], comps[-1]
    neg = isinstance(first, ast.UnaryOp) and isinstance(first.op, ast.USub)
    f0 = first.operand if neg else first
    depth_first = isinstance(f0, ast.Attribute) and f0.attr == "depth" and dotted(f0.value) == arg
    descending = depth_first and (neg != reverse)
    l0 = last.operand if isinstance(last, ast.UnaryOp) else last
    total = isinstance(l0, ast.Attribute) and l0.attr == "id" and dotted(l0.value) == arg
    if not depth_first or not descending:
        return False, f"exit order key '{norm(key)}' (reverse={reverse}) is not depth-descending: a parent could exit before its child"
    if not total:
        return False, f"exit order key '{norm(key)}' has no unique tie-break: siblings exit in set order"
    return True, "exit set sorted deepest-first with the unique id as tie-break"


def _domain_is_target_ancestor(fd, ret, tparam):
    from sa.util import compare_parts, derives_from
    val = ret.value
    txt = norm(val)
    atoms = guards_at(fd, ret)
    # (a) built from the target's own parent chain
    if tparam in names_in(val) and ".parent" in txt:
        return True, "domain is the target's parent (an ancestor of the target)"
    # (b) picked from a set intersected with the target's ancestors
    for nm in names_in(val):
        for a in assignments_to(fd, nm):
            v = getattr(a, "value", None)
            if v is None:
                continue
            vt = norm(v)
            if isinstance(v, ast.BinOp) and isinstance(v.op, ast.BitAnd):
                from sa.util import expand_names
                for side in (v.left, v.right):
                    st = norm(expand_names(fd, side))
                    if "_get_ancestors(" in st and tparam in st:
                        return True, "domain is chosen among the common ancestors of source and target"
                    for nm2 in names_in(side):
                        for a2 in assignments_to(fd, nm2):
                            if "_get_ancestors" in norm(getattr(a2, "value", a2)) and tparam in norm(getattr(a2, "value", a2)):
                                return True, "domain is chosen among the common ancestors of source and target"
    # (c) source-derived value: only sound when the target is the source itself, or there is no common ancestor at all
    for a, pol in atoms:
        cp = compare_parts(a)
        if cp and isinstance(cp[1], ast.Eq) and pol and tparam in (norm(cp[0]), norm(cp[2])) and "source" in norm(a):
            return True, "source's parent is returned only when the target is the source itself"
        if isinstance(a, ast.Name) and not pol:
            for asg in assignments_to(fd, a.id):
                if isinstance(getattr(asg, "value", None), ast.BinOp):
                    return True, "degenerate case: source and target share no ancestor"
    return False, (f"'{stmt_text(ret)}' returns a domain derived from the source only, under a condition that does not imply 'target is the "
                   f"source': for a target outside the source's parent the domain is not an ancestor of the target, so the entry path "
                   f"(_get_path_to_state(target, stop_at=domain)) runs up to the root and re-enters active states, and the exit set misses the "
                   f"real common-ancestor subtree")

