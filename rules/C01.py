"""C01 - legal configuration: structural necessary conditions (DESIGN.md section 5, C01)."""
from . import shared


def run(ctx):
    shared.config_writers(ctx, "R1")
    shared.history_path_killed(ctx, "R2a")
    shared.history_target_nonempty(ctx, "R2b")
    shared.descent_filters_history(ctx, "R2c")
    shared.explicit_child_skip(ctx, "R3")
    shared.role_defects(ctx, "R1")
    shared.single_history_entry(ctx, "R4")
    shared.macrostep_in_consumer(ctx, "R5")
    shared.snapshot_ancestor_closure(ctx, "R7")
    shared.restore_every_id(ctx, "R10")
    shared.exit_set_scope(ctx, "R11")
    shared.dotted_id_tests(ctx, "R8")
    shared.stale_source_skip(ctx, "R12")      # seeded change C01-e: a transition run from an inactive source enters beneath inactive ancestors
    # R9: start() enters the root
    import ast
    from sa.program import norm
    from sa.util import self_calls_in
    from .roles import VIEWS, roles
    for v in VIEWS:
        st = roles(ctx, v).start
        calls = self_calls_in(st, "_enter_states")
        ok = any(call.args and isinstance(call.args[0], ast.List) and any(norm(e) == "self.machine" for e in call.args[0].elts) for call in calls)
        ctx.c.ob("R9", ok, st, "start-enters-root", "start() enters the machine root (the default descent activates the rest)" if ok else
                 "start() does not enter [self.machine]: the root would not be part of the configuration", st.node)
