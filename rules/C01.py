"""C01 - legal configuration: structural necessary conditions (DESIGN.md section 5, C01)."""
from . import shared


def run(ctx):
    shared.config_writers(ctx, "R1")
    shared.history_path_killed(ctx, "R2a")
    shared.history_target_nonempty(ctx, "R2b")
    shared.descent_filters_history(ctx, "R2c")
    shared.explicit_child_skip(ctx, "R3")
    shared.single_history_entry(ctx, "R4")
    shared.macrostep_in_consumer(ctx, "R5")
    shared.snapshot_ancestor_closure(ctx, "R7")
    shared.dotted_id_tests(ctx, "R8")
