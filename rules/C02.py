"""C02 - selection: structural necessary conditions."""
import ast

from sa.cfg import cfg_of
from sa.effects import attr_writes
from sa.program import AnalysisError, dotted, norm, own_nodes
from sa.util import (assignments_to, calls_in, cfg_node_of, compare_parts, enclosing_loops, guards_at, self_calls_in,
                     stmt_text)
from . import shared
from .roles import CONFIG_ATTR, VIEWS, roles

FORBIDDEN_IN_SELECTION = ("_execute_actions", "_schedule_state_tasks", "_cancel_state_tasks", "send", "send_events",
                          "_deliver", "_enter_states", "_exit_states", "_complete", "_fail", "_after_timer",
                          "_invoke_service", "_spawn_actor", "_record_history", "_notify_subscribers", "_emit",
                          "_execute_builtin_action", "_apply_assign")


def run(ctx):
    c, p, res = ctx.c, ctx.p, ctx.r
    # ---- R1 purity of selection ------------------------------------------------
    for v in VIEWS:
        r = roles(ctx, v)
        can = p.method(v, "can")
        clo = res.closure([can, r.select], v, include_closures=True)
        c.floor("R1", f"functions in the selection closure ({v})", len(clo), 8)
        for q, (f, par) in sorted(clo.items()):
            sc = f.self_class
            in_hier = sc is not None and sc.is_subclass_of("BaseInterpreter")
            bad_w = []
            for w in attr_writes(f):
                if f.name == "__init__" and w.base == "self":
                    continue        # a constructor initialising its own fresh object
                if in_hier or w.base != "self":
                    bad_w.append(w)
            for w in bad_w:
                c.ob("R1", False, f, f"write:{w.base}.{w.attr}",
                     f"selection is not pure: '{stmt_text(w.node)}' writes state while choosing transitions "
                     f"(reached via {' -> '.join(x.split(':')[1] for x in res.path_to(clo, q))})", w.node,
                     path=res.path_to(clo, q))
            bad_c = [s for s in res.callsites(f, v) if any(t.name in FORBIDDEN_IN_SELECTION and t.cls is not None and
                                                           t.cls.is_subclass_of("BaseInterpreter") for t in s.targets)]
            for s in bad_c:
                c.ob("R1", False, f, f"call:{s.callee_text}",
                     f"selection reaches an effectful operation: {s.callee_text}()", s.call, path=res.path_to(clo, q))
            if not bad_w and not bad_c:
                c.ob("R1", True, f, "pure", "no attribute write and no effectful engine call in this function", f.node)
    # ---- R9 can(event) is exactly "the selection for the event is non-empty" ------------------------------------
    # (a nominee that has no target and no actions still consumes the event and shadows its ancestors' handlers: can() must say yes)
    from sa.util import expand_names as _xn
    cn_ = p.method("BaseInterpreter", "can")
    for v in VIEWS:
        if p.method(v, "can").qualname != cn_.qualname:
            c.ob("R9", False, p.method(v, "can"), "can-overridden", f"{v} overrides can(); rule must be re-derived", p.method(v, "can").node)
    rets9 = [r_ for r_ in own_nodes(cn_.node) if isinstance(r_, ast.Return) and r_.value is not None and
             not (isinstance(r_.value, ast.Constant) and r_.value.value is False)]
    c.expect("R9", "answers of can()", len(rets9), 1, cn_, "can() never answers from the selection any more")
    for r_ in rets9:
        e = _xn(cn_, r_.value)
        core = e
        if isinstance(core, ast.Call) and isinstance(core.func, ast.Name) and core.func.id == "bool" and len(core.args) == 1:
            core = core.args[0]
        elif isinstance(core, ast.Compare) and len(core.ops) == 1:
            l_, op_, r2 = core.left, core.ops[0], core.comparators[0]
            if isinstance(l_, ast.Call) and isinstance(l_.func, ast.Name) and l_.func.id == "len" and isinstance(r2, ast.Constant) and \
                    ((isinstance(op_, ast.Gt) and r2.value == 0) or (isinstance(op_, ast.GtE) and r2.value == 1) or (isinstance(op_, ast.NotEq) and r2.value == 0)):
                core = l_.args[0]
        if isinstance(core, ast.Name):
            core = _xn(cn_, core)
            if isinstance(core, ast.Name):
                vals = [getattr(a_, "value", None) for a_ in assignments_to(cn_, core.id)]
                core = vals[0] if len(vals) == 1 and vals[0] is not None else core
        ok = isinstance(core, ast.Call) and isinstance(core.func, ast.Attribute) and core.func.attr == "_select_transitions" and dotted(core.func.value) == "self"
        c.ob("R9", ok, cn_, "can-is-nonempty-selection", "can() is the truth value of the selection itself" if ok else
             f"'{stmt_text(r_, 90)}' does not answer with 'the selection is non-empty': a nominee the extra condition filters out (no target, no actions, ...) still "
             f"consumes the event in send() while can() says the event would not be handled", r_)
    # ---- R2 no-nominee path is a no-op -----------------------------------------
    for v in VIEWS:
        pe = roles(ctx, v).process_event
        g = cfg_of(pe.node)
        sel = self_calls_in(pe, "_select_transitions")
        if not c.expect("R2", f"selection call in {pe.short}", len(sel), 1, pe, f"{pe.short} no longer calls _select_transitions: no transition is nominated for any event"):
            continue
        sel_nodes = [n for s in sel for n in cfg_node_of(pe, s)]
        sel_stmt = g.nodes[sel_nodes[0]].ast
        var = sel_stmt.targets[0].id if isinstance(sel_stmt, ast.Assign) and isinstance(sel_stmt.targets[0], ast.Name) else None
        c.need(var, f"variable holding the selection result in {pe.short}")
        # fact: with an empty selection nothing but logging runs after the selection call (whether written as an early return, as
        # an ``if selected: ...`` around the rest, or as a bare loop over the selection)
        after = g.reachable_from_succ(sel_nodes[0], follow_exc=False)
        offenders = []
        n_calls = 0
        for nid in after:
            node = g.nodes[nid]
            if node.ast is None or nid in sel_nodes:
                continue
            calls_here = [x for x in ast.walk(node.ast) if isinstance(x, ast.Call) and not (isinstance(x.func, ast.Attribute) and dotted(x.func.value) == "logger")
                          and not (isinstance(x.func, ast.Name) and x.func.id in ("len", "isinstance", "list", "tuple", "sorted"))]
            if node.kind in ("stmt", "test") and isinstance(node.ast, (ast.For, ast.While, ast.If, ast.Try, ast.With)):
                continue          # compound statements are represented by their parts
            for x in calls_here:
                n_calls += 1
                at = guards_at(pe, x)
                nonempty = any(isinstance(a, ast.Name) and a.id == var and pol for a, pol in at) or \
                    any(isinstance(l, ast.For) and isinstance(l.iter, ast.Name) and l.iter.id == var for l in enclosing_loops(pe, x))
                if not nonempty:
                    offenders.append(x)
        c.expect("R2", f"operations after the selection in {pe.short}", n_calls, 1, pe, f"{pe.short} does nothing with the selected transitions")
        c.ob("R2", not offenders, pe, "no-nominee-return",
             "nothing but logging runs after an empty selection" if not offenders else
             f"an unhandled event is not a no-op: '{stmt_text(offenders[0])}' runs although the selection is empty (it is not under a test of '{var}'): "
             f"an event with no nominee runs on into the transition machinery (notifications, settle, history)",
             offenders[0] if offenders else sel[0])
    # ---- R3 stale-source skip --------------------------------------------------
    shared.stale_source_skip(ctx, "R3")
    # ---- R4 one selection implementation ---------------------------------------
    base = p.cls("BaseInterpreter")
    for name in ("_select_transitions", "_collect_eligible_transitions", "_is_guard_satisfied",
                 "_matching_descriptors", "_is_state_in", "can"):
        bf = c.need(base.methods.get(name), f"BaseInterpreter.{name}")
        for v in VIEWS:
            vf = p.method(v, name)
            same = vf.qualname == bf.qualname
            if not same:
                same = shared.normalised_body(vf) == shared.normalised_body(bf)
            c.ob("R4", same, vf, f"override:{name}",
                 "both engines share the base implementation" if same else
                 f"{vf.short} overrides {name} with a different body: selection differs between engines", vf.node)
    for v in VIEWS:
        r = roles(ctx, v)
        for f in (r.process_event, r.settle, p.method(v, "can")):
            ss = [s for s in res.callsites(f, v) if s.callee_text.endswith("_select_transitions")]
            ok = bool(ss) and all(t.qualname == r.select.qualname for s in ss for t in s.targets)
            c.ob("R4", ok, f, "uses-shared-selection", "calls the one selection routine" if ok else
                 f"{f.short} does not obtain its transitions from _select_transitions", f.node)
    # ---- R6 memoised guard verdicts are keyed by the identity of what was evaluated ----
    n_memo = 0
    for v in VIEWS[:1]:
        clo = res.closure([roles(ctx, v).select], v, include_closures=True)
        for q, (f, par) in sorted(clo.items()):
            for x in own_nodes(f.node):
                if not (isinstance(x, ast.Assign) and len(x.targets) == 1 and isinstance(x.targets[0], ast.Subscript)
                        and isinstance(x.value, ast.Call)):
                    continue
                tgt = x.targets[0]
                if not (isinstance(tgt.value, ast.Name) and "cache" in tgt.value.id.lower() or isinstance(tgt.value, ast.Name) and "memo" in tgt.value.id.lower()):
                    continue
                n_memo += 1
                key = tgt.slice
                kexpr = key
                if isinstance(key, ast.Name):
                    defs = [a for a in assignments_to(f, key.id) if isinstance(a, ast.Assign) and
                            any(isinstance(t_, ast.Name) and t_.id == key.id for t_ in a.targets)]
                    kexpr = defs[-1].value if defs else key
                evaluated = [a for a in x.value.args]
                roots = set()
                for a in evaluated:
                    roots.add(norm(a))
                    b = a
                    while isinstance(b, ast.Attribute):
                        b = b.value
                        roots.add(norm(b))
                ok = _identity_key(kexpr, roots)
                c.ob("R6", ok, f, f"memo-key:{tgt.value.id}",
                     f"memo '{tgt.value.id}' is keyed by the identity of the evaluated object ({norm(kexpr)})" if ok else
                     f"memo '{tgt.value.id}' stores the verdict of '{stmt_text(x.value, 60)}' under the key '{norm(kexpr)}', which is not the identity of "
                     f"the transition/guard that was evaluated: two different guards can share one slot within a selection pass, so a candidate "
                     f"whose own guard is false can be nominated (and an enabled one skipped)", x)
    c.ob("R6", True, "selection closure", "memo-sites", f"{n_memo} memoised guard evaluation(s) examined (none is fine: every candidate is then evaluated directly)", None, nontrivial=False)
    shared.eligible_bucket_rules(ctx, "R8", "guard")
    # ---- R7 a transition shared by several regions is selected once ---------------------
    sel = roles(ctx, "Interpreter").select
    from sa.util import returned_name, expand_names as expand_names_
    SEL = returned_name(sel, "selected")
    apps = [x for x in own_nodes(sel.node) if isinstance(x, ast.Call) and isinstance(x.func, ast.Attribute) and x.func.attr == "append"
            and dotted(x.func.value) == SEL]
    # the same selection kept in a dict keyed by identity:  winners.setdefault(id(winner), winner)  - recording and de-duplication in one step
    keyed = [x for x in own_nodes(sel.node) if isinstance(x, ast.Call) and isinstance(x.func, ast.Attribute) and x.func.attr == "setdefault" and len(x.args) == 2
             and isinstance(x.args[0], ast.Call) and isinstance(x.args[0].func, ast.Name) and x.args[0].func.id == "id" and x.args[0].args
             and norm(x.args[0].args[0]) == norm(x.args[1])
             and any(isinstance(r_, ast.Return) and r_.value is not None and (norm(x.func.value) + ".values()") in norm(expand_names_(sel, r_.value)) for r_ in own_nodes(sel.node))] if not apps else []
    for x in keyed:
        c.ob("R7", True, sel, "selected-once-by-identity", "winners are kept in a dict keyed by their identity: a shared winner is stored once", x)
    c.expect("R7", "appends to the selection list", len(apps) + len(keyed), 1, sel, "the winner of a leaf is no longer appended to the selection: nominated transitions never fire")
    for x in apps:
        ok = False
        for a, pol in guards_at(sel, x):
            cp = compare_parts(a)
            if cp and isinstance(cp[1], ast.NotIn) and pol and "id(" in norm(cp[0]) and norm(x.args[0]) in norm(cp[0]):
                ok = True
        c.ob("R7", ok, sel, "selected-once-by-identity", "a winner is appended only if its identity was not selected yet in this pass" if ok else
             "winners are appended without the identity de-duplication: a transition declared on an ancestor shared by N regions fires N times", x)
        # the identity is recorded next to the append (otherwise the test above never becomes true)
        seen_sets = {norm(cp[2]) for a, pol in guards_at(sel, x) for cp in [compare_parts(a)] if cp and isinstance(cp[1], ast.NotIn) and pol and "id(" in norm(cp[0])}
        adds = [y for y in own_nodes(sel.node) if isinstance(y, ast.Call) and isinstance(y.func, ast.Attribute) and y.func.attr == "add" and norm(y.func.value) in seen_sets
                and y.args and "id(" in norm(y.args[0]) and norm(x.args[0]) in norm(y.args[0])]
        same_guards = [y for y in adds if {(norm(a), pol) for a, pol in guards_at(sel, y)} == {(norm(a), pol) for a, pol in guards_at(sel, x)}]
        c.ob("R7", bool(same_guards) or not ok, sel, "selected-identity-recorded", "the identity of an appended winner is recorded in the same branch" if same_guards else
             "the identity of an appended winner is never recorded in the 'seen' set: the de-duplication test is always true and a transition declared on "
             "an ancestor shared by N regions fires N times", x)
    # ---- R5 leaf order is a total order ----------------------------------------
    shared.set_order(ctx, "R5", ("base_interpreter",),
                     only_funcs={"BaseInterpreter._select_transitions", "BaseInterpreter._collect_eligible_transitions"})


def _identity_key(kexpr, roots) -> bool:
    """id(X) / X / a tuple whose first component is one of those, where X is (a prefix of) the evaluated object."""
    if isinstance(kexpr, ast.Call) and isinstance(kexpr.func, ast.Name) and kexpr.func.id == "id" and kexpr.args:
        return norm(kexpr.args[0]) in roots
    if isinstance(kexpr, ast.Tuple) and kexpr.elts:
        return any(_identity_key(e, roots) for e in kexpr.elts)
    if isinstance(kexpr, (ast.Name, ast.Attribute)):
        return norm(kexpr) in roots and not norm(kexpr).endswith((".type", ".name", ".event"))
    return False
