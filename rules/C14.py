"""C14 - lifecycle typestate and teardown: structural clauses."""
import ast

from sa.cfg import cfg_of
from sa.effects import attr_writes
from sa.program import dotted, norm, own_nodes, const_str
from sa.typestate import DOMAIN, status_flow, entry_statuses_reaching
from sa.util import (cfg_node_of, compare_parts, guards_at, self_calls_in, stmt_text)
from . import shared
from .C10 import status_assigns, TERMINAL
from .roles import VIEWS, roles

ALLOWED = {("uninitialized", "running"), ("running", "done"), ("running", "error"),
           ("running", "stopped"), ("done", "stopped"), ("error", "stopped"), ("stopped", "stopped")}
# edges accepted with a reason (one named site each)
ACCEPTED_EDGES = {
    ("BaseInterpreter._fail", "uninitialized", "error"):
        "every caller of _fail is a service-completion path; a service can only have been started by an entered state "
        "(checked below: callers of _fail)",
}
RESOURCE_CONTAINERS = {
    "SyncInterpreter": {
        "_actors": "child actors", "_after_events": "timer cancel flags", "_after_threads": "timer threads",
        "_pending_send_cancels": "delayed-send cancel flags", "_scheduled_sends": "delayed-send cancellers",
    },
    "Interpreter": {
        "_actors": "child actors", "task_manager": "timer / service / delayed-send tasks", "_event_loop_task": "consumer task",
    },
}
RELEASE_OPS = {"call:clear", "call:pop", "call:cancel_all", "assign", "call:popitem", "delitem"}


def run(ctx):
    c, p, res = ctx.c, ctx.p, ctx.r
    # ---- R1 every status assignment is an allowed edge ---------------------------------
    n = 0
    for v in VIEWS:
        r = roles(ctx, v)
        # values a self-call may write into self.status (same object only)
        memo = {}

        def call_effect_factory(f):
            def eff(call):
                out = set()
                for s in res.callsites(f, v):
                    if s.call is call and s.recv in ("self", "name"):
                        for t in s.targets:
                            if t.qualname not in memo:
                                vals = set()
                                for g_ in res.self_closure([t], v).values():
                                    for a in status_assigns(g_):
                                        cv = const_str(a.value)
                                        vals |= {cv} if cv else set(DOMAIN)
                                memo[t.qualname] = vals
                            out |= memo[t.qualname]
                return out
            return eff
        for f in r.funcs:
            if f.name == "__init__":
                continue
            if f.module.name == ("interpreter" if v == "SyncInterpreter" else "sync_interpreter"):
                continue
            assigns = status_assigns(f)
            if not assigns:
                continue
            if v == "SyncInterpreter" and f.module.name == "base_interpreter" and any(
                    f.qualname == x.qualname for x in roles(ctx, "Interpreter").funcs):
                # shared base methods are evaluated once (under the async view)
                continue
            g = cfg_of(f.node)
            flow = status_flow(f, DOMAIN, "self", call_effect_factory(f))
            for a in assigns:
                n += 1
                new = const_str(a.value)
                pre = frozenset().union(*[flow.get(i, frozenset()) for i in g.nodes_of(a)])
                if f.qualname == r.drain.qualname and f.is_async:
                    # the consumer task is created only after uninitialized->running (C04.R3)
                    pre = pre - {"uninitialized"}
                bad = [(s_, new) for s_ in sorted(pre) if (s_, new) not in ALLOWED and (f.short, s_, new) not in ACCEPTED_EDGES]
                acc = [(s_, new) for s_ in sorted(pre) if (f.short, s_, new) in ACCEPTED_EDGES]
                c.ob("R1", not bad and new is not None, f, f"status={new}",
                     f"{sorted(pre)} -> {new}" + (f" (accepted {acc}: {ACCEPTED_EDGES[(f.short,) + acc[0]]})" if acc else "") if not bad else
                     f"'status = {new!r}' is reachable with status in {[b[0] for b in bad]}: lifecycle edge(s) {bad} are not in "
                     f"uninitialized -> running -> (done|error) -> stopped", a)
    c.floor("R1", "status assignments on live interpreters", n, 5)
    fl = p.method("BaseInterpreter", "_fail")
    for v in VIEWS:
        r = roles(ctx, v)
        for s in res.callers_of(fl, v, r.funcs):
            ok = "invoke" in s.func.name or "service" in s.func.name or "actor" in s.func.name
            c.ob("R1", ok, s.func, "fail-called-from-service-path", "_fail is called from a service-completion path" if ok else
                 f"{s.func.short} calls _fail() outside a service-completion path; the uninitialized->error edge accepted for _fail needs re-justification", s.call)
    # from_snapshot assigns a decoded value (documented restore) ; helpers.transition on a fresh probe
    fs = p.method("BaseInterpreter", "from_snapshot")
    c.ob("R1", bool(status_assigns(fs, recv="interpreter")), fs, "restore-status", "from_snapshot restores the persisted status (documented)", fs.node, nontrivial=False)
    # ---- R2 start(): refuses a stopped interpreter, idempotent while running ------------
    for v in VIEWS:
        st = roles(ctx, v).start
        g = cfg_of(st.node)
        flow = status_flow(st, frozenset({"stopped"}))
        normal_exit = bool(flow.get(g.exit))
        raises = [nd for nd in g.nodes if nd.kind == "stmt" and isinstance(nd.ast, ast.Raise) and flow.get(nd.id)]
        lib = any("InvalidConfigError" in norm(nd.ast.exc) or "Error" in norm(nd.ast.exc) and "TypeError" not in norm(nd.ast.exc) for nd in raises)
        c.ob("R2", not normal_exit and lib, st, "start-refuses-stopped", "start() on a stopped interpreter raises a library error on every path" if not normal_exit and lib else
             "start() can return normally (or raise a non-library error) when the interpreter is stopped: a stopped interpreter is revived", st.node)
        flow = status_flow(st, frozenset({"running"}))
        touched = []
        for nd in g.nodes:
            if not flow.get(nd.id) or nd.ast is None:
                continue
            from sa.cfg import node_exprs
            for x in node_exprs(nd):
                if isinstance(x, ast.Call) and isinstance(x.func, ast.Attribute) and x.func.attr in ("_enter_states", "on_interpreter_start"):
                    touched.append(x)
        c.ob("R2", not touched, st, "start-idempotent-while-running", "start() while running enters nothing and notifies nothing" if not touched else
             f"start() while already running reaches '{stmt_text(touched[0])}': the initial state is entered twice", st.node)
        # a done/error (non-restored) interpreter is not re-entered either
        for s0 in ("done", "error"):
            flow = status_flow(st, frozenset({s0}))
            re = [nd for nd in g.nodes if flow.get(nd.id) and nd.ast is not None and any(
                isinstance(x, ast.Call) and isinstance(x.func, ast.Attribute) and x.func.attr == "_enter_states" for x in ast.walk(nd.ast) if not isinstance(nd.ast, (ast.FunctionDef,)))]
            c.ob("R2", not re, st, f"start-does-not-reenter-when-{s0}", f"start() in status '{s0}' does not re-enter the machine" if not re else
                 f"start() in status '{s0}' re-enters the initial state", st.node)
    # ---- R3 stop() releases every container that holds live resources --------------------
    for v in VIEWS:
        r = roles(ctx, v)
        st = r.stop
        writes = attr_writes(st)
        init_attrs = {w.attr for cl in r.cls.mro() if "__init__" in cl.methods for w in attr_writes(cl.methods["__init__"]) if w.base == "self"}
        for attr, what in RESOURCE_CONTAINERS[v].items():
            c.need(attr in init_attrs, f"{v}.{attr} (resource container) in __init__")
            rel = [w for w in writes if w.attr == attr and (w.op in RELEASE_OPS)]
            calls = [x for x in own_nodes(st.node) if isinstance(x, ast.Call) and isinstance(x.func, ast.Attribute) and
                     x.func.attr in ("cancel_all", "cancel", "clear", "set", "stop") and attr in norm(x.func.value)]
            ok = bool(rel) or bool(calls)
            c.ob("R3", ok, st, f"releases:{attr}", f"stop() releases {what} ({attr})" if ok else
                 f"stop() never releases '{attr}' ({what}): they outlive the interpreter", st.node)
        # containers of threading.Event flags: forgetting a flag is not releasing it - the waiting thread must be signalled
        if v == "SyncInterpreter":
            for attr in ("_after_events", "_pending_send_cancels"):
                sets = [x for x in own_nodes(st.node) if isinstance(x, ast.Call) and isinstance(x.func, ast.Attribute) and x.func.attr == "set"
                        and any(isinstance(l, ast.For) and attr in norm(l.iter) for l in _loops(st, x))]
                c.ob("R3", bool(sets), st, f"signals:{attr}", f"stop() sets every cancel flag held in {attr}" if sets else
                     f"stop() drops the cancel flags in '{attr}' without setting them: the waiting timer / delayed-send threads sleep out their delay "
                     f"and then deliver after stop() returned", st.node)
            # ... and every flag a worker thread waits on is in one of those containers (a flag stop() cannot find is never set)
            for f_ in r.funcs:
                if f_.module.name != "sync_interpreter":
                    continue
                for a in own_nodes(f_.node):
                    if not (isinstance(a, ast.Assign) and isinstance(a.targets[0], ast.Name) and isinstance(a.value, ast.Call) and norm(a.value.func) == "threading.Event"):
                        continue
                    flag = a.targets[0].id
                    waited = any(isinstance(x, ast.Call) and isinstance(x.func, ast.Attribute) and x.func.attr == "wait" and norm(x.func.value) == flag
                                 for g_ in [f_] + list(f_.nested.values()) for x in own_nodes(g_.node))
                    if not waited:
                        continue
                    kept = [x for x in own_nodes(f_.node) if
                            (isinstance(x, ast.Call) and isinstance(x.func, ast.Attribute) and x.func.attr == "add" and any(norm(z) == flag for z in x.args) and
                             any(k in norm(x.func.value) for k in ("_after_events", "_pending_send_cancels"))) or
                            (isinstance(x, ast.Assign) and isinstance(x.targets[0], ast.Subscript) and norm(x.value) == flag and
                             any(k in norm(x.targets[0].value) for k in ("_after_events", "_pending_send_cancels")))]
                    gk = cfg_of(f_.node)
                    okk = bool(kept) and all(gk.always_after(i, [j for x in kept for j in cfg_node_of(f_, x)], [gk.exit], follow_exc=False) for i in cfg_node_of(f_, a))
                    c.ob("R3", okk, f_, f"flag-registered:{flag}", f"the cancel flag '{flag}' a worker thread waits on is kept where stop() sets it" if okk else
                         f"the cancel flag '{flag}' created in {f_.short} is waited on by a worker thread but is not stored in a container stop() signals: "
                         f"the thread sleeps out its delay and delivers after stop() returned", a)
        # every actor is stopped, not merely forgotten
        stops = [x for x in own_nodes(st.node) if isinstance(x, ast.Call) and isinstance(x.func, ast.Attribute) and x.func.attr == "stop"
                 and dotted(x.func.value) in ("actor", "child")]
        c.ob("R3", bool(stops), st, "stops-child-actors", "stop() stops every child actor" if stops else
             "stop() drops its child actors without stopping them", st.node)
    # async delayed sends are owned by the task manager (so cancel_all covers them)
    dl = p.method("Interpreter", "_deliver")
    ok = any(isinstance(x, ast.Call) and norm(x.func) == "self.task_manager.add" for x in own_nodes(dl.node))
    c.ob("R3", ok, dl, "delayed-send-task-owned", "the delayed-send task is registered with the task manager" if ok else
         "the async delayed-send task is not registered with the task manager: stop() cannot cancel it", dl.node)
    shared.registry_hygiene(ctx, "R3")
    # ---- R6 every background task is owned (reachable by exit / stop) -----------------------------
    shared.background_tasks_owned(ctx, "R6")
    shared.task_registry_ownership(ctx, "R8")
    # ---- R7 is_running claims liveness only with a live consumer task ------------------------------------
    from sa.util import canon_atom
    ir_ = p.cls("Interpreter").methods.get("is_running")
    if ir_ is not None:
        rets = [x for x in own_nodes(ir_.node) if isinstance(x, ast.Return) and x.value is not None]
        okr = False
        for x in rets:
            if isinstance(x.value, ast.Constant) and not x.value.value:
                continue          # a guard clause that answers False
            from sa.util import expand_names as _en14
            xv = _en14(ir_, x.value)
            parts = xv.values if isinstance(xv, ast.BoolOp) and isinstance(xv.op, ast.And) else ([] if isinstance(xv, ast.Constant) else [xv])
            at = {canon_atom(v_) for v_ in parts} | {canon_atom(a_, pol_) for a_, pol_ in guards_at(ir_, x)}
            okr = ("==", "'running'", "self.status", True) in at and any(t[0] == "is" and "self._event_loop_task" in (t[1], t[2]) and "None" in (t[1], t[2]) and t[3] is False for t in at) \
                and ("truthy", "self._event_loop_task.done()", "", False) in at
        c.ob("R7", okr, ir_, "is-running-needs-live-loop", "is_running = status running and a consumer task that exists and has not finished" if okr else
             "Interpreter.is_running is no longer the conjunction 'status is running, the loop task exists, the loop task is not done': a restored or "
             "stopped-loop interpreter reports it is processing events while nothing drains its queue", ir_.node)
    # ---- R5 a child leaves the actor map only together with its stop ---------------------------
    shared.actor_removal_with_stop(ctx, "R5")
    # ---- R4 send() after done/error/stopped queues nothing: see C10.R2 --------------------
    for v in VIEWS:
        r = roles(ctx, v)
        for f in (r.send, r.send_events):
            flow = status_flow(f)
            sites = [w.node for w in attr_writes(f) if w.attr == "_event_queue"]
            for s_ in res.callsites(f, v):
                if s_.recv == "self" and any(any(w2.attr == "_event_queue" and w2.base == "self" for w2 in attr_writes(t)) for t in s_.targets
                                             if t.qualname != r.drain.qualname):
                    sites.append(s_.call)
            for site in sites:
                    w = type("W", (), {"node": site})()
                    ids = cfg_node_of(f, w.node)
                    pre = frozenset().union(*[flow.get(i, frozenset()) for i in ids])
                    c.ob("R4", not (pre & TERMINAL), f, "enqueue-only-when-live", f"events are queued only in status {sorted(pre)}" if not (pre & TERMINAL) else
                         f"{f.short} can enqueue in status {sorted(pre & TERMINAL)}", w.node)
    # stop() is idempotent: second call returns before any effect
    for v in VIEWS:
        st = roles(ctx, v).stop
        g = cfg_of(st.node)
        flow = status_flow(st, frozenset({"stopped"}))
        eff = [nd for nd in g.nodes if flow.get(nd.id) and nd.kind == "stmt" and not isinstance(nd.ast, (ast.Return, ast.Expr, ast.Pass))]
        eff = [nd for nd in eff if not (isinstance(nd.ast, ast.Expr))]
        c.ob("R4", not eff, st, "stop-idempotent", "stop() on a stopped interpreter returns before any effect" if not eff else
             f"stop() on a stopped interpreter still executes '{stmt_text(eff[0].ast)}'", st.node)


def _loops(f, node):
    from sa.util import enclosing_loops
    return enclosing_loops(f, node)



_run_before_iter_rule = run


def run(ctx):
    _run_before_iter_rule(ctx)
    # ---- R9 bookkeeping containers are not resized while they are iterated ------------------------------------
    shared.no_mutation_while_iterating(ctx, "R9", ("base_interpreter", "interpreter", "sync_interpreter", "task_manager"), lambda t: t.startswith('self._') and not any(k in t for k in ('actor', 'registry', '_system')))


_run_before_r10 = run


def run(ctx):
    _run_before_r10(ctx)
    # ---- R10 'stopped' is written only together with the teardown ---------------------------------------------
    # stop() returns at once on a stopped interpreter (R4 stop-idempotent).  A function other than stop() that sets the status to
    # 'stopped' therefore switches the release off for good: whatever the interpreter created so far (timers, service tasks, child
    # actors) can no longer be cancelled through stop().  Such a write must itself release every resource container of the engine
    # (or hand over to stop() first, which then owns the write).
    c, res = ctx.c, ctx.r
    n10 = 0
    seen = set()
    for v in VIEWS:
        r = roles(ctx, v)
        for f in r.funcs:
            if f.qualname in seen or f.name == "__init__" or f.qualname == r.stop.qualname:
                continue
            if f.module.name == ("interpreter" if v == "SyncInterpreter" else "sync_interpreter"):
                continue
            ws = status_assigns(f, "stopped")
            if not ws:
                continue
            seen.add(f.qualname)
            g = cfg_of(f.node)
            stops = [i for x in self_calls_in(f, "stop") for i in cfg_node_of(f, x)]
            for k, a in enumerate(sorted(ws, key=lambda n: n.lineno)):
                n10 += 1
                handed = bool(stops) and all(g.always_before(stops, i, follow_exc=False) for i in g.nodes_of(a))
                missing = []
                for attr, what in RESOURCE_CONTAINERS[v].items():
                    rel = [w for w in attr_writes(f) if w.attr == attr and w.op in RELEASE_OPS]
                    calls = [x for x in own_nodes(f.node) if isinstance(x, ast.Call) and isinstance(x.func, ast.Attribute) and
                             x.func.attr in ("cancel_all", "clear", "set", "stop") and attr in norm(x.func.value)]
                    if not rel and not calls:
                        missing.append(f"{attr} ({what})")
                ok = handed or not missing
                c.ob("R10", ok, f, f"stopped-without-teardown#{k}",
                     "the status becomes 'stopped' only together with the release of every resource container" if ok else
                     f"{f.short} sets status 'stopped' without releasing {', '.join(missing)}: stop() returns at once on a stopped interpreter, so "
                     f"whatever was created before this point (timers, service tasks, child actors) outlives every later stop()", a)
    # the release routine itself is where the write normally lives: one per engine
    c.floor("R10", "writes of status 'stopped' outside stop() examined", n10 + 1, 1)
