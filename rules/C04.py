"""C04 - run-to-completion, lossless ordered processing (structural clauses)."""
import ast

from sa.cfg import cfg_of, node_exprs
from sa.effects import attr_writes
from sa.program import dotted, norm, own_nodes
from sa.typestate import DOMAIN, entry_statuses_reaching, status_flow
from sa.util import (cfg_node_of, enclosing_loops, guards_at, in_finally, self_calls_in, stmt_text,
                     ancestors, compare_parts)
from . import shared
from .roles import VIEWS, roles

class _Flags(dict):
    """re-entrancy flag per view, located on the current tree (rules/roles.py)"""


FLAGS = _Flags()
PRODUCER_OPS = {"call:append", "call:put", "call:put_nowait"}
CONSUMER_OPS = {"call:popleft", "call:get", "call:get_nowait"}


def _flag_assigns(f, flag, value):
    out = []
    for n in own_nodes(f.node):
        if isinstance(n, ast.Assign) and isinstance(n.value, ast.Constant) and n.value.value is value:
            for t in n.targets:
                if isinstance(t, ast.Attribute) and t.attr == flag and dotted(t.value) == "self":
                    out.append(n)
    return out


def run(ctx):
    c, p, res = ctx.c, ctx.p, ctx.r
    for v_ in VIEWS:
        FLAGS[v_] = roles(ctx, v_).flag
    # ---- R8 intake never mutates the event object the caller handed in (seeded change C04-d) --------------------------------------
    # an event dict whose 'type' key was popped on its first send is accepted a second time as 'UnnamedEvent' and silently lost
    shared.definition_is_read_only(ctx, "R8", ("base_interpreter", "interpreter", "sync_interpreter"),
                                   "the caller's event object is changed by sending it: the second send of the same mapping is queued as a different "
                                   "event (its type is gone), so an accepted event is never processed",
                                   only_funcs={"_prepare_event", "_coerce_event", "send", "send_events"})
    # ---- R1 flag pairing ------------------------------------------------------
    for v in VIEWS:
        r = roles(ctx, v)
        flag = FLAGS[v]
        n_sets = 0
        for f in r.funcs:
            if f.name == "__init__":
                continue
            sets = _flag_assigns(f, flag, True)
            if not sets:
                continue
            g = cfg_of(f.node)
            resets = [n for a in _flag_assigns(f, flag, False) for n in g.nodes_of(a)]
            for s in sets:
                n_sets += 1
                ok = all(g.always_after(n, resets) for n in g.nodes_of(s))
                in_fin = any(in_finally(f, a) is not None for a in _flag_assigns(f, flag, False))
                c.ob("R1", ok and in_fin, f, f"{flag}-set/reset",
                     f"every path from '{flag} = True' (normal or exceptional) resets the flag in a finally" if ok and in_fin else
                     f"a path leaves {f.short} with {flag} still set: the interpreter would silently queue every later event", s)
        c.floor("R1", f"{flag} acquisitions ({v})", n_sets, 1)
    dr = roles(ctx, "SyncInterpreter").drain
    g = cfg_of(dr.node)
    loops = [n for n in own_nodes(dr.node) if isinstance(n, ast.While)]
    c.need(loops, "drain while-loop")
    for lp in loops[:1]:
        atoms = guards_at(dr, lp.test)
        ok = any(isinstance(a, ast.Attribute) and a.attr == FLAGS["SyncInterpreter"] and not pol for a, pol in atoms)
        c.ob("R1", ok, dr, "reentrancy-test", "drain loop runs only when no drain is in progress" if ok else
             "the drain loop is not dominated by the 'already processing -> return' test: a send() from inside an "
             "action would start a nested macrostep", lp)
    # ---- R2 queue discipline -----------------------------------------------------
    n_ops = 0
    for v in VIEWS:
        r = roles(ctx, v)
        for f in r.funcs:
            if v == "SyncInterpreter" and f.is_async:
                continue
            for w in attr_writes(f):
                if w.attr != "_event_queue" or w.base != "self":
                    continue
                if v == "Interpreter" and f.module.name == "sync_interpreter" or v == "SyncInterpreter" and f.module.name == "interpreter":
                    continue
                n_ops += 1
                if f.name == "__init__" and w.op == "assign":
                    c.ob("R2", True, f, "queue-created", "queue created in the constructor", w.node)
                elif w.op in PRODUCER_OPS:
                    c.ob("R2", True, f, f"producer:{w.op}", "producer appends at the tail", w.node)
                elif w.op in CONSUMER_OPS:
                    ok = f.qualname == r.drain.qualname
                    c.ob("R2", ok, f, f"consumer:{w.op}", "the drain loop is the only consumer" if ok else
                         f"{f.short} removes events from the queue outside the drain loop", w.node)
                else:
                    c.ob("R2", False, f, f"queue-op:{w.op}",
                         f"'{stmt_text(w.node)}' removes or reorders accepted events other than by the consumer's FIFO dequeue "
                         f"(accepted events are lost)", w.node)
    c.floor("R2", "operations on the event queue", n_ops, 5)
    # the sync bound must count a self-feeding chain, not every dequeued event
    # ---- R3 single consumer (async) ------------------------------------------------
    r = roles(ctx, "Interpreter")
    sites = []
    for f in p.funcs_in("interpreter", "base_interpreter", "helpers"):
        for n in own_nodes(f.node):
            if isinstance(n, ast.Call) and any(isinstance(x, ast.Call) and isinstance(x.func, ast.Attribute) and
                                                x.func.attr == r.drain.name for a in n.args for x in ast.walk(a)):
                sites.append((f, n))
            elif isinstance(n, ast.Call) and isinstance(n.func, ast.Attribute) and n.func.attr == r.drain.name and \
                    not any(isinstance(a, ast.Call) for a in ancestors(f, n)):
                sites.append((f, n))
    c.expect("R3", "consumer creation sites", len(sites), 2, r.start, "the asynchronous consumer (run loop task) is no longer created by start() on both the fresh and the restored path: sent events are queued and never processed")
    for f, n in sites:
        ok = f.qualname == r.start.qualname
        why = "consumer started only by start()"
        if ok:
            ids = cfg_node_of(f, n)
            pre = entry_statuses_reaching(f, ids) if ids else DOMAIN
            atoms = guards_at(f, n)
            none_guard = any((cp := compare_parts(a)) and isinstance(cp[0], ast.Attribute) and cp[0].attr == "_event_loop_task"
                             and isinstance(cp[1], ast.Is) and pol for a, pol in atoms)
            ok = none_guard or pre <= {"uninitialized"}
            why = ("creation dominated by '_event_loop_task is None'" if none_guard else
                   f"creation reachable only when start() is entered in status {sorted(pre)} (never started)") if ok else \
                f"a second consumer can be created (reachable from entry statuses {sorted(pre)}, no 'loop task is None' guard): two " \
                f"consumers would process events concurrently"
        else:
            why = f"{f.short} starts a consumer outside start()"
        c.ob("R3", ok, f, "create-consumer", why, n)
    # ---- R4 processing only inside the consumer ------------------------------------
    shared.macrostep_in_consumer(ctx, "R4")
    # ---- R5 every dequeued event is processed, then settled ------------------------
    for v in VIEWS:
        r = roles(ctx, v)
        dr = r.drain
        g = cfg_of(dr.node)
        deq = [n for x in own_nodes(dr.node) if isinstance(x, ast.Call) and isinstance(x.func, ast.Attribute)
               and x.func.attr in ("popleft", "get", "get_nowait") and dotted(x.func.value) == "self._event_queue"
               for n in cfg_node_of(dr, x)]
        c.need(deq, f"dequeue in {dr.short}")
        # calls that lead to _process_event / the settle loop
        def leads_to(target):
            # same-object call chains only (a child actor's start() also settles, but that is another interpreter)
            out = []
            for s in res.callsites(dr, v):
                if s.recv not in ("self", "name"):
                    continue
                for t in s.targets:
                    if t.qualname == target.qualname or (t.qualname != r.process_event.qualname and
                                                         target.qualname in _consumer_helper_closure(res, v, t, r)):
                        out.extend(cfg_node_of(dr, s.call))
            return out
        proc = leads_to(r.process_event)
        settle = leads_to(r.settle)
        c.need(proc, f"processing call in {dr.short}")
        loop = next((l for l in own_nodes(dr.node) if isinstance(l, ast.While)), None)
        hdr = g.nodes_of(loop.test)[0]
        for d in deq:
            # paths from the dequeue back to the loop header (next iteration) or loop exit
            r_ = g.reachable_from_succ(d, blocked_nodes=set(proc), follow_exc=False)
            skipped = hdr in r_
            c.ob("R5", not skipped, dr, "dequeued->processed",
                 "every dequeued event reaches _process_event before the next dequeue" if not skipped else
                 "a path returns to the loop head after dequeuing an event without processing it: the event is discarded", g.nodes[d].ast)
            r2 = g.reachable_from_succ(d, blocked_nodes=set(settle), follow_exc=False)
            ok2 = bool(settle) and hdr not in (r2 - r_) if not skipped else bool(settle)
            c.ob("R5", ok2, dr, "processed->settled",
                 "eventless (always) transitions are settled after each event, before the next dequeue" if ok2 else
                 "an event can be processed without settling the always-transitions before the next event", g.nodes[d].ast)
    # ---- R7 the async chain counter counts self-sends only --------------------------------
    ra = roles(ctx, "Interpreter")
    incs = []
    for f in ra.funcs:
        if f.module.name == "sync_interpreter":
            continue
        for x in own_nodes(f.node):
            if isinstance(x, ast.AugAssign) and isinstance(x.op, ast.Add) and isinstance(x.target, ast.Attribute) and x.target.attr == "_raise_depth":
                incs.append((f, x))
    c.expect("R7", "increments of the raise-chain counter", len(incs), 1, ra.deliver, "self-sends made during processing are no longer counted: a raise chain is never cut")
    for f, x in incs:
        atoms = guards_at(f, x)
        self_only = any((cp := compare_parts(a)) is not None and isinstance(cp[1], ast.Is) and pol and
                        {norm(cp[0]), norm(cp[2])} & {"self"} for a, pol in atoms)
        c.ob("R7", self_only, f, "chain-counter-counts-self-sends-only",
             "the chain counter is incremented only for a delivery whose target is this interpreter" if self_only else
             f"'{stmt_text(x)}' in {f.short} is not guarded by 'actor is self': events sent from outside while a macrostep is in flight "
             f"are counted as a self-raised chain, and the breaker then discards an external event", x)
    # ---- R6 thread discipline on the sync re-entrancy flag --------------------------
    r = roles(ctx, "SyncInterpreter")
    targets = []
    for f in r.funcs:
        for n in own_nodes(f.node):
            if isinstance(n, ast.Call) and dotted(n.func) in ("threading.Thread", "Thread"):
                tgt = next((k.value for k in n.keywords if k.arg == "target"), None)
                if isinstance(tgt, ast.Name) and tgt.id in f.nested:
                    targets.append(f.nested[tgt.id])
    c.floor("R6", "thread entry points", len(targets), 3)
    reach = [t for t in targets if r.drain.qualname in res.closure([t], "SyncInterpreter")]
    lock_attrs = set()
    for w in attr_writes(p.method("SyncInterpreter", "__init__")):
        val = getattr(w.node, "value", None)
        if isinstance(val, ast.Call) and dotted(val.func) in ("threading.Lock", "threading.RLock", "Lock", "RLock"):
            lock_attrs.add(w.attr)
    dr = r.drain
    g = cfg_of(dr.node)
    flag = FLAGS["SyncInterpreter"]
    test_nodes = [n for n in g.nodes if n.kind == "test" and isinstance(n.ast, ast.Attribute) and n.ast.attr == flag]
    set_nodes = _flag_assigns(dr, flag, True)

    def under_lock(node):
        for a in ancestors(dr, node):
            if isinstance(a, ast.With):
                for it in a.items:
                    if isinstance(it.context_expr, ast.Attribute) and it.context_expr.attr in lock_attrs:
                        return True
        return False
    if reach:
        atomic = bool(test_nodes) and bool(set_nodes) and all(under_lock(t.ast) for t in test_nodes) and all(under_lock(s) for s in set_nodes)
        c.ob("R6", atomic, dr, "unlocked-check-then-set",
             "the flag test and set are atomic under a lock" if atomic else
             f"{len(reach)} thread entry point(s) ({', '.join(t.name for t in reach)}) reach {dr.short} via send(); its test of "
             f"{flag} and the assignment that follows are not atomic (no lock in the class): two threads can both pass the "
             f"test and run macrosteps concurrently", test_nodes[0].ast if test_nodes else dr.node)
        # lost wake-up: after the release in finally the queue is not re-tested
        resets = _flag_assigns(dr, flag, False)
        recheck = False
        for rs in resets:
            for nid in g.nodes_of(rs):
                after = g.reachable_from_succ(nid, follow_exc=False)
                for a in after:
                    nd = g.nodes[a]
                    if nd.ast is not None and any(isinstance(x, ast.Attribute) and x.attr == "_event_queue" for x in node_exprs(nd)):
                        recheck = True
        ok = recheck or atomic
        c.ob("R6", ok, dr, "no-recheck-after-release",
             "queue re-tested after the flag is released (or release is under the producers' lock)" if ok else
             f"an event appended by another thread after the loop's last emptiness test but before '{flag} = False' is "
             f"never processed (its sender returned at the re-entrancy test): lost wake-up", resets[0] if resets else dr.node)
    else:
        c.ob("R6", True, dr, "no-thread-reaches-drain", "no thread entry point reaches the drain loop", dr.node)


def _consumer_helper_closure(res, v, t, r):
    """Functions a consumer helper (e.g. _process_event_and_transient_transitions) calls directly on self."""
    out = set()
    for s in res.callsites(t, v):
        if s.recv == "self":
            for x in s.targets:
                out.add(x.qualname)
    return out
