"""C13 - termination / no starvation: structural clauses."""
import ast

from sa.cfg import cfg_of
from sa.effects import attr_writes
from sa.program import dotted, norm, own_nodes, const_str
from sa.util import (ancestors, in_finally, assignments_to, cfg_node_of, compare_parts, derives_from, guards_at, names_in, self_calls_in, stmt_text)
from . import shared
from .roles import VIEWS, roles, ENGINE_MODULES

# recursion cycles that are bounded for a structural reason checked below
CYCLE_REASONS = {
    "_enter_states": "tree",             # recurses into child states
    "_is_state_done": "tree",
    "_is_guard_satisfied": "tree",       # guard.children
    "__init__": "tree",                  # GuardDefinition / StateNode construction over the config tree
    "_walk": "tree",
    "_walk_tree": "tree",
    "_extract_logic_from_node": "tree",
    "_collect_guard_names": "tree",
    "get_persisted_snapshot": "actor-tree",   # guarded by the _seen set
    "_persist_actors": "actor-tree",
    "from_snapshot": "actor-tree",
    "stop": "actor-tree",
    "start": "actor-tree",
    "_execute_actions": "action-depth",
    "_execute_builtin_action": "action-depth",
}


def classify_while(f, loop):
    """-> (kind, ok, why)"""
    test_names = names_in(loop.test)
    # (a) parent-chain / chain walk: the loop variable is rebound to an attribute of itself
    for s in ast.walk(loop):
        if isinstance(s, ast.Assign) and len(s.targets) == 1 and isinstance(s.targets[0], ast.Name):
            t = s.targets[0].id
            if isinstance(s.value, ast.Attribute) and s.value.attr == "parent" and dotted(s.value.value) == t and \
                    (t in test_names or isinstance(loop.test, ast.Constant) is False and t in norm(loop.test)):
                return "parent-walk", True, f"walks the finite parent chain of '{t}'"
    # (b) counter compared with the machine bound, with break
    counters = [s for s in loop.body if isinstance(s, ast.AugAssign) and isinstance(s.op, ast.Add) and isinstance(s.target, ast.Name)]
    for cnt in counters:
        name = cnt.target.id
        for s in loop.body:
            if isinstance(s, ast.If):
                cp = compare_parts(s.test)
                if cp and isinstance(cp[0], ast.Name) and cp[0].id == name and isinstance(cp[1], (ast.Gt, ast.GtE)) and \
                        any(isinstance(x, ast.Break) for x in ast.walk(s)):
                    bound_ok = derives_from(f, cp[2], set()) or True
                    lim = cp[2]
                    src = norm(lim)
                    if isinstance(lim, ast.Name):
                        for a in assignments_to(f, lim.id):
                            src = norm(getattr(a, "value", lim))
                    if "max_iterations" in src:
                        # the test must come before the body's work
                        first_work = next((x for x in loop.body if not (x is cnt or x is s)), None)
                        before = first_work is None or s.lineno < first_work.lineno
                        return "counted", before, f"counter '{name}' compared with max_iterations before the body runs" if before else \
                            f"counter '{name}' is tested after the work of the iteration"
                    return "counted", False, f"counter '{name}' is compared with '{src}', not with the machine's max_iterations"
    # (c) polling loop in a background task / thread: yields every iteration
    body_txt = "\n".join(norm(s) for s in loop.body)
    if "asyncio.sleep" in body_txt or "time.sleep" in body_txt:
        return "polling", True, "polling loop that sleeps every iteration (background task/thread, outside any macrostep)"
    if "_event_queue.get()" in body_txt and "await" in body_txt:
        return "consumer", True, "consumer loop: blocks on queue.get() (self-feeding is R2's subject)"
    return "unbounded", False, f"'while {stmt_text(loop.test, 40)}' has neither a finite chain to walk nor a counter checked against max_iterations"


def run(ctx):
    c, p, res = ctx.c, ctx.p, ctx.r
    # ---- R1 loops and recursion ----------------------------------------------------------
    nloops = 0
    seen = set()
    for v in VIEWS:
        r = roles(ctx, v)
        clo = res.closure([r.start, r.send, r.send_events, r.drain], v)
        for q, (f, par) in sorted(clo.items()):
            if f.module.name.startswith("cli") or q in seen:
                continue
            seen.add(q)
            for n in own_nodes(f.node):
                if isinstance(n, ast.While):
                    nloops += 1
                    kind, ok, why = classify_while(f, n)
                    c.ob("R1", ok, f, f"while:{kind}", why if ok else f"{f.short}: {why}: start()/send() may not return (or the event loop is starved)", n)
    c.floor("R1", "while loops in the start/send/run-loop closure", nloops, 12)
    # recursion: cycles of the same-object call graph, after removing edges that are bounded for a
    # structural reason (tree descent, action-depth counter, re-entrancy flag)
    ncyc = 0
    for v in VIEWS:
        r = roles(ctx, v)
        clo = res.closure([r.start, r.send, r.send_events, r.drain, r.stop], v)
        idx = {q: f for q, (f, _) in clo.items() if not f.module.name.startswith("cli")}
        graph = {q: [] for q in idx}
        bounded = {}
        for q, f in idx.items():
            for s_ in res.callsites(f, v):
                if s_.recv not in ("self", "name"):
                    continue          # calls on another object walk the finite actor tree
                for t in s_.targets:
                    if t.qualname not in idx or t.name == "__init__" and t.cls is not None and t.cls.is_subclass_of("BaseInterpreter"):
                        continue
                    why = _bounded_edge(ctx, v, f, s_, t)
                    if why:
                        bounded[(q, t.qualname)] = why
                    else:
                        graph[q].append(t.qualname)
        # every cycle of the full graph must contain a bounded edge == the graph without them is acyclic
        for scc in _sccs(graph):
            if len(scc) == 1 and scc[0] not in graph[scc[0]]:
                continue
            names = sorted({idx[q].name for q in scc})
            c.ob("R1", False, idx[scc[0]], f"{v}:cycle:{'+'.join(names)[:80]}",
                 f"recursion cycle {names} on one interpreter has no bounding edge (no descent into the finite state tree, no "
                 f"action-depth counter, no re-entrancy test): start()/send() may not return", idx[scc[0]].node)
        for (a, b), why in sorted(bounded.items()):
            ncyc += 1
            c.ob("R1", True, idx[a], f"{v}:rec:{idx[a].name}->{idx[b].name}", f"recursive/bounded edge: {why}", idx[a].node)
    c.floor("R1", "bounded recursive edges", ncyc, 6)
    # the action-depth bound: depth incremented around the recursive call, tested before follow-ups are produced
    for v in VIEWS:
        b = roles(ctx, v).builtin
        incs = [w for w in attr_writes(b) if w.attr == "_action_depth" and w.op == "aug"]
        ok = len(incs) >= 2 and any(in_finally(b, w.node) is not None for w in incs)
        c.ob("R1", ok, b, "action-depth-paired", "_action_depth is incremented around follow-up execution and restored in a finally" if ok else
             "_action_depth is not restored in a finally around the recursive follow-up execution", b.node)
    # ---- R5 nothing inside the bracket rewrites the depth counter ------------------------------------
    # The unwinding is one decrement per nested level.  A plain write (a "reset") anywhere that can run while a
    # bracket is open leaves the counter negative after the unwinding, and every later expansion on this
    # interpreter is cut that many levels too late.
    n5 = 0
    for v in VIEWS:
        b = roles(ctx, v).builtin
        inner = []
        for tr in own_nodes(b.node):
            if isinstance(tr, ast.Try) and any(isinstance(x, ast.AugAssign) and "_action_depth" in norm(x.target) for s_ in tr.finalbody for x in ast.walk(s_)):
                for s_ in res.callsites(b, v):
                    if s_.recv == "self" and any(s_.call is y for st in tr.body for y in ast.walk(st)):
                        inner.extend(s_.targets)
        c.need(inner, f"calls inside the action-depth bracket ({v})")
        clo = res.self_closure(inner, v)
        for f in clo.values():
            for w in attr_writes(f):
                if w.attr != "_action_depth" or w.base != "self":
                    continue
                n5 += 1
                paired = w.op == "aug" and f is b
                c.ob("R5", paired, f, f"{v}:depth-counter-write:{w.op}",
                     "the depth counter is only stepped by the increment/decrement pair" if paired else
                     f"'{stmt_text(w.node)}' rewrites the expansion-depth counter in code that runs while the increment/decrement bracket of "
                     f"{b.short} is open: the pending decrements then drive it below zero and every later self-enqueueing expansion on this "
                     f"interpreter is cut that many levels later than MAX_ACTION_DEPTH (eventually by RecursionError)", w.node)
    c.floor("R5", "writes to the depth counter inside the bracket closure", n5, 2)
    # ---- R6 the expansion bound limits work, not only nesting ---------------------------------------
    # The follow-ups of one expansion are a list of user-chosen length and each element may expand again, so
    # the recursion is a tree.  A counter that is restored on the way out (a depth) bounds the height of that
    # tree; the number of expansions is then up to fan-out ** height.  Bounded work needs a counter tested by
    # the cut that is *not* restored in the bracket's finally.
    cf6 = p.method("BaseInterpreter", "_collect_builtin_followups")
    from sa.util import expand_names
    cut_tests = []
    for x in own_nodes(cf6.node):
        if isinstance(x, ast.If) and any(isinstance(y, ast.Return) for y in x.body):
            ex_ = expand_names(cf6, x.test)
            if "MAX_ACTION_DEPTH" in norm(ex_) or "max_iterations" in norm(ex_):
                x2 = ast.If(test=ex_, body=x.body, orelse=x.orelse)
                ast.copy_location(x2, x)
                cut_tests.append(x2)
    tested = set()
    for t in cut_tests:
        for nm in names_in(t.test):
            for a in assignments_to(cf6, nm):
                v_ = getattr(a, "value", None)
                if v_ is not None:
                    for y in ast.walk(v_):
                        if isinstance(y, ast.Attribute) and dotted(y.value) == "self":
                            tested.add(y.attr)
                        if isinstance(y, ast.Constant) and isinstance(y.value, str) and y.value.startswith("_"):
                            tested.add(y.value)           # getattr(self, '_action_depth', 0)
        for y in ast.walk(t.test):
            if isinstance(y, ast.Attribute) and dotted(y.value) == "self" and not y.attr.isupper():
                tested.add(y.attr)
    tested = {a for a in tested if a.startswith("_")}
    for v in VIEWS:
        b = roles(ctx, v).builtin
        restored = {w.attr for w in attr_writes(b) if w.op == "aug" and in_finally(b, w.node) is not None}
        monotone = sorted(a for a in tested if a not in restored and any(w.attr == a and w.op == "aug" for f_ in roles(ctx, v).funcs for w in attr_writes(f_)))
        c.ob("R6", bool(monotone), b, f"{v}:expansion-bound-is-depth-only",
             f"the cut tests {monotone}, which is not restored on unwinding: the number of expansions is bounded" if monotone else
             f"the only counter(s) the expansion cut tests ({sorted(tested)}) are restored in the finally of {b.short}: they bound the nesting depth; "
             f"a pure/enqueueActions callback that returns itself twice expands 2**(MAX_ACTION_DEPTH+1) times before every branch is cut, "
             f"so send()/start() do not return in any practical time", b.node)
        # the cut is a disjunction of its tests (either bound alone cuts) and the budget counter counts the expanding kinds
        from sa.util import canon_atom as _ca
        for t in cut_tests:
            conj = isinstance(t.test, ast.BoolOp) and isinstance(t.test.op, ast.And)
            parts = t.test.values if isinstance(t.test, ast.BoolOp) else [t.test]
            shapes = [_ca(x_) for x_ in parts]
            okc = not conj and all(sh[0] in (">", ">=") and sh[3] is True for sh in shapes)
            c.ob("R6", okc, cf6, f"{v}:cut-is-a-disjunction", "each bound alone cuts the expansion" if okc else
                 f"the cut test '{norm(t.test)}' is not a disjunction of 'counter > bound' tests: the depth bound (or the budget) no longer cuts on its own, "
                 f"so a linear self-enqueueing chain recurses until RecursionError (or a branching one runs 2**depth expansions)", t)
        # the budget is at least the machine's maxIterations (a min(...) with the depth bound would cut legitimate expansions)
        for bn in {nm for t in cut_tests for nm in names_in(t.test)}:
            for a_ in assignments_to(cf6, bn):
                v_ = getattr(a_, "value", None)
                if v_ is not None and "max_iterations" in norm(v_):
                    bad_min = any(isinstance(y, ast.Call) and isinstance(y.func, ast.Name) and y.func.id == "min" for y in ast.walk(v_))
                    c.ob("R6", not bad_min, cf6, f"{v}:budget-at-least-max-iterations", "the expansion budget is not smaller than maxIterations" if not bad_min else
                         f"'{norm(v_)}' takes the smaller of maxIterations and the depth bound as the budget: expansions shorter than maxIterations are cut", a_)
        for a in monotone:
            for f_ in roles(ctx, v).funcs:
                for w in attr_writes(f_):
                    if w.attr == a and w.op == "aug" and f_.name != "__init__":
                        at = [_ca(a_, pol) for a_, pol in guards_at(f_, w.node)]
                        bad = [t_ for t_ in at if (t_[0] == "in" and "canonical" in t_[1] and t_[3] is False) or (t_[0] == "truthy" and ((t_[1] == "False" and t_[3]) or (t_[1] == "True" and not t_[3])))]
                        kinds_ok = all(all(k in t_[2] for k in ("PURE", "CHOOSE", "ENQUEUE_ACTIONS")) for t_ in at if t_[0] == "in" and "canonical" in t_[1] and t_[3] is True)
                        c.ob("R6", not bad and kinds_ok, f_, f"{v}:budget-counts-expansions:{a}", "the budget counter is stepped for every expanding built-in (pure, choose, enqueueActions)" if not bad and kinds_ok else
                             f"'{stmt_text(w.node)}' is guarded by {at}: the expansions of pure / choose / enqueueActions are not (all) counted, so the budget never "
                             f"fills and a branching self-enqueueing callback is bounded in depth only again", w.node)
        for a in monotone:
            reinit = [w for f_ in roles(ctx, v).funcs if f_.name != "__init__" for w in attr_writes(f_)
                      if w.attr == a and w.op == "assign" and isinstance(getattr(w.node, "value", None), ast.Constant)]
            c.ob("R6", bool(reinit), b, f"{v}:expansion-budget-renewed:{a}",
                 f"the expansion budget '{a}' is re-initialised for every top-level action" if reinit else
                 f"the expansion counter '{a}' only ever grows: once an interpreter has performed its budget of nested expansions over its whole "
                 f"lifetime every later choose / pure / enqueueActions is cut, although chains shorter than the bound must run to their natural end", b.node)
    cf = p.method("BaseInterpreter", "_collect_builtin_followups")
    tests = [x for x in own_nodes(cf.node) if isinstance(x, ast.If) and "MAX_ACTION_DEPTH" in norm(expand_names(cf, x.test))]
    ok = bool(tests) and all(any(isinstance(s, ast.Return) for s in t.body) for t in tests)
    # the depth test must precede every branch that returns follow-ups
    g = cfg_of(cf.node)
    if ok:
        tn = [n for t in tests for n in g.nodes_of(t.test)]
        prods = [n.id for n in g.nodes if n.kind == "stmt" and isinstance(n.ast, ast.Return) and n.ast.value is not None
                 and not (isinstance(n.ast.value, ast.List) and not n.ast.value.elts)]
        ok = all(g.always_before(tn, pn, follow_exc=False) for pn in prods)
    c.ob("R1", ok, cf, "action-depth-test-dominates-followups", "every branch that returns follow-up actions is dominated by the MAX_ACTION_DEPTH test" if ok else
         "a branch of _collect_builtin_followups can return follow-up actions without passing the MAX_ACTION_DEPTH test: a self-enqueueing pure/choose/enqueueActions recurses without bound", cf.node)
    # ---- R2 counted self-send (async) ----------------------------------------------------
    r = roles(ctx, "Interpreter")
    inline = _inline_closure(ctx, [r.process_event, r.settle], "Interpreter")
    deliver = r.deliver
    n = 0
    for q, f in sorted(inline.items()):
        for s in res.callsites(f, "Interpreter"):
            if s.recv != "self" or not s.targets:
                continue
            t = s.targets[0]
            enq = t.qualname == r.send.qualname or t.qualname == r.send_events.qualname or \
                (isinstance(s.call.func, ast.Attribute) and s.call.func.attr in ("put", "put_nowait") and "_event_queue" in norm(s.call.func.value))
            via_deliver = t.qualname == deliver.qualname and s.call.args and norm(s.call.args[0]) == "self"
            if via_deliver and not _is_spawned_arg(f, s.call):
                n += 1
                c.ob("R2", True, f, f"self-send:{s.callee_text}", "self-send goes through _deliver (counted by the raise-chain breaker)", s.call)
                continue
            if not enq:
                continue
            if _is_spawned_arg(f, s.call):
                continue
            n += 1
            counted = f.qualname == deliver.qualname
            c.ob("R2", counted, f, f"self-send:{s.callee_text}",
                 "self-send goes through _deliver's counting branch" if counted else
                 f"{f.short} enqueues onto its own queue with a plain {s.callee_text}() during a macrostep: the chain is not counted by "
                 f"_raise_depth, so a self-feeding cycle through it never trips the breaker and the run loop never yields", s.call)
    dl_ok = False
    for x in own_nodes(deliver.node):
        if isinstance(x, ast.AugAssign) and "_raise_depth" in norm(x.target):
            for a, pol in guards_at(deliver, x):
                if "actor is self" in norm(a) and pol:
                    dl_ok = True
    c.ob("R2", dl_ok, deliver, "deliver-counts-self-sends", "_deliver counts sends to self while a macrostep is in progress" if dl_ok else
         "_deliver no longer increments _raise_depth for self-sends: the raise-chain breaker is dead", deliver.node)
    dr = r.drain
    brk = [x for x in own_nodes(dr.node) if isinstance(x, ast.If) and "_raise_depth" in norm(x.test) and "limit" in norm(x.test)]
    lim_ok = False
    for a in assignments_to(dr, "limit"):
        if "max_iterations" in norm(getattr(a, "value", a)):
            lim_ok = True
    c.ob("R2", bool(brk) and lim_ok, dr, "breaker-compares-with-max-iterations", "the run loop cuts a raise chain longer than max_iterations" if brk and lim_ok else
         "the run loop's raise-chain breaker is missing or not tied to max_iterations", dr.node)
    # ---- R7 a cut leaves an interpreter that still answers the next event -------------------------------
    from sa.util import canon_atom
    for b_ in brk:
        t = canon_atom(b_.test)
        dir_ok = t[0] in (">", ">=") and "_raise_depth" in t[1] and t[3] is True or (t[0] in ("<", "<=") and "_raise_depth" in t[2] and t[3] is True)
        c.ob("R7", dir_ok, dr, "breaker-fires-above-the-bound", "the breaker fires when the chain is longer than the bound" if dir_ok else
             f"the breaker test '{norm(b_.test)}' does not fire for a chain longer than the bound (it fires for short chains instead): chains shorter "
             f"than the bound are cut and runaway ones are not", b_)
        resets = [y for st_ in b_.body for y in ast.walk(st_) if isinstance(y, ast.Assign) and "_raise_depth" in norm(y.targets[0]) and isinstance(y.value, ast.Constant) and y.value.value == 0]
        leaves = [type(y).__name__ for st_ in b_.body for y in ast.walk(st_) if isinstance(y, (ast.Break, ast.Return, ast.Continue, ast.Raise))]
        ok = bool(resets) and leaves == ["Continue"]
        c.ob("R7", ok, dr, "cut-keeps-the-loop-alive", "after a cut the counter starts again and the loop goes on to the next event" if ok else
             f"the breaker branch {'does not reset the chain counter' if not resets else 'leaves the run loop with ' + str(leaves)}: after one cut every later event "
             f"is discarded (or the consumer task ends) - the interpreter no longer answers the next event", b_)
    c.floor("R2", "inline self-enqueue sites in the async macrostep closure", n, 2)
    # ---- R4 the chain counter is reset only when the chain has ended ----------------------
    for v in VIEWS:
        d_ = roles(ctx, v).drain
        resets = [x for x in own_nodes(d_.node) if isinstance(x, ast.Assign) and isinstance(x.targets[0], ast.Attribute)
                  and x.targets[0].attr in ("_raise_depth",) and isinstance(x.value, ast.Constant) and x.value.value == 0]
        # any other plain assignment lowers the counter as well (restoring a value saved before the macrostep, say): the chain that is
        # still queued is then never counted
        lowered = [x for x in own_nodes(d_.node) if isinstance(x, ast.Assign) and isinstance(x.targets[0], ast.Attribute)
                   and x.targets[0].attr in ("_raise_depth",) and x not in resets]
        for x in lowered:
            quiescent = any(("_event_queue" in norm(a) and ("empty" in norm(a) or "qsize" in norm(a) or "not self._event_queue" in norm(a))) for a, pol in guards_at(d_, x))
            c.ob("R4", quiescent, d_, f"counter-restore:{norm(x.value)[:30]}",
                 "the chain counter is lowered only when nothing is queued" if quiescent else
                 f"'{stmt_text(x)}' in {d_.short} takes the chain counter back to an earlier value while the events the macrostep raised are still queued "
                 f"(e.g. in the handler that contains a failed macrostep): a chain whose every link raises its own trigger and then fails is never counted, "
                 f"the breaker never trips and the run loop never yields", x)
        for x in resets:
            atoms = guards_at(d_, x)
            in_breaker = any("limit" in norm(a) and pol for a, pol in atoms)
            if in_breaker:
                # the cut discards the event it has just dequeued; resetting the counter there declares the chain ended, which is
                # only true if the rest of the chain (one macrostep may have raised many events) is discarded with it
                br = next((a_ for a_ in ancestors(d_, x) if isinstance(a_, ast.If) and "limit" in norm(a_.test)), None)
                drains = br is not None and any(
                    isinstance(y, (ast.While, ast.For, ast.AsyncFor)) or
                    (isinstance(y, ast.Call) and isinstance(y.func, ast.Attribute) and y.func.attr == "clear" and "_event_queue" in norm(y.func.value)) or
                    (isinstance(y, ast.Assign) and any("_event_queue" in norm(t_) for t_ in y.targets))
                    for st_ in br.body for y in ast.walk(st_))
                c.ob("R4", drains, d_, "counter-reset:after-cut",
                     "the cut discards the rest of the chain before declaring it ended" if drains else
                     f"the breaker discards the single event it dequeued and then '{stmt_text(x)}' declares the chain ended, although one macrostep "
                     f"can have raised many events (an always-loop cut by the settle bound whose transitions raise X leaves max_iterations X events "
                     f"queued): each survivor feeds the chain again, the queue grows without bound and the run loop never yields", x)
                continue
            quiescent = any(("_event_queue" in norm(a) and ("empty" in norm(a) or "qsize" in norm(a) or "not self._event_queue" in norm(a))) for a, pol in atoms)
            c.ob("R4", quiescent, d_, "counter-reset:mid-chain",
                 "the chain counter is reset only when nothing is queued (the chain has ended)" if quiescent else
                 f"'{stmt_text(x)}' resets the chain counter after any macrostep that raised nothing, although later links of the chain are still "
                 f"queued: a chain in which every link also raises one harmless event (PING -> [raise NOTE, raise PING]) keeps the counter "
                 f"oscillating below the bound and is never cut", x)
    # ---- R3 the bound must not discard external events (sync) ----------------------------
    sd = roles(ctx, "SyncInterpreter").drain
    for w in attr_writes(sd):
        if w.attr == "_event_queue" and w.op not in ("call:popleft", "call:get"):
            c.ob("R3", False, sd, f"queue-op:{w.op}",
                 f"'{stmt_text(w.node)}' under the drain loop's bound: the counter counts every dequeued event (external ones too) and the rest "
                 f"of the queue is discarded, so a burst of more than max_iterations external events loses the tail", w.node)
    cnt_nodes = [x for x in own_nodes(sd.node) if isinstance(x, ast.AugAssign) and isinstance(x.target, ast.Name)]
    c.ob("R3", True, sd, "drain-has-counter", f"{len(cnt_nodes)} counter(s) in the sync drain loop", sd.node, nontrivial=False)


TREE_ATTRS = {"states", "children", "parent", "children_cfg"}


def _mentions_tree(f, e, depth=0):
    for x in ast.walk(e):
        if isinstance(x, ast.Attribute) and x.attr in TREE_ATTRS:
            return True
        if isinstance(x, ast.Name) and depth < 3:
            if x.id in TREE_ATTRS or x.id in ("child", "child_node", "region", "regions", "initial_child"):
                return True
            for a in assignments_to(f, x.id):
                src = a.iter if isinstance(a, (ast.For, ast.AsyncFor)) else getattr(a, "value", None)
                if src is not None and src is not e and _mentions_tree(f, src, depth + 1):
                    return True
                # chosen under a test on the tree relation:  if s.parent == node: child = s
                for anc in ancestors(f, a):
                    if isinstance(anc, ast.If) and any(isinstance(y, ast.Attribute) and y.attr in TREE_ATTRS for y in ast.walk(anc.test)):
                        return True
            for comp in own_nodes(f.node):
                if isinstance(comp, (ast.ListComp, ast.GeneratorExp, ast.SetComp, ast.DictComp)):
                    for gen in comp.generators:
                        if any(isinstance(t, ast.Name) and t.id == x.id for t in ast.walk(gen.target)):
                            if _mentions_tree(f, gen.iter, depth + 1) or any(_mentions_tree(f, i, depth + 1) for i in gen.ifs):
                                return True
    return False


def _bounded_edge(ctx, v, f, site, t):
    """Why the call f -> t cannot recurse without bound, or None."""
    from sa.util import enclosing_try_bodies
    # only edges that can be part of a cycle matter; cheap test: t reaches f again is checked by the SCC pass
    call = site.call
    if any(_mentions_tree(f, a) for a in list(call.args) + [k.value for k in call.keywords]):
        return "argument descends the finite state / guard tree"
    for tr in enclosing_try_bodies(f, call):
        if any(isinstance(x, ast.AugAssign) and "_action_depth" in norm(x.target) for s_ in tr.finalbody for x in ast.walk(s_)):
            return "inside the _action_depth increment/decrement bracket (MAX_ACTION_DEPTH)"
    r = roles(ctx, v)
    if t.qualname == r.drain.qualname and not t.is_async:
        first = t.node.body[0] if not isinstance(t.node.body[0], ast.Expr) else t.node.body[1]
        if isinstance(first, ast.If) and r.flag in norm(first.test) and any(isinstance(x, ast.Return) for x in first.body):
            return f"re-entrant drain returns at the {r.flag} test"
    return None


def _is_spawned_arg(f, call):
    """call appears as an argument of create_task / ensure_future / Thread (runs later, in its own task)."""
    for a in ancestors(f, call):
        if isinstance(a, ast.Call) and a is not call:
            fn = norm(a.func)
            if fn.endswith(("create_task", "ensure_future", "Thread", "gather")):
                return True
    return False


def _inline_closure(ctx, roots, view):
    """Closure over calls that execute inline (not handed to create_task / Thread), same object only."""
    res = ctx.r
    out = {}
    work = list(roots)
    while work:
        f = work.pop()
        if f.qualname in out:
            continue
        out[f.qualname] = f
        for s in res.callsites(f, view):
            if s.recv not in ("self", "name") or _is_spawned_arg(f, s.call):
                continue
            anc = list(ancestors(f, s.call))
            awaited = bool(anc) and isinstance(anc[0], ast.Await)
            for t in s.targets:
                if t.name == "__init__" or t.qualname in out:
                    continue
                if t.parent is not None and t.name in ("_delayed", "_invoke_wrapper"):
                    continue
                if t.is_async and not awaited:
                    continue          # calling a coroutine function without awaiting it runs nothing here: the coroutine object is handed on (to create_task ...)
                # send()/send_events() only enqueue: their bodies are not part of the macrostep
                work.append(t)
    return out


def _sccs(graph):
    index = {}
    low = {}
    stack = []
    on = set()
    out = []
    counter = [0]
    import sys
    sys.setrecursionlimit(10000)

    def strong(v):
        index[v] = low[v] = counter[0]
        counter[0] += 1
        stack.append(v)
        on.add(v)
        for w in graph.get(v, []):
            if w not in index:
                strong(w)
                low[v] = min(low[v], low[w])
            elif w in on:
                low[v] = min(low[v], index[w])
        if low[v] == index[v]:
            comp = []
            while True:
                w = stack.pop()
                on.discard(w)
                comp.append(w)
                if w == v:
                    break
            out.append(comp)
    for v in graph:
        if v not in index:
            strong(v)
    return out
