"""C20 - event descriptors: structural clauses."""
import ast

from sa.cfg import cfg_of, split_atoms
from sa.program import dotted, norm, own_nodes, const_str
from sa.util import (assignments_to, cfg_node_of, enclosing_loops, guards_at, stmt_text)
from sa.util import compare_parts as compare_parts_
from . import shared
from .roles import VIEWS, roles


def _synthetic_prefixes(p):
    """Event-type prefixes of every synthetic event the engine constructs."""
    out = {}
    for f in p.funcs_in("base_interpreter", "interpreter", "sync_interpreter", "models"):
        for x in own_nodes(f.node):
            if isinstance(x, ast.JoinedStr) and x.values and isinstance(x.values[0], ast.Constant):
                s = str(x.values[0].value)
                for pre in ("done.state.", "done.invoke.", "error.platform.", "after.", "xstate.error.", "xstate."):
                    if s.startswith(pre):
                        out.setdefault(s.split(".")[0] + ".", []).append((f, x))
                        break
    return out


def run(ctx):
    c, p = ctx.c, ctx.p
    shared.declared_entries_kept(ctx, "R5", "_parse_on", "'on' keys", "a null (forbidden) entry or a handler that is pruned no longer consumes its event and an ancestor's handler runs instead")
    md = p.method("BaseInterpreter", "_matching_descriptors")
    g = cfg_of(md.node)
    # ---- R1 exact < partials < '*' ---------------------------------------------------
    app = []
    from sa.util import returned_name, canon_atom, names_in
    M = returned_name(md, "matches")            # the match list, by what it is: the function's result
    ev_param = md.params[1] if len(md.params) > 1 else "event_type"
    # contributions to the result, in whatever form: the initial value, append(), extend() / +=
    ext_args = []
    for x in own_nodes(md.node):
        if isinstance(x, (ast.Assign, ast.AnnAssign)) and getattr(x, "value", None) is not None and norm(x.targets[0] if isinstance(x, ast.Assign) else x.target) == M:
            if ev_param in names_in(x.value) and not isinstance(x.value, ast.Call):
                app.append(("exact", x))            # matches = [event_type] if event_type in on_map else []
        elif isinstance(x, ast.Call) and isinstance(x.func, ast.Attribute) and x.func.attr in ("append", "extend") and dotted(x.func.value) == M and x.args:
            if x.func.attr == "append":
                kind = "exact" if norm(x.args[0]) == ev_param else ("wild" if const_str(x.args[0]) == "*" else "other")
            else:
                kind = "partials"
                ext_args.append(x.args[0])
            app.append((kind, x))
        elif isinstance(x, ast.AugAssign) and isinstance(x.op, ast.Add) and norm(x.target) == M:
            app.append(("partials", x))
            ext_args.append(x.value)
    kinds = [k for k, _ in app]
    c.expect("R1", "contributions to the match list", len(app), 3, md, "the descriptor matcher no longer contributes all three kinds (exact key, partial descriptors, wildcard)")
    order_ok = True
    why = "exact key, then partial descriptors, then '*'"
    rank = {"exact": 0, "partials": 1, "wild": 2}
    for k1, x1 in app:
        for k2, x2 in app:
            if k1 in rank and k2 in rank and rank[k1] < rank[k2]:
                for n1 in cfg_node_of(md, x1):
                    for n2 in cfg_node_of(md, x2):
                        if g.can_reach(n2, n1, follow_exc=False):
                            order_ok = False
                            why = f"'{k2}' can be appended before '{k1}'"
    c.ob("R1", order_ok and set(rank) <= set(kinds), md, "specificity-order", why if order_ok else f"descriptor specificity order broken: {why}", md.node)

    def _len_desc(call):
        key = next((k.value for k in call.keywords if k.arg == "key"), None)
        rev = next((k.value for k in call.keywords if k.arg == "reverse"), None)
        return (key is not None and norm(key) == "len" and isinstance(rev, ast.Constant) and rev.value is True) or \
               (isinstance(key, ast.Lambda) and len(key.args.args) == 1 and norm(key.body).replace(" ", "") == f"-len({key.args.args[0].arg})")
    # the partial-descriptor list: what is extended into the result (a name, or sorted(<name / comprehension>, ...))
    PL = None
    ok = False
    inplace_partials = []
    for ea in ext_args:
        core = ea
        if isinstance(core, ast.Call) and isinstance(core.func, ast.Name) and core.func.id == "sorted" and core.args:
            ok = ok or _len_desc(core)
            core = core.args[0]
        if isinstance(core, ast.Name):
            PL = core.id
        elif isinstance(core, (ast.ListComp, ast.GeneratorExp)):
            inplace_partials.append(core)
    PL = PL or "partials"
    sorts = [x for x in own_nodes(md.node) if isinstance(x, ast.Call) and isinstance(x.func, ast.Attribute) and x.func.attr == "sort" and dotted(x.func.value) == PL]
    for s_ in sorts:
        ext = [x for k, x in app if k == "partials"]
        before = all(g.can_reach(a_, b_, follow_exc=False) for a_ in cfg_node_of(md, s_) for e in ext for b_ in cfg_node_of(md, e))
        ok = ok or (_len_desc(s_) and before)
    c.ob("R1", ok, md, "partials-longest-first", "partial descriptors are sorted by prefix length, longest first, before being appended" if ok else
         "partial descriptors are not sorted longest-prefix-first before they are appended: 'a.*' could shadow 'a.b.*'", md.node)
    # only keys of the form 'p.*' are partial descriptors (an exact key must never be read as the prefix 'p' + two characters)
    memberships = []          # (node, atoms that hold for a key that becomes a partial descriptor)
    for x in own_nodes(md.node):
        if isinstance(x, ast.Call) and isinstance(x.func, ast.Attribute) and x.func.attr == "append" and dotted(x.func.value) == PL:
            memberships.append((x, [canon_atom(a, pol) for a, pol in guards_at(md, x) if not isinstance(a, ast.BoolOp)]))
        elif isinstance(x, (ast.Assign, ast.AnnAssign)) and getattr(x, "value", None) is not None and norm(x.targets[0] if isinstance(x, ast.Assign) else x.target) == PL \
                and isinstance(x.value, (ast.ListComp, ast.GeneratorExp)):
            at = []
            for cnd in x.value.generators[0].ifs:
                at.extend(canon_atom(a, pol) for a, pol in split_atoms(cnd, True) if not isinstance(a, ast.BoolOp))
            memberships.append((x, at))
    for comp_ in inplace_partials:
        at = []
        for cnd in comp_.generators[0].ifs:
            at.extend(canon_atom(a, pol) for a, pol in split_atoms(cnd, True) if not isinstance(a, ast.BoolOp))
        memberships.append((comp_, at))
    for x, at in memberships:
        okp = any(t[0] == "truthy" and t[1].endswith(".endswith('.*')") and t[3] is True for t in at)
        c.ob("R1", okp, md, "partial-keys-end-with-dot-star", "a key is treated as a partial descriptor only if it ends with '.*'" if okp else
             f"'{norm(x)[:60]}' is not under a positive 'key.endswith(\".*\")' test (guards: {at}): an exact key 'foo' is read as the partial descriptor 'f.*' and "
             f"handles the events 'f' and 'f.<anything>'", x)
    c.expect("R1", "sources of partial descriptors", len(memberships), 1, md, "no key is ever recognised as a partial descriptor ('a.*')")
    # the partial predicate: 'p.*' matches p itself and anything starting with 'p.'
    preds = [x for x in own_nodes(md.node) if isinstance(x, ast.BoolOp) and isinstance(x.op, ast.Or) and "startswith" in norm(x) and "==" in norm(x)]
    ok = False
    for x in preds:
        eqs = [compare_parts_(v) for v in x.values]
        eqs = [(norm(cp[0]), norm(cp[2])) for cp in eqs if cp is not None and isinstance(cp[1], ast.Eq)]
        for v in x.values:
            if isinstance(v, ast.Call) and isinstance(v.func, ast.Attribute) and v.func.attr == "startswith" and v.args and isinstance(v.args[0], ast.BinOp) \
                    and isinstance(v.args[0].op, ast.Add) and const_str(v.args[0].right) == ".":
                ev, pfx = norm(v.func.value), norm(v.args[0].left)
                if (ev, pfx) in eqs or (pfx, ev) in eqs:
                    ok = True
    c.ob("R1", ok, md, "partial-predicate", "'p.*' matches 'p' and 'p.<anything>'" if ok else
         "the partial-descriptor predicate is no longer 'event == p or event.startswith(p + \".\")'", md.node)
    # ---- R2 internal-event cut-off ---------------------------------------------------------
    # fact: the partial and wildcard contributions are made only for events that do NOT start with one of the engine's own prefixes
    # (written as an early return after the exact match, or as an ``if not event.startswith(..):`` block around them); the exact
    # match is not under that test
    def _cut_atoms(x):
        out_ = []
        for a_, pol_ in guards_at(md, x):
            t_ = canon_atom(a_, pol_) if not isinstance(a_, ast.BoolOp) else None
            if t_ and t_[0] == "truthy" and ".startswith(" in t_[1] and t_[1].startswith(ev_param + ".") and t_[3] is False:
                out_.append(a_)
        return out_
    later_c = [(k, x) for k, x in app if k in ("partials", "wild")]
    cut_as = [(_cut_atoms(x), x) for k, x in later_c]
    if c.expect("R2", "internal-event cut-off in _matching_descriptors", sum(1 for ca_, x in cut_as if ca_), max(1, len(later_c)), md,
                "the descriptor matcher no longer keeps synthetic events (done.* / error.* / after.* / xstate.*) away from partial descriptors and the bare wildcard: "
                "a user wildcard swallows the engine's own events (or nothing but the exact key is ever matched)"):
        pref = set()
        for ca_, x in cut_as:
            for a_ in ca_:
                for y in ast.walk(a_):
                    s_ = const_str(y)
                    if s_:
                        pref.add(s_)
        exact_cut = [x for k, x in app if k == "exact" and _cut_atoms(x)]
        c.ob("R2", not exact_cut, md, "cutoff-between-exact-and-partial", "synthetic events still get their exact match; only partials and '*' are withheld" if not exact_cut else
             "the exact match is withheld from synthetic events too: done.* / after.* handlers registered under their exact key never fire", (exact_cut or [md.node])[0])
        syn = _synthetic_prefixes(p)
        c.floor("R2", "synthetic event families constructed by the engine", len(syn), 3)
        for fam, sites in sorted(syn.items()):
            ok = fam in pref
            f0, x0 = sites[0]
            c.ob("R2", ok, f0, f"synthetic-family:{fam}", f"'{fam}*' events ({len(sites)} construction sites) are private to their exact handler" if ok else
                 f"the engine constructs '{norm(x0)[:50]}' events but the cut-off {sorted(pref)} does not cover '{fam}': a user wildcard would swallow them", x0)
    # ---- R4 synthetic events (done.* / error.* / after.*) never trigger eventless transitions of their own ----
    shared.eligible_bucket_rules(ctx, "R4", "always")
    # ---- R3 forbidden (null) transitions stop the upward walk --------------------------------
    ce = p.method("BaseInterpreter", "_collect_eligible_transitions")
    g2 = cfg_of(ce.node)
    walk = next((l for l in own_nodes(ce.node) if isinstance(l, ast.While)), None)
    step = [n for s in (walk.body if walk is not None else []) if isinstance(s, ast.Assign) and "parent" in norm(s.value) for n in g2.nodes_of(s)]
    c.expect("R3", "ancestor walk of candidate collection", len(step), 1, ce, "candidate collection no longer walks 'current = current.parent'")

    def after_in_ce(starts):
        """What candidate collection can still do from *starts* (flag idiom followed path-sensitively)."""
        flags = [s.targets[0].id for nid in g2.reachable(starts, follow_exc=False) for s in [g2.nodes[nid].ast]
                 if g2.nodes[nid].kind == "stmt" and isinstance(s, ast.Assign) and isinstance(s.targets[0], ast.Name)
                 and isinstance(s.value, ast.Constant) and s.value.value is True]
        if flags:
            from sa.cfg import reachable_with_flag
            reach = reachable_with_flag(g2, [(d, None) for d in starts], list(dict.fromkeys(flags)))
        else:
            reach = g2.reachable(starts, follow_exc=False)
        appends_after = [n.id for n in g2.nodes if n.id in reach and n.ast is not None and n.kind == "stmt" and "eligible.append" in norm(n.ast)]
        # a nested collector called from there appends as well
        appends_after += [n.id for n in g2.nodes if n.id in reach and n.ast is not None and any(
            isinstance(y, ast.Call) and isinstance(y.func, ast.Name) and y.func.id in ce.nested and
            any("eligible.append" in norm(z) for z in own_nodes(ce.nested[y.func.id].node) if isinstance(z, ast.Call)) for y in ast.walk(n.ast))]
        return not (set(step) & reach) and not appends_after

    owners = [ce] + list(ce.nested.values())
    found = []
    for owner in owners:
        go = cfg_of(owner.node)
        for n in go.nodes:
            if n.kind == "test" and isinstance(n.ast, ast.Attribute) and n.ast.attr == "forbidden":
                found.append((owner, go, n))
    c.expect("R3", "forbidden test in the on-loop", len(found), 1, ce, "candidate collection no longer tests for a null (forbidden) transition: it does not consume its event and ancestor handlers run")
    for owner, go, ft in found:
        passes = [x for x in own_nodes(owner.node) if isinstance(x, ast.Call) and shared.guard_pass_call(ctx, ce, x) is not None]
        loop = [l for l in enclosing_loops(owner, ft.ast) if isinstance(l, ast.For)]
        same_loop_passes = [x for x in passes if loop and loop[0] in enclosing_loops(owner, x)]
        ok = all(any(norm(a) == norm(ft.ast) and not pol for a, pol in guards_at(owner, x)) for x in same_loop_passes) and bool(same_loop_passes)
        c.ob("R3", ok, owner, "forbidden-before-guard", "a null transition is recognised before any guard of that descriptor is evaluated" if ok else
             "guards are evaluated for a descriptor before its 'forbidden' marker is tested", ft.ast)
        t_succ = [d for d, lab in go.succ[ft.id] if lab == "T"]
        if owner is ce:
            # leads to a break of the ancestor walk: from the T edge the 'current = current.parent' step is unreachable and
            # transitions of other buckets ('' / onDone / after / invoke) at this level are not collected either
            ok = after_in_ce(t_succ)
        else:
            # the on-bucket was moved into a nested collector that reports "forbidden" to the walk:  return True  only on that path,
            # nothing appended on it, and the walk breaks on a true result
            reach = go.reachable(t_succ, follow_exc=False)
            appends = [n.id for n in go.nodes if n.id in reach and n.ast is not None and n.kind == "stmt" and "eligible.append" in norm(n.ast)]
            rets = [r for r in own_nodes(owner.node) if isinstance(r, ast.Return)]
            # the value that says "forbidden" is the constant returned on that path (True in one spelling, False in another); every
            # other return - and falling off the end, which returns None - must say the opposite
            on_path = [r for r in rets if any(go.nodes[i].ast is r for i in reach)]
            sig_vals = {r.value.value for r in on_path if isinstance(r.value, ast.Constant) and isinstance(r.value.value, bool)}
            signal_value = next(iter(sig_vals)) if len(sig_vals) == 1 and len(on_path) == len([r for r in on_path if isinstance(r.value, ast.Constant)]) else None
            others = [r for r in rets if r not in on_path]
            others_ok = all(isinstance(r.value, ast.Constant) and isinstance(r.value.value, bool) and r.value.value is (not signal_value) for r in others) \
                if signal_value is not None else False
            falls_off = not isinstance(owner.node.body[-1], (ast.Return, ast.Raise))
            if falls_off and signal_value is False:
                others_ok = False        # None would read as "forbidden"
            sig_ok = signal_value is not None and bool(on_path) and others_ok and \
                all(any(norm(a) == norm(ft.ast) and pol for a, pol in guards_at(owner, r)) for r in on_path)
            sites = [y for y in own_nodes(ce.node) if isinstance(y, ast.Call) and isinstance(y.func, ast.Name) and y.func.id == owner.name]
            site_ok = bool(sites)
            for y in sites:
                from sa.util import expand_names
                tests = [(n, [pol for a, pol in split_atoms(expand_names(ce, n.ast), True) if a is y or norm(a) == norm(y)])
                         for n in g2.nodes if n.kind == "test" and n.ast is not None]
                tests = [(n, pols) for n, pols in tests if pols]
                if not tests:
                    site_ok = False      # the result is dropped, or used as something else than a condition
                for tn, pols in tests:
                    # the T branch of the test is taken when the call's value has polarity pols[0]: that must be the "forbidden" value
                    site_ok = site_ok and pols[0] is signal_value and after_in_ce([d for d, lab in g2.succ[tn.id] if lab == "T"])
            ok = not appends and sig_ok and site_ok
        c.ob("R3", ok, owner, "forbidden-stops-ancestor-walk", "a null transition consumes the event: nothing else is collected and no ancestor is consulted" if ok else
             "after a null (forbidden) transition the walk still reaches an ancestor or collects further candidates", ft.ast)
    nt = p.cls("StateNode").methods["_normalize_transitions"]
    ok = any(isinstance(x, ast.If) and "config is None" in norm(x.test) and "__forbidden__" in norm(x.body[0]) for x in own_nodes(nt.node))
    c.ob("R3", ok, nt, "null-normalised-to-marker", "a null transition is normalised to the forbidden marker" if ok else
         "None is no longer normalised to {'__forbidden__': True}", nt.node)
    td = p.cls("TransitionDefinition").methods["__init__"]
    ok = any(isinstance(x, ast.Call) and isinstance(x.func, ast.Attribute) and x.func.attr == "get" and x.args and const_str(x.args[0]) == "__forbidden__" for x in own_nodes(td.node))
    c.ob("R3", ok, td, "marker-read", "TransitionDefinition reads the forbidden marker" if ok else "TransitionDefinition no longer reads '__forbidden__'", td.node)
    for v in VIEWS:
        for name in ("_matching_descriptors", "_collect_eligible_transitions"):
            f = p.method(v, name)
            base = p.method("BaseInterpreter", name)
            c.ob("R3", f.qualname == base.qualname, f, f"{v}:shared:{name}", "both engines share the matcher" if f.qualname == base.qualname else
                 f"{v} overrides {name}", f.node)
