"""C09 - invoked services: structural clauses."""
import ast

from sa.cfg import cfg_of
from sa.program import dotted, norm, own_nodes, const_str
from sa.util import (ancestors, cfg_node_of, enclosing_loops, in_finally, in_handler, self_calls_in, stmt_text, guards_at)
from sa.effects import attr_writes
from . import shared
from .roles import VIEWS, roles


def _fstring_prefix(node):
    """constant prefix of an f-string / constant."""
    if isinstance(node, ast.JoinedStr) and node.values and isinstance(node.values[0], ast.Constant):
        return str(node.values[0].value)
    s = const_str(node)
    return s


def event_ctor_sites(f, prefix):
    out = []
    for x in own_nodes(f.node):
        if isinstance(x, ast.Call) and norm(x.func) == "DoneEvent":
            t = x.args[0] if x.args else next((k.value for k in x.keywords if k.arg == "type"), None)
            if isinstance(t, ast.Name):
                from sa.util import assignments_to
                for a in assignments_to(f, t.id):
                    t = getattr(a, "value", t)
            pf = _fstring_prefix(t) if t is not None else None
            if pf and pf.startswith(prefix):
                out.append(x)
    return out


def run(ctx):
    c, p, res = ctx.c, ctx.p, ctx.r
    shared.arming_key_is_cancelling_key(ctx, "R13")
    shared.declared_entries_kept(ctx, "R12", "_parse_invoke", "'invoke' entries", "the service is never started")
    sched = p.method("BaseInterpreter", "_schedule_state_tasks")
    shared.eligible_bucket_rules(ctx, "R9", "invoke")
    shared.task_registry_ownership(ctx, "R11")
    # ---- R7 the task of an invoked service is owned by the invoking state ------------------------
    shared.background_tasks_owned(ctx, "R7", only_funcs={"_invoke_service"})
    # ---- R10 sync engine: done.invoke of a child machine is reported only if the child reached a top-level final state ----
    from sa.util import canon_atom as _ca
    qd = p.cls("SyncInterpreter").methods.get("_queue_actor_done")
    if qd is not None:
        sends = [x for x in own_nodes(qd.node) if isinstance(x, ast.Call) and isinstance(x.func, ast.Attribute) and x.func.attr == "send" and norm(x.func.value) == "self"]
        if c.expect("R10", "completion report in SyncInterpreter._queue_actor_done", len(sends), 1, qd, "_queue_actor_done no longer sends done.invoke: onDone of an invoked child machine never fires"):
            flags = {}
            for a in own_nodes(qd.node):
                if isinstance(a, ast.Assign) and isinstance(a.targets[0], ast.Name) and isinstance(a.value, ast.Call) and norm(a.value.func) == "any" and a.value.args \
                        and isinstance(a.value.args[0], ast.GeneratorExp):
                    flags[a.targets[0].id] = a.value.args[0]
            for x in sends:
                raw_at = guards_at(qd, x)
                at = [_ca(a_, pol) for a_, pol in raw_at]
                used = [flags[t[1]] for t in at if t[0] == "truthy" and t[1] in flags and t[3] is True]
                # the same test written in place: if any(<generator>): ... send
                used += [a_.args[0] for a_, pol in raw_at if pol and isinstance(a_, ast.Call) and norm(a_.func) == "any" and a_.args and isinstance(a_.args[0], ast.GeneratorExp)]
                okf = False
                for gen_ in used:
                    elt = gen_.elt
                    parts = elt.values if isinstance(elt, ast.BoolOp) and isinstance(elt.op, ast.And) else []
                    shp = [_ca(z) for z in parts]
                    okf = any(t[0] == "truthy" and t[1].endswith(".is_final") and t[3] for t in shp) and \
                        any(t[0] in ("is", "==") and t[3] and any(z.endswith(".parent") for z in (t[1], t[2])) and any(z.endswith(".machine") for z in (t[1], t[2])) for t in shp)
                c.ob("R10", okf, qd, "done-only-after-top-level-final", "done.invoke is sent only when a final child of the child's root is active" if okf else
                     f"the completion report is guarded by {at}: it must be under 'some active node is final and its parent is the child's root' - otherwise a child "
                     f"that was stopped because the invoking state was left reports success (a zombie result drives onDone)", x)
    # sync runner: the child is considered finished when SOME active node is a final child of its root
    sp_ = p.cls("SyncInterpreter").methods.get("_spawn_actor")
    if sp_ is not None:
        for rn in sp_.nested.values():
            for x in own_nodes(rn.node):
                if isinstance(x, ast.Call) and isinstance(x.func, ast.Name) and x.func.id in ("any", "all") and "is_final" in norm(x):
                    c.ob("R10", x.func.id == "any", rn, "runner-detects-final-with-any", "the runner leaves its wait loop when some active node is a top-level final state" if x.func.id == "any" else
                         "the runner's completion test uses all(...): the child's root and ancestors are active and not final, so completion is never detected and done.invoke never fires", x)
    # ---- R1 one start per activation -----------------------------------------------
    for v in VIEWS:
        r = roles(ctx, v)
        inv = p.method(v, "_invoke_service")
        callers = res.callers_of(inv, v, r.funcs)
        c.expect("R1", f"_invoke_service callers ({v})", len(callers), 1, sched, f"under {v} nothing calls _invoke_service any more: invoked services are not started on entry")
        for s in callers:
            ok = s.func.qualname == sched.qualname
            c.ob("R1", ok, s.func, "starts-service", "services are started only by _schedule_state_tasks" if ok else
                 f"{s.func.short} starts an invoked service outside _schedule_state_tasks: not once-per-entry, not cancelled on exit", s.call)
        en = r.enter
        g = cfg_of(en.node)
        sc = [n for call in self_calls_in(en, "_schedule_state_tasks") for n in cfg_node_of(en, call)]
        loop = next((l for l in own_nodes(en.node) if isinstance(l, ast.For) and en.params[1] in norm(l.iter)), None)
        c.need(loop is not None and sc, f"entry loop / schedule call in {en.short}")
        hdr = g.nodes_of(loop)[0]
        at_least = shared.unconditional_in_loop(g, hdr, sc)
        at_most = not any(s2 in g.reachable_from_succ(s1, blocked_nodes={hdr}, follow_exc=False) for s1 in sc for s2 in sc)
        c.ob("R1", at_least, en, "schedule-every-entered-state", "every entered state has its tasks armed on every normal path" if at_least else
             "a path through the entry loop skips _schedule_state_tasks: an entered state's services/timers never start", loop)
        c.ob("R1", at_most, en, "schedule-at-most-once", "no path arms a state's tasks twice in one entry" if at_most else
             "a path through the entry loop calls _schedule_state_tasks twice for one state: its services start twice", loop)
    g = cfg_of(sched.node)
    calls = self_calls_in(sched, "_invoke_service")
    for call in calls:
        loops = [l for l in enclosing_loops(sched, call) if isinstance(l, ast.For)]
        ok = len(loops) == 1 and "invoke" in norm(loops[0].iter) and \
            shared.unconditional_in_loop(g, g.nodes_of(loops[0])[0], cfg_node_of(sched, call))
        c.ob("R1", ok, sched, "one-start-per-invoke-definition", "each declared invoke is started exactly once per entry" if ok else
             "the invoke loop no longer starts each declared service exactly once", call)
    missing = [x for x in own_nodes(sched.node) if isinstance(x, ast.Raise) and "ImplementationMissingError" in norm(x.exc)]
    c.ob("R1", bool(missing), sched, "missing-service-is-fatal", "an unregistered service raises ImplementationMissingError" if missing else
         "an unregistered service is skipped silently", sched.node)
    # ---- R2 failure protocol: error event, then _fail if unhandled -----------------------
    n = 0
    for v in VIEWS:
        r = roles(ctx, v)
        for f in r.funcs:
            if v == "SyncInterpreter" and f.is_async:
                continue
            if f.module.name == ("interpreter" if v == "SyncInterpreter" else "sync_interpreter"):
                continue
            errs = event_ctor_sites(f, "error.platform.")
            dones = event_ctor_sites(f, "done.invoke.")
            if not errs and not dones:
                continue
            n += 1
            fails = self_calls_in(f, "_fail")
            if errs:
                guarded = False
                for call in fails:
                    for a, pol in guards_at(f, call):
                        if "handled" in norm(a) or "_has_error_handler" in norm(a) or "on_error" in norm(a):
                            guarded = True
                c.ob("R2", bool(fails) and guarded, f, "error-event-then-fail-if-unhandled",
                     "a failed service sends the error event and fails the interpreter when no onError handles it" if fails and guarded else
                     f"{f.short} reports a failed invocation with error.platform.* but never calls _fail(): with no onError the parent "
                     f"stays 'running' although the README says an unhandled failure puts the interpreter into the error status "
                     f"(callable services do call _fail)", errs[0])
            if dones and not errs:
                c.ob("R2", False, f, "done-path-without-error-path",
                     f"{f.short} sends done.invoke.* for a finished child machine but has no failure path at all: a child that ends in "
                     f"error (or is stopped) produces no event and no _fail()", dones[0])
    c.floor("R2", "service completion functions", n, 3)
    # ---- R3 activation identity of done/error events ---------------------------------------
    de = p.module("events").classes.get("DoneEvent")
    fields = [s.target.id for s in de.node.body if isinstance(s, ast.AnnAssign) and isinstance(s.target, ast.Name)]
    ce = p.method("BaseInterpreter", "_collect_eligible_transitions")
    br = [x for x in own_nodes(ce.node) if isinstance(x, ast.If) and "DoneEvent" in norm(x.test)]
    c.need(br, "invoke branch of _collect_eligible_transitions")
    compared = {x.attr for x in ast.walk(br[0]) if isinstance(x, ast.Attribute) and isinstance(x.value, ast.Name) and x.value.id == "event"}
    ident = [f for f in fields if f not in ("type", "data", "src")]
    ok = bool(ident) and bool(compared - {"type", "src"})
    c.ob("R3", ok, ce, "done-event-no-activation-identity", "a completion event is tied to the activation that started the service" if ok else
         f"DoneEvent carries {fields} and the matcher compares only event.{sorted(compared)} (invoke id + type): a result already queued "
         f"when its state is left and re-entered drives onDone/onError of the new activation", br[0])
    # ---- R4 child teardown -----------------------------------------------------------------
    sm = p.method("Interpreter", "_spawn_and_manage_actor")
    tries = [t for t in own_nodes(sm.node) if isinstance(t, ast.Try) and t.finalbody]
    ok = False
    for t in tries:
        fin = "\n".join(norm(s) for s in t.finalbody)
        if "_actors.pop" in fin and ".stop()" in fin:
            ok = True
    c.ob("R4", ok, sm, "child-teardown-in-finally", "the invoked child is removed and stopped in a finally" if ok else
         "the invoked child machine is not torn down in a finally: it survives the invoking state", sm.node)
    canc = [h for t in own_nodes(sm.node) if isinstance(t, ast.Try) for h in t.handlers if "CancelledError" in norm(h.type or ast.Constant(""))]
    ok = any(".stop()" in "\n".join(norm(s) for s in h.body) and isinstance(h.body[-1], ast.Raise) for h in canc)
    c.ob("R4", ok, sm, "cancel-stops-child-then-reraises", "cancellation stops the child, then re-raises" if ok else
         "on cancellation the invoked child is not stopped before re-raising", sm.node)
    rn = next((f for f in roles(ctx, "SyncInterpreter").funcs if f.name == "_runner"), None)
    c.need(rn, "sync actor runner thread body")
    tries = [t for t in own_nodes(rn.node) if isinstance(t, ast.Try) and t.finalbody]
    ok = any(".stop()" in "\n".join(norm(s) for s in t.finalbody) and "_actors.pop" in "\n".join(norm(s) for s in t.finalbody) for t in tries)
    c.ob("R4", ok, rn, "sync-child-teardown-in-finally", "the sync actor thread stops and removes its child in a finally" if ok else
         "the sync actor thread does not tear its child down in a finally", rn.node)
    handle_before_start(ctx, "R5")
    # ---- R6 nothing about an invocation is cached under its (non-unique) id / src -------------------
    n6 = 0
    for f in p.funcs_in("base_interpreter", "interpreter", "sync_interpreter"):
        for w in attr_writes(f):
            if w.base != "self" or w.op != "subscript" or not isinstance(w.node, ast.Assign):
                continue
            key = w.node.targets[0].slice
            kexprs = [key]
            if isinstance(key, ast.Name):
                from sa.util import assignments_to
                kexprs += [getattr(a, "value", key) for a in assignments_to(f, key.id) if getattr(a, "value", None) is not None]
            for k in kexprs:
                if isinstance(k, ast.Attribute) and isinstance(k.value, ast.Name) and k.value.id in ("invocation", "inv", "invoke_def") and k.attr in ("id", "src"):
                    n6 += 1
                    uses_same = any(isinstance(y, ast.Name) and y.id == k.value.id for y in ast.walk(w.node.value))
                    if isinstance(w.node.value, ast.Name):
                        from sa.util import assignments_to as _at
                        uses_same = uses_same or any(any(isinstance(y, ast.Name) and y.id == k.value.id for y in ast.walk(getattr(a, "value", a))) for a in _at(f, w.node.value.id))
                    c.ob("R6", not uses_same, f, f"cache-by-invoke-{k.attr}:{w.attr}",
                         "not derived from the invocation" if not uses_same else
                         f"'{stmt_text(w.node)}' caches data derived from an invocation under its {k.attr}; invoke ids are unique only by default (an explicit "
                         f"'id' can be reused on several states), so a later invocation with the same id is started with the first one's input/event", w.node)
    c.ob("R6", True, sched, "invoke-caches", f"{n6} interpreter-level caches keyed by an invocation's id/src examined", sched.node, nontrivial=False)
    ct = p.method("Interpreter", "_cancel_state_tasks")
    ok = any(isinstance(x, ast.Await) and "cancel_by_owner" in norm(x.value) for x in own_nodes(ct.node))
    c.ob("R4", ok, ct, "exit-awaits-cancellation", "state exit awaits the cancellation of the state's tasks" if ok else
         "state exit does not await cancel_by_owner: a service task can outlive its state", ct.node)
    tm = p.cls("TaskManager").methods["cancel_by_owner"]
    ok = any(isinstance(x, ast.Await) and "gather" in norm(x.value) for x in own_nodes(tm.node))
    c.ob("R4", ok, tm, "cancel-by-owner-awaits", "cancel_by_owner waits for the cancelled tasks to finish" if ok else
         "cancel_by_owner returns before the cancelled tasks have finished", tm.node)


def _reaches_child_start(ctx, view, f, call) -> bool:
    """the call starts a child interpreter: ``<child>.start()`` itself or a self-helper whose body does it."""
    fn = call.func
    if isinstance(fn, ast.Attribute) and fn.attr == "start" and dotted(fn.value) in ("child", "child_interpreter", "actor"):
        return True
    for s in ctx.r.callsites(f, view):
        if s.call is call and s.recv == "self":
            for t in s.targets:
                for x in own_nodes(t.node):
                    if isinstance(x, ast.Call) and isinstance(x.func, ast.Attribute) and x.func.attr == "start" and \
                            dotted(x.func.value) in ("child", "child_interpreter", "actor"):
                        return True
    return False


def handle_before_start(ctx, rid="R5"):
    """The task that manages an invoked child machine tears the child down in its finally / cancellation
    handler through a local handle and through self._actors.  Both must be in place *before* the child's
    start() is awaited: a cancellation that arrives while start() is suspended otherwise finds nothing to stop."""
    c, p = ctx.c, ctx.p
    f = p.method("Interpreter", "_spawn_and_manage_actor")
    g = cfg_of(f.node)
    # teardown handle: receiver of .stop() inside the finally / CancelledError handler
    handles = set()
    for x in own_nodes(f.node):
        if isinstance(x, ast.Call) and isinstance(x.func, ast.Attribute) and x.func.attr == "stop" and isinstance(x.func.value, ast.Name):
            if in_finally(f, x) is not None or in_handler(f, x) is not None:
                handles.add(x.func.value.id)
    c.need(handles, "teardown handle of the invoked child (receiver of .stop() in finally / handler)")
    starts = [x for x in own_nodes(f.node) if isinstance(x, ast.Call) and _reaches_child_start(ctx, "Interpreter", f, x)]
    c.expect(rid, "awaits that start the invoked child", len(starts), 1, f, f"{f.short} no longer starts the invoked child machine")
    from sa.util import assignments_to
    for st in starts:
        sn = cfg_node_of(f, st)
        for h in sorted(handles):
            binds = [n for a in assignments_to(f, h) if isinstance(a, ast.Assign) and not (isinstance(a.value, ast.Constant) and a.value.value is None)
                     for n in g.nodes_of(a) if n not in sn]
            ok = bool(binds) and all(g.always_before(binds, n, follow_exc=False) for n in sn)
            c.ob(rid, ok, f, f"handle-bound-before-start:{h}",
                 f"'{h}' refers to the child before its start() is awaited" if ok else
                 f"'{h}' (the handle the finally / cancellation handler uses to stop the child) is bound only when the await that starts the "
                 f"child returns: if the invoking state is left or the parent stopped while the child's start() is suspended, the handler "
                 f"sees None and the child interpreter keeps running", st)
        regs = [n for w in attr_writes(f) if w.attr == "_actors" and w.op == "subscript" for n in g.nodes_of(w.node)]
        ok = bool(regs) and all(g.always_before(regs, n, follow_exc=False) for n in sn)
        c.ob(rid, ok, f, "registered-before-start",
             "the child is in self._actors before its start() is awaited (stop() sweeps it)" if ok else
             "the invoked child is not registered in self._actors before its start() is awaited: parent.stop() during that await does not find it", st)
    # the finally block tears the child down whenever there is a child (no zombie child interpreter after the state was left)
    from sa.util import canon_atom, guards_at
    fin_stops = [x for x in own_nodes(f.node) if isinstance(x, ast.Call) and isinstance(x.func, ast.Attribute) and x.func.attr == "stop"
                 and isinstance(x.func.value, ast.Name) and in_finally(f, x) is not None]
    if c.expect(rid, "stop of the child in the finally block", len(fin_stops), 1, f,
                f"{f.short} no longer stops the invoked child in its finally block: once the invoking state is left the child interpreter keeps running"):
        for x in fin_stops:
            h = x.func.value.id
            at = [canon_atom(a, pol) for a, pol in guards_at(f, x)]
            allowed = {("is", "None", h, False), ("is", h, "None", False), ("truthy", h, "", True)}
            extra = [t for t in at if t not in allowed]
            c.ob(rid, not extra, f, f"finally-stops-child:{h}", "the finally block stops the child whenever one was created" if not extra else
                 f"the stop of the child in the finally block is guarded by {extra}: a child that exists is not torn down on those paths and outlives "
                 f"the state that invoked it", x)

