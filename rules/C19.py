"""C19 - Python-defined machines and logic discovery: structural clauses."""
import ast

from sa.effects import attr_writes
from sa.program import dotted, norm, own_nodes, const_str
from sa.util import (assignments_to, compare_parts, guards_at, self_calls_in, stmt_text, names_in, enclosing_loops)
from . import shared
from .roles import VIEWS, roles

STATE_ATTR_ACCEPTED = {
    "context": "State(context=...) has no counterpart in the config language (context is machine-level); never compiled",
    "_enter_decorators": "bookkeeping of @state.enter functions; their names are already appended to entry",
    "_exit_decorators": "bookkeeping of @state.exit functions; their names are already appended to _exit_actions",
}


def run(ctx):
    c, p, res = ctx.c, ctx.p, ctx.r
    ex = p.cls("LogicLoader").methods["_extract_logic_from_node"]
    # ---- R1 every action classification applies the same three-way routing -------------------
    adds = [x for x in own_nodes(ex.node) if isinstance(x, ast.Call) and isinstance(x.func, ast.Attribute) and x.func.attr == "add"
            and dotted(x.func.value) == "actions"]
    c.expect("R1", "action classification sites in the extractor", len(adds), 2, ex, "logic discovery no longer collects action names from both the state/transition actions and the invoke handlers: a referenced action stays unbound until it runs")
    for i, x in enumerate(sorted(adds, key=lambda n: n.lineno)):
        atoms = guards_at(ex, x)
        not_spawn = any("is_spawn_action" in norm(a) and not pol for a, pol in atoms)
        not_builtin = any("is_builtin" in norm(a) and not pol for a, pol in atoms)
        loops = [l for l in enclosing_loops(ex, x) if isinstance(l, ast.For)]
        where = "invoke-handlers" if any("invoke" in norm(l.iter) or "on_done + " in norm(l.iter) or "on_error" in norm(l.iter) for l in loops) else "state-and-transitions"
        ok = not_spawn and not_builtin
        c.ob("R1", ok, ex, f"action-routing:{where}",
             "spawn_ -> services, built-in -> skipped, otherwise an action name" if ok else
             f"the {where} loop of the logic extractor adds an action name without the "
             f"{'spawn_ routing' if not not_spawn else 'built-in test'} its sibling loop applies: 'spawn_<svc>' inside invoke.onDone/onError "
             f"is demanded as an *action* implementation and create_machine fails with ImplementationMissingError", x)
    svc = [x for x in own_nodes(ex.node) if isinstance(x, ast.Call) and isinstance(x.func, ast.Attribute) and x.func.attr == "add" and dotted(x.func.value) == "services"]
    ok = any("spawn_service_key" in norm(x) for x in svc) and any("src" in norm(x) for x in svc)
    c.ob("R1", ok, ex, "services-collected", "services are collected from invoke.src and from spawn_ actions via spawn_service_key" if ok else
         "the extractor no longer collects services from both invoke.src and spawn_ actions", ex.node)
    cg = p.cls("LogicLoader").methods["_collect_guard_names"]
    ok = "is_builtin" in norm(cg.node) and "children" in norm(cg.node)
    c.ob("R1", ok, cg, "composite-guards-recursed", "composite/stateIn guards are not demanded; their operands are" if ok else
         "composite guards are no longer recursed into by the guard-name collector", cg.node)
    # ---- R2 the extractor visits every action/guard-bearing attribute of StateNode ------------
    sn_init = p.cls("StateNode").methods["__init__"]
    bearing = set()
    for w in attr_writes(sn_init):
        v = getattr(w.node, "value", None)
        if w.base == "self" and isinstance(v, ast.Call) and isinstance(v.func, ast.Attribute) and v.func.attr.startswith("_parse_"):
            bearing.add(w.attr)
    c.floor("R2", "logic-bearing StateNode attributes", len(bearing), 5)
    read = {x.attr for x in own_nodes(ex.node) if isinstance(x, ast.Attribute) and dotted(x.value) == "node"}
    for a in sorted(bearing):
        ok = a in read or a == "initial"
        c.ob("R2", ok, ex, f"visits:{a}", f"StateNode.{a} is visited by the logic extractor" if ok else
             f"StateNode.{a} can hold action/guard references but the logic extractor never reads it: names used only there are not "
             f"discovered, and not reported missing either", ex.node)
    inv = p.cls("InvokeDefinition").methods["__init__"]
    inv_attrs = {w.attr for w in attr_writes(inv) if w.base == "self"} & {"on_done", "on_error", "src"}
    read_inv = {x.attr for x in own_nodes(ex.node) if isinstance(x, ast.Attribute) and dotted(x.value) == "invoke_def"}
    for a in sorted(inv_attrs):
        c.ob("R2", a in read_inv, ex, f"visits-invoke:{a}", f"InvokeDefinition.{a} is visited" if a in read_inv else
             f"InvokeDefinition.{a} is never read by the logic extractor", ex.node)
    rec = [x for x in self_calls_in(ex, "_extract_logic_from_node")] + [x for x in own_nodes(ex.node) if isinstance(x, ast.Call) and norm(x.func).endswith("._extract_logic_from_node")]
    c.ob("R2", bool(rec), ex, "recurses-into-children", "child states are visited" if rec else "the extractor does not recurse into child states", ex.node)
    # fail fast
    db = p.cls("LogicLoader").methods["discover_and_build_logic"]
    ok = any(isinstance(x, ast.Raise) and "ImplementationMissingError" in norm(x.exc) for x in own_nodes(db.node))
    c.ob("R2", ok, db, "fail-fast", "a referenced name without implementation raises ImplementationMissingError at creation" if ok else
         "discovery no longer fails fast on a missing implementation", db.node)
    regs = [db] + [t for s_ in res.callsites(db, None) for t in s_.targets if t.module.name == "logic_loader" and t.name.startswith("_") and t.name != "_snake_to_camel"
                   and t.name not in ("_extract_logic_from_node", "_collect_guard_names")]
    plain_ops, alias_ops = set(), set()
    for f_ in regs:
        alias_names = {a.targets[0].id for a in own_nodes(f_.node) if isinstance(a, ast.Assign) and isinstance(a.targets[0], ast.Name) and "_snake_to_camel" in norm(a.value)}
        for x in own_nodes(f_.node):
            if isinstance(x, ast.Assign) and isinstance(x.targets[0], ast.Subscript) and "logic_map" in norm(x.targets[0].value):
                k = norm(x.targets[0].slice)
                (alias_ops if "_snake_to_camel" in k or k in alias_names else plain_ops).add("assign")
            elif isinstance(x, ast.Call) and isinstance(x.func, ast.Attribute) and x.func.attr in ("setdefault", "update") and "logic_map" in norm(x.func.value) and x.args:
                k = norm(x.args[0])
                (alias_ops if "_snake_to_camel" in k or k in alias_names else plain_ops).add(x.func.attr)
    ok = bool(alias_ops) and bool(plain_ops)
    c.ob("R2", ok, db, "snake-and-camel-registered", "module functions and provider methods are registered under snake_case and camelCase" if ok else
         "discovered callables are no longer registered under both spellings", db.node)
    same = alias_ops == plain_ops
    c.ob("R2", same, db, "alias-has-same-precedence", "the camelCase alias is registered with the same operation as the name itself (later sources win for both)" if same else
         f"the name is registered with {sorted(plain_ops)} but its camelCase alias with {sorted(alias_ops)}: 'later source wins' holds for one spelling and "
         f"'first source wins' for the other, so a provider overrides a module function for notify_user but not for notifyUser", db.node)
    # ---- R3 a user implementation wins over a built-in; the two snake->camel copies agree -------
    for v in VIEWS:
        ea = roles(ctx, v).execute_actions
        bcalls = self_calls_in(ea, "_execute_builtin_action")
        c.expect("R3", f"built-in dispatch in {ea.short}", len(bcalls), 1, ea, f"{ea.short} no longer dispatches built-in actions")
        for call in bcalls:
            ok = False
            for a, pol in guards_at(ea, call):
                cp = compare_parts(a)
                if cp and isinstance(cp[1], ast.Is) and isinstance(cp[2], ast.Constant) and cp[2].value is None and pol:
                    if "logic.actions.get" in norm(cp[0]):
                        ok = True          # the lookup itself (a named condition expanded down to it)
                    for asg in assignments_to(ea, norm(cp[0])):
                        if "logic.actions.get" in norm(getattr(asg, "value", asg)):
                            ok = True
            c.ob("R3", ok, ea, "user-action-wins", "a built-in runs only when the user registered no action of that name" if ok else
                 "the built-in branch is not dominated by 'no user implementation': a built-in shadows a user action of the same name", call)
    a1 = p.module("logic_loader").functions["_snake_to_camel"]
    a2 = p.module("pythonic").functions["_snake_to_camel"]
    same = shared.normalised_body(a1) == shared.normalised_body(a2)
    c.ob("R3", same, a1, "snake-to-camel-copies-agree", "both copies of _snake_to_camel compute the same name" if same else
         "logic_loader._snake_to_camel and pythonic._snake_to_camel differ: a decorated function is registered under a name discovery would not look up", a1.node)
    # ---- R4 State coverage by the compiler ------------------------------------------------------
    st_init = p.cls("State").methods["__init__"]
    st_attrs = {w.attr for w in attr_writes(st_init) if w.base == "self"}
    cs = p.module("pythonic").functions["_compile_state"]
    read = {x.attr for x in own_nodes(cs.node) if isinstance(x, ast.Attribute) and dotted(x.value) in ("state", "child")}
    c.floor("R4", "State attributes", len(st_attrs), 14)
    for a in sorted(st_attrs):
        if a in STATE_ATTR_ACCEPTED:
            c.ob("R4", True, cs, f"state-attr:{a}", f"accepted: {STATE_ATTR_ACCEPTED[a]}", cs.node, nontrivial=False)
            continue
        c.ob("R4", a in read, cs, f"state-attr:{a}", f"State.{a} is compiled into the config" if a in read else
             f"State.{a} is accepted by State() but never read by _compile_state: the Python API silently drops it (reduced subset)", cs.node)
    c.note("C19.R4 observation (unarmed): _compile_state places state.after / state.invoke / state.always / state.on_done into the compiled "
           "config without copying; nothing in the package mutates a compiled config")
    # ---- R5 identity of the transition-merge key ---------------------------------------------------
    cc = p.module("pythonic").functions["_compile_config"]
    mg = cc.nested.get("_merge_transitions_into")
    rg = cc.nested.get("_register_states")
    c.need(mg is not None and rg is not None, "_merge_transitions_into / _register_states closures")
    recs = [x for x in own_nodes(mg.node) if isinstance(x, ast.Call) and isinstance(x.func, ast.Name) and x.func.id == mg.name]
    c.floor("R5", "recursive merge calls", len(recs), 1)
    for x in recs:
        a0 = x.args[0]
        qualified = isinstance(a0, (ast.JoinedStr, ast.BinOp)) or (mg.params[0] in names_in(a0))
        c.ob("R5", qualified, mg, "merge-keyed-by-bare-name",
             "the merge key accumulates the path of the state" if qualified else
             f"'{stmt_text(x)}' recurses with the bare child name and the lookup table is keyed by t.source.name: a transition declared on a "
             f"state is merged into every state of that name at any depth (its sibling _register_states accumulates a dotted prefix)", x)
    # ---- R7 subclass methods are classified by the object that is registered ------------------------------
    # MachineLogic subclass methods are routed to guards / services / actions by parameter count.  The count must be
    # taken of the very callable that is stored (the bound attribute): a count taken of the class-level function and
    # corrected by a constant is off by one for @staticmethod / @classmethod members, which are then registered in
    # the wrong table or not at all (the name stays unbound until the transition fires).
    ml = p.cls("MachineLogic")
    def _sig_args(f, depth=1):
        """Expressions whose signature *f* takes: inspect.signature(e) directly, or h(e) for a helper h that does it for its parameter."""
        out = [x.args[0] for x in own_nodes(f.node) if isinstance(x, ast.Call) and norm(x.func) == "inspect.signature" and x.args]
        if depth <= 0:
            return out
        for y in own_nodes(f.node):
            if not (isinstance(y, ast.Call) and y.args):
                continue
            nm = y.func.attr if isinstance(y.func, ast.Attribute) else (y.func.id if isinstance(y.func, ast.Name) else None)
            h = ml.methods.get(nm) if isinstance(y.func, ast.Attribute) else next((g_ for g_ in p.all_funcs if g_.cls is None and g_.parent is None and g_.name == nm and g_.module == f.module), None)
            if h is None or h is f:
                continue
            hp = [q for q in h.params if q not in ("self", "cls")]
            for e in _sig_args(h, depth - 1):
                if isinstance(e, ast.Name) and e.id in hp and hp.index(e.id) < len(y.args):
                    out.append(y.args[hp.index(e.id)])
        return out
    reg = next((m_ for m_ in ml.methods.values() if _sig_args(m_) and any(
        isinstance(x, ast.Assign) and isinstance(x.targets[0], ast.Subscript) and isinstance(x.targets[0].value, ast.Name) and x.targets[0].value.id.startswith("registr")
        for x in own_nodes(m_.node))), None)
    c.need(reg, "MachineLogic subclass-method registration")

    class _S:      # the expression whose signature is taken, in the shape the comparison below expects
        def __init__(self, e):
            self.args = [e]
    sigs = [_S(e) for e in _sig_args(reg)]
    stores = [x for x in own_nodes(reg.node) if isinstance(x, ast.Assign) and isinstance(x.targets[0], ast.Subscript) and isinstance(x.targets[0].value, ast.Name)
              and x.targets[0].value.id.startswith("registr")]
    c.floor("R7", "registry stores in the subclass-method registration", len(stores), 1)

    def _origin(e):
        if isinstance(e, ast.Name):
            vals = [getattr(a, "value", None) for a in assignments_to(reg, e.id)]
            vals = [v for v in vals if v is not None]
            if len(vals) == 1:
                return norm(vals[0])
        return norm(e)
    handles_static = any(isinstance(x, (ast.Name, ast.Attribute)) and norm(x).split(".")[-1] in ("staticmethod", "classmethod", "getattr_static")
                         for x in own_nodes(reg.node))
    for st in stores:
        same = any(_origin(sg.args[0]) == _origin(st.value) for sg in sigs)
        ok = same or handles_static
        c.ob("R7", ok, reg, "arity-of-registered-object", "the parameter count that selects the table is taken of the callable that is registered" if ok else
             f"the table is selected by the signature of '{norm(sigs[0].args[0]) if sigs else '?'}' but '{norm(st.value)}' is what gets registered: for a "
             f"@staticmethod / @classmethod member the two differ by the implicit first parameter, so a static guard is dropped, a static service "
             f"is registered as a guard and a static action as a service", st)
    # ---- R8 every option of the Python definition API reaches the definition it builds -------------------------
    # (a keyword that is accepted and dropped denotes a different machine than the JSON the caller had in mind: parallel=True
    #  without "type": "parallel", history= without the history kind, a service that is never registered ...)
    def _option_flows(f, skip=("self", "cls")):
        stores = []
        for x in own_nodes(f.node):
            if isinstance(x, ast.Assign) and any(isinstance(t_, (ast.Subscript, ast.Attribute)) for t_ in x.targets):
                stores.append((x, x))
            elif isinstance(x, ast.AnnAssign) and isinstance(x.target, (ast.Subscript, ast.Attribute)) and x.value is not None:
                stores.append((x, x))
            elif isinstance(x, ast.Expr) and isinstance(x.value, ast.Call) and isinstance(x.value.func, ast.Attribute) and x.value.func.attr in ("append", "update", "add", "setdefault", "extend"):
                stores.append((x, x.value))
        # a local that selects where the stores go (parent_config = self._states[parent]) carries the option into them
        bases = {}
        for x in own_nodes(f.node):
            if isinstance(x, ast.Assign) and isinstance(x.targets[0], ast.Name):
                bases.setdefault(x.targets[0].id, set()).update(names_in(x.value))
        from sa.util import ancestors as _anc
        for prm in f.params:
            if prm in skip:
                continue
            ok = False
            for st_, val in stores:
                nm = names_in(val)
                if prm in nm or any(prm in bases.get(b_, ()) for b_ in nm):
                    ok = True
                    break
                if any(isinstance(a_, ast.If) and prm in names_in(a_.test) for a_ in _anc(f, st_)):
                    ok = True
                    break
            c.ob("R8", ok, f, f"option-reaches-definition:{prm}", f"'{prm}' is stored in (or decides a store into) the definition" if ok else
                 f"the option '{prm}' of {f.short} no longer reaches any store: it is accepted and silently dropped, so the Python definition denotes a "
                 f"different machine than the equivalent JSON config", f.node)
    n8 = 0
    for cls_name, meths in (("MachineBuilder", ("state", "transition", "child_states", "action", "guard", "service", "context")), ("State", ("__init__",)), ("Transition", ("__init__",))):
        try:
            cl = p.cls(cls_name)
        except Exception:
            continue
        for mn in meths:
            if mn in cl.methods:
                n8 += 1
                _option_flows(cl.methods[mn])
    c.expect("R8", "definition-API functions examined", n8, 6, p.cls("MachineBuilder").methods["build"])
    # ---- R9 `a | b` keeps the written order (the first branch whose guard passes wins, as in the JSON array) -------
    n9 = 0
    for cls_name in ("Transition", "TransitionGroup"):
        try:
            f = p.cls(cls_name).methods["__or__"]
        except Exception:
            continue
        slf, oth = f.params[0], f.params[1]
        for r_ in [x for x in own_nodes(f.node) if isinstance(x, ast.Return) and not (isinstance(x.value, ast.Name) and x.value.id == "NotImplemented")]:
            n9 += 1
            v_ = r_.value
            lst = v_.args[0] if isinstance(v_, ast.Call) and norm(v_.func) == "TransitionGroup" and v_.args else None
            def _flat(e):
                if isinstance(e, ast.BinOp) and isinstance(e.op, ast.Add):
                    return _flat(e.left) + _flat(e.right)
                if isinstance(e, ast.List):
                    return [norm(z) for z in e.elts]
                return [norm(e)]
            seq = _flat(lst) if lst is not None else []
            first_self = bool(seq) and seq[0].split(".")[0] == slf
            others = [i for i, z in enumerate(seq) if z.split(".")[0] == oth]
            selfs = [i for i, z in enumerate(seq) if z.split(".")[0] == slf]
            ok = first_self and others and max(selfs) < min(others)
            c.ob("R9", ok, f, f"or-keeps-written-order:{cls_name}:{norm(v_)[:36]}", "the left operand's transitions come first" if ok else
                 f"'{stmt_text(r_)}' in {f.short} does not build the group as <left operand's transitions> + <right operand's>: the compiled on[event] array has a "
                 f"different branch order than the expression the user wrote, so another guarded branch wins than in the JSON config it denotes", r_)
    c.expect("R9", "group-building returns of the | operators", n9, 4, p.cls("Transition").methods["__or__"])
    # ---- R6 builds are independent --------------------------------------------------------------------
    bd = p.cls("MachineBuilder").methods["build"]
    dc = [x for x in own_nodes(bd.node) if isinstance(x, ast.Call) and norm(x.func) == "copy.deepcopy" and "_states" in norm(x.args[0])]
    c.ob("R6", bool(dc), bd, "build-deepcopies-states", "build() works on a deep copy of the stored states" if dc else
         "MachineBuilder.build() no longer deep-copies its stored states: two builds share and mutate the same config", bd.node)
    muts = [w for w in attr_writes(bd) if w.base == "self"]
    c.ob("R6", not muts, bd, "build-does-not-mutate-builder", "build() does not write to the builder" if not muts else
         f"build() mutates the builder ('{stmt_text(muts[0].node)}'): repeated builds differ", bd.node)
    rootdc = [x for x in own_nodes(bd.node) if isinstance(x, ast.Call) and norm(x.func) == "copy.deepcopy" and "_root" in norm(x.args[0])]
    c.ob("R6", bool(rootdc), bd, "build-deepcopies-root", "root properties are deep-copied per build" if rootdc else
         "root properties are shared between builds", bd.node)


_run_before_r10 = run


def run(ctx):
    _run_before_r10(ctx)
    # ---- R10 the guard of every visited transition is collected, whatever its actions are -------------------------------------
    # A transition may carry a guard and no action (or only built-in actions).  The collector call for <t>.guard_def therefore runs
    # once per iteration of the loop that binds <t>: not inside a deeper loop (zero actions -> never), not behind a continue / branch.
    from sa.util import every_iteration
    c, p = ctx.c, ctx.p
    ex = p.cls("LogicLoader").methods["_extract_logic_from_node"]
    shared.walker_kind_blind(ctx, "R11", ex, "action / guard / service names")
    calls = [x for x in own_nodes(ex.node) if isinstance(x, ast.Call) and norm(x.func).endswith("_collect_guard_names") and x.args]
    c.expect("R10", "guard collection sites in the extractor", len(calls), 2, ex,
             "logic discovery no longer collects guard names from both the state's transitions and the invoke handlers: a referenced guard stays unbound until it is evaluated")
    for i, x in enumerate(sorted(calls, key=lambda n: n.lineno)):
        a0 = x.args[0]
        base = a0.value.id if isinstance(a0, ast.Attribute) and isinstance(a0.value, ast.Name) else None
        loops = [l for l in enclosing_loops(ex, x) if isinstance(l, ast.For)]
        binder = next((l for l in loops if base is not None and base in names_in(l.target)), None)
        if binder is None:
            ok = not loops and not guards_at(ex, x) if base is None else False
            if base is not None and not loops:
                ok = True       # a single transition read off the node (e.g. node.on_done), guarded by its presence
        else:
            ok = loops[0] is binder and every_iteration(ex, binder, [x])
        c.ob("R10", ok, ex, f"guard-collected-per-transition#{i}",
             "the guard of each visited transition is collected once, whatever actions the transition has" if ok else
             f"'{stmt_text(x)}' does not run once for every transition of its loop (it sits in a deeper loop, or an iteration can end before it): the guard of a "
             f"transition without user actions is never recorded, so discovery leaves it unbound and a missing guard is not reported at creation", x)
