"""C07 - failure containment and transition atomicity (structural clauses)."""
import ast

from sa.cfg import cfg_of, handler_is_total, handler_type_names
from sa.contain import containment, handler_reraises, local_container
from sa.effects import attr_writes
from sa.program import dotted, norm, own_nodes
from sa.util import (ancestors, assignments_to, cfg_node_of, enclosing_loops, in_handler, self_calls_in,
                     stmt_text, enclosing_try_bodies)
from . import shared
from .roles import CONFIG_ATTR, ENGINE_MODULES, VIEWS, roles

# Expected containment class per *function holding the call into user code*.
#   own      : contained by a total handler in the same function
#   chain    : contained by some total, non-re-raising handler before any API root
#   escape   : intended to abort the transition / the call (reason given)
#   skip     : not a call into user code / decided elsewhere (reason given)
EXPECT = {
    "_execute_actions": ("own", "user action implementation"),
    "_notify_subscribers": ("own", "subscriber"),
    "_emit": ("own", "emit listener"),
    "_guarded": ("own", "plugin hook behind _SafePlugin"),
    "_resolve_output": ("own", "output callable"),
    "_resolve_output_value": ("own", "machine output callable"),
    "_call_delay_callable": ("own", "named delay callable"),
    "_cancel_scheduled_send": ("own", "scheduled-send canceller"),
    "_resolve_actor_machine": ("own", "actor factory during restore"),
    "_invoke_service_task": ("own", "invoked service (async): failure becomes an error event"),
    "_invoke_service": ("own", "invoked service (sync): failure becomes an error event"),
    "_apply_assign": ("chain", "assign callback"),
    "_collect_builtin_followups": ("chain", "log/pure/enqueueActions callback"),
    "_resolve_event_spec": ("chain", "event expression of raise/sendTo/emit"),
    "_resolve_actor_target": ("chain", "target expression of sendTo/forwardTo/stopChild"),
    "_resolve_delay": ("chain", "delay expression"),
    "_resolve_params": ("chain", "params callable (guard params are C06.R2's subject)"),
    "_call_with_optional_params": ("skip", "guard implementation: decided by C06.R2"),
    "_fail": ("skip", "hook obtained from a _SafePlugin element (R3 shows every element is wrapped)"),
    "_complete": ("skip", "hook obtained from a _SafePlugin element (R3 shows every element is wrapped)"),
    "_deliver": ("skip", "previous() is the library's own canceller closure, not user code"),
    "_spawn_actor": ("escape", "actor factory: a configuration error aborts the transition (rolled back, reported)"),
    "_build_initial_context": ("escape", "context factory runs in the constructor, before any transition"),
    "wait_for": ("skip", "test helper polling a user predicate; not part of event processing"),
    "wait_for_sync": ("skip", "test helper polling a user predicate; not part of event processing"),
}
# chains through these functions are another rule's subject
GUARD_CHAIN = {"BaseInterpreter._is_guard_satisfied", "BaseInterpreter._is_state_in"}


def run(ctx):
    c, p, res = ctx.c, ctx.p, ctx.r
    # ---- R1 containment class of every call into user code ----------------------
    total_sites = 0
    for v in VIEWS:
        r = roles(ctx, v)
        universe = [f for f in r.funcs if not (v == "SyncInterpreter" and f.is_async)]
        universe += [f for f in p.funcs_in("helpers", "task_manager") if f not in universe and
                     (f.self_class is None or f.self_class.name == "TaskManager")]   # _Probe is C05's view
        for f in universe:
            if f.module.name not in ENGINE_MODULES:
                continue
            if v == "Interpreter" and f.module.name == "sync_interpreter":
                continue
            if v == "SyncInterpreter" and f.module.name == "interpreter":
                continue
            for s in res.callsites(f, v):
                if s.kind != "dynamic":
                    continue
                total_sites += 1
                exp, what = EXPECT.get(f.name, ("chain", "unclassified call into a computed callable"))
                construct = f"{v}:{s.callee_text}()"
                if exp == "skip" or exp == "escape":
                    c.ob("R1", True, f, construct, f"{exp}: {what}", s.call, nontrivial=False)
                    continue
                if exp == "own":
                    h = local_container(f, s.call)
                    c.ob("R1", h is not None, f, construct,
                         f"{what}: contained by the handler in the same function" if h is not None else
                         f"{what}: '{stmt_text(s.call)}' is not inside a total, non-re-raising handler in {f.short}; "
                         f"its exception propagates into the interpreter", s.call)
                    continue
                outs = containment(res, v, f, s.call, universe, depth=8)
                bad = []
                for o in outs:
                    if o.kind == "contained":
                        continue
                    if any(x in GUARD_CHAIN for x in o.chain):
                        continue        # guard evaluation: C06.R2
                    if "BaseInterpreter._schedule_state_tasks" in o.chain:
                        continue        # delay keys of `after` are config keys, never callables
                    bad.append(o)
                if not bad:
                    c.ob("R1", True, f, construct, f"{what}: every call chain ({len(outs)}) is contained before an API root", s.call)
                for o in bad:
                    c.ob("R1", False, f, f"{construct}@{o.chain[-1]}",
                         f"{what}: an exception from {s.callee_text}() escapes to {o.func.short} through "
                         f"{' <- '.join(o.chain)} without meeting a containing handler", s.call, path=list(o.chain))
    c.floor("R1", "calls into user code (both views)", total_sites, 60)
    # ---- R2 shape of the action / built-in containment handlers ------------------
    for v in VIEWS:
        ea = roles(ctx, v).execute_actions
        handlers = []
        for t in own_nodes(ea.node):
            if isinstance(t, ast.Try):
                for h in t.handlers:
                    if handler_is_total(h):
                        kind = "builtin" if any(isinstance(x, ast.Call) and isinstance(x.func, ast.Attribute) and
                                                x.func.attr == "_execute_builtin_action" for s_ in t.body for x in ast.walk(s_)) else "user"
                        handlers.append((kind, h))
        c.expect("R2", f"containment handlers in {ea.short}", len(handlers), 2, ea, f"{ea.short} no longer contains both the user-action call and the built-in action call in a total handler: an exception from an action escapes the action list")
        for kind, h in handlers:
            notifies = any(isinstance(x, ast.Call) and isinstance(x.func, ast.Attribute) and x.func.attr == "on_action_error"
                           for s_ in h.body for x in ast.walk(s_))
            returns = bool(h.body) and isinstance(h.body[-1], ast.Return)
            c.ob("R2", notifies, ea, f"{kind}-handler-notifies",
                 f"{kind}-action failure is reported through on_action_error" if notifies else
                 f"the handler that contains a failing {kind} action does not notify on_action_error "
                 f"(the other engine / the other handler does)", h)
            c.ob("R2", returns, ea, f"{kind}-handler-returns",
                 "the rest of the action list is skipped (handler returns)" if returns else
                 f"the {kind}-action handler does not end in 'return': remaining actions of the list would still run", h)
    # ---- R3 every registered plugin is wrapped -----------------------------------
    nw = 0
    for f in p.funcs_in("base_interpreter", "interpreter", "sync_interpreter", "helpers"):
        for w in attr_writes(f):
            if w.attr != "_plugins":
                continue
            nw += 1
            ok = False
            if w.op == "assign":
                val = w.node.value
                if isinstance(val, ast.List) and not val.elts:
                    ok = True
                elif isinstance(val, ast.ListComp) and isinstance(val.elt, ast.Call) and norm(val.elt.func) == "_SafePlugin":
                    ok = True
            elif w.op in ("call:append",):
                a = w.node.args[0] if w.node.args else None
                ok = isinstance(a, ast.Call) and norm(a.func) == "_SafePlugin"
            c.ob("R3", ok, f, f"plugins-{w.op}", "element stored into _plugins is a _SafePlugin(...)" if ok else
                 f"'{stmt_text(w.node)}' stores an unwrapped plugin: an exception in one of its hooks would propagate into the interpreter", w.node)
    c.floor("R3", "writers of _plugins", nw, 3)
    nloops = 0
    for f in p.funcs_in("base_interpreter", "interpreter", "sync_interpreter"):
        for n in own_nodes(f.node):
            if isinstance(n, ast.For) and isinstance(n.iter, ast.Attribute) and n.iter.attr in ("_plugins", "plugins") and \
                    any(isinstance(x, ast.Call) for s_ in n.body for x in ast.walk(s_)):
                nloops += 1
                ok = n.iter.attr == "_plugins"
                c.ob("R3", ok, f, "hook-dispatch-iterates-wrapped", "hook dispatch iterates the wrapped list" if ok else
                     "a hook dispatch iterates the unwrapped 'plugins' property: containment is bypassed", n)
    c.floor("R3", "plugin hook dispatch loops", nloops, 20)
    # ---- R4 rollback shape ------------------------------------------------------
    for v in VIEWS:
        ex = roles(ctx, v).executor
        g = cfg_of(ex.node)
        tries = [t for t in own_nodes(ex.node) if isinstance(t, ast.Try) and
                 any(isinstance(x, ast.Call) and isinstance(x.func, ast.Attribute) and x.func.attr in ("_exit_states", "_enter_states")
                     for s_ in t.body for x in ast.walk(s_))]
        if not tries:
            c.ob("R4", False, ex, "transaction-has-total-handler",
                 f"{ex.short} runs exit / actions / enter outside any try: an aborted transition leaves a half-exited configuration", ex.node)
            continue
        t = tries[0]
        hs = [h for h in t.handlers if handler_is_total(h)]
        c.ob("R4", bool(hs), ex, "transaction-has-total-handler", "the exit/actions/enter transaction has a total handler" if hs else
             "the exit/actions/enter transaction has no 'except Exception' handler: an aborted transition leaves a half-exited configuration", t)
        # all three phases are inside the try body
        for name in ("_exit_states", "_enter_states"):
            for call in self_calls_in(ex, name):
                inside = any(tt is t for tt in enclosing_try_bodies(ex, call))
                c.ob("R4", inside, ex, f"{name}-inside-transaction", f"{name} runs inside the transaction" if inside else
                     f"'{stmt_text(call)}' runs outside the transaction try: its failure is not rolled back", call)
        for h in hs:
            rer = handler_reraises(h)
            c.ob("R4", rer, ex, "rollback-reraises", "rollback re-raises so the failure is reported" if rer else
                 "the rollback handler swallows the error: an aborted transition is not reported", h)
            restores = [w for w in attr_writes(ex) if w.attr == CONFIG_ATTR and in_handler(ex, w.node) is h]
            c.ob("R4", len(restores) >= 2, ex, "rollback-restores", "handler restores the configuration (clear + update)" if len(restores) >= 2 else
                 "the rollback handler does not restore the configuration", h)
    shared.rollback_rearm(ctx, "R4")
    # ---- R6 a containment handler cannot itself fail on the object it is containing --------------
    # Handlers that contain user code (subscribers, listeners, actions, plugin hooks) may log, notify plugins
    # (wrapped: R3) and return.  A package helper called from the handler - also inside the arguments of the
    # logging call - must not dereference plain attributes of the user object (``cb.__name__``): callables such
    # as functools.partial or callable instances lack them, the handler raises and nothing contains the failure.
    n6 = 0
    for v in VIEWS:
        r = roles(ctx, v)
        for f in r.funcs + [p.cls("_SafePlugin").methods["__getattr__"].nested.get("_guarded")]:
            if f is None or f.module.name not in ENGINE_MODULES:
                continue
            dyn = [s_ for s_ in res.callsites(f, v) if s_.kind == "dynamic"]
            if not dyn:
                continue
            for s_ in dyn:
                h = local_container(f, s_.call)
                if h is None:
                    continue
                # the same dereference written in the handler itself (or inlined into it)
                direct = [y for y in ast.walk(h) if isinstance(y, ast.Attribute) and isinstance(y.ctx, ast.Load) and y.attr.startswith("__") and y.attr.endswith("__")
                          and norm(y.value) == s_.callee_text and not any(any(z is y for b_ in tr.body for z in ast.walk(b_)) for tr in ast.walk(h) if isinstance(tr, ast.Try))]
                if direct:
                    n6 += 1
                    c.ob("R6", False, f, f"{v}:handler-dereference:{norm(direct[0])}",
                         f"the handler that contains a failing {s_.callee_text}() dereferences '{norm(direct[0])}' of the user object without a default: for a "
                         f"functools.partial / callable instance the handler itself raises AttributeError and the original failure is no longer contained", direct[0])
                for x in ast.walk(h):
                    if not isinstance(x, ast.Call):
                        continue
                    site = next((y for y in res.callsites(f, v) if y.call is x), None)
                    if site is None or site.kind != "resolved":
                        continue
                    for t in site.targets:
                        if t.module.name not in ENGINE_MODULES or t.name.startswith("on_"):
                            continue
                        n6 += 1
                        params = [a for a in t.params if a not in ("self", "cls")]
                        risky = [y for y in own_nodes(t.node) if isinstance(y, ast.Attribute) and isinstance(y.ctx, ast.Load) and isinstance(y.value, ast.Name)
                                 and y.value.id in params and y.attr.startswith("__") and not any(
                                     isinstance(tr, ast.Try) for tr in __import__("sa.util", fromlist=["ancestors"]).ancestors(t, y))]
                        c.ob("R6", not risky, f, f"{v}:handler-helper:{t.name}",
                             f"helper {t.short} called from the containment handler cannot fail on the contained object" if not risky else
                             f"the handler that contains a failing {s_.callee_text}() calls {t.short}, which dereferences '{norm(risky[0])}' of the user "
                             f"object without a default: for a functools.partial / callable instance the handler itself raises AttributeError and the "
                             f"original failure is no longer contained", x)
    c.ob("R6", True, "containment handlers", "handler-helpers", f"{n6} package helpers called from containment handlers examined", None, nontrivial=False)
    # ---- R7 an action list is cut short only by a contained failure ----------------------------------------
    # (every action outside a failing one runs: nothing but an exception handler leaves the action loop early)
    for v in VIEWS:
        ea7 = roles(ctx, v).execute_actions
        for l in [x for x in own_nodes(ea7.node) if isinstance(x, ast.For) and ea7.params[1:2] and norm(x.iter) == ea7.params[1]]:
            early = [y for st_ in l.body for y in ast.walk(st_) if isinstance(y, (ast.Break, ast.Return)) and in_handler(ea7, y) is None]
            c.ob("R7", not early, ea7, f"{v}:action-loop-left-only-by-failure", "the remaining actions are skipped only from a containment handler" if not early else
                 f"'{stmt_text(early[0])}' leaves the action loop of {ea7.short} outside any exception handler: the actions listed after it are silently not "
                 f"executed although nothing failed", (early or [l])[0])
    # ---- R5 async run loop survives a failing event --------------------------------
    dr = roles(ctx, "Interpreter").drain
    loop = next((l for l in own_nodes(dr.node) if isinstance(l, ast.While)), None)
    c.need(loop is not None, "run loop while")
    tries = [t for t in ast.walk(loop) if isinstance(t, ast.Try)]
    c.need(tries, "per-event try in the run loop")
    t = tries[0]
    names = [handler_type_names(h) for h in t.handlers]
    total_idx = next((i for i, h in enumerate(t.handlers) if handler_is_total(h)), None)
    canc_idx = next((i for i, h in enumerate(t.handlers) if any("CancelledError" in x for x in handler_type_names(h))), None)
    ok = total_idx is not None and not handler_reraises(t.handlers[total_idx]) and \
        not any(isinstance(x, (ast.Break, ast.Return)) for s_ in t.handlers[total_idx].body for x in ast.walk(s_))
    c.ob("R5", ok, dr, "loop-survives-failed-event", "a failing event is logged and the loop continues" if ok else
         "the per-event handler of the run loop re-raises / leaves the loop: one failing event kills the interpreter", t)
    ok2 = canc_idx is not None and (total_idx is None or canc_idx < total_idx) and handler_reraises(t.handlers[canc_idx])
    if total_idx is not None and "BaseException" not in names[total_idx]:
        ok2 = ok2 or canc_idx is None      # 'except Exception' does not catch CancelledError anyway
    c.ob("R5", ok2, dr, "cancellation-propagates", "CancelledError is re-raised before the generic handler" if ok2 else
         "cancellation of the run loop can be swallowed by the per-event handler", t)
