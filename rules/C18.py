"""C18 - config front-end: structural clauses (shape dispatch, raw exceptions, shape guards, normalisers)."""
import ast

from sa.cfg import cfg_of, handler_type_names
from sa.program import dotted, norm, own_nodes, const_str
from sa.util import (ancestors, assignments_to, cfg_node_of, compare_parts, enclosing_try_bodies, guards_at, parents,
                     self_calls_in, stmt_text, names_in)
from . import shared
from .roles import VIEWS, roles

BUILTIN_EXC = {"TypeError", "ValueError", "KeyError", "AttributeError", "IndexError", "RuntimeError", "LookupError", "Exception",
               "AssertionError", "NotImplementedError"}
SHAPE_ATTRS = {"items", "values", "keys", "get", "split", "startswith", "endswith", "append", "extend", "copy", "pop", "update",
               "lower", "strip", "replace"}
CONVERTERS = {"int", "float"}
# raises of built-in exception classes that are not about the machine config (one named site each)
RAISE_ACCEPTED = {
    "SyncInterpreter._resolve_target_state_robustly:ValueError":
        "unreachable: the dispatcher returns on 'not transition.target_str' before calling the resolver",
}
CONFIG_MODULES = ("models", "factory", "resolver")


def _is_cfg_get(n):
    return isinstance(n, ast.Call) and isinstance(n.func, ast.Attribute) and n.func.attr == "get" and \
        isinstance(n.func.value, ast.Name) and "config" in n.func.value.id and n.args and const_str(n.args[0]) is not None


def _in_converting_try(f, node):
    for t in enclosing_try_bodies(f, node):
        for h in t.handlers:
            names = {x.split(".")[-1] for x in handler_type_names(h)}
            if names & {"TypeError", "ValueError", "AttributeError", "Exception", "KeyError"}:
                return True
    return False


def _isinstance_guard(f, at, name):
    for a, pol in guards_at(f, at):
        if isinstance(a, ast.Call) and norm(a.func) == "isinstance" and a.args and norm(a.args[0]) == name and pol:
            return True
        if isinstance(a, ast.Call) and norm(a.func) == "callable" and a.args and norm(a.args[0]) == name and pol:
            return True
    return False


def run(ctx):
    c, p, res = ctx.c, ctx.p, ctx.r
    # ---- R1 shape dispatch is total --------------------------------------------------------
    n = 0
    for f in p.funcs_in("models"):
        tests = {}
        g = cfg_of(f.node)
        for nd in g.nodes:
            if nd.kind == "test":
                for x in ast.walk(nd.ast):
                    if isinstance(x, ast.Call) and norm(x.func) == "isinstance" and x.args and isinstance(x.args[0], ast.Name) \
                            and (x.args[0].id in f.params or "config" in x.args[0].id or x.args[0].id.startswith("raw_") or x.args[0].id == "item"):
                        tests.setdefault(x.args[0].id, []).append(nd)
        for var, nds in sorted(tests.items()):
            if len(nds) < 2 and not var.startswith("raw_"):
                continue
            n += 1
            # follow the 'not any of the shapes' path: F edges of positive isinstance tests on var (T edges of negated ones)
            blocked = []
            for nd in nds:
                negated = isinstance(nd.ast, ast.UnaryOp) or "not isinstance" in norm(nd.ast)
                plain = isinstance(nd.ast, ast.Call)
                for d, lab in g.succ[nd.id]:
                    if plain and lab == "T":
                        blocked.append((nd.id, d, lab))
            reach = g.reachable([g.entry], blocked_edges=blocked, follow_exc=True)
            lib_raise = [x for x in reach if g.nodes[x].kind == "stmt" and isinstance(g.nodes[x].ast, ast.Raise)
                         and g.nodes[x].ast.exc is not None and "InvalidConfigError" in norm(g.nodes[x].ast.exc)]
            c.ob("R1", bool(lib_raise), f, f"dispatch:{var}",
                 f"a '{var}' of none of the accepted shapes reaches 'raise InvalidConfigError'" if lib_raise else
                 f"{f.short} dispatches on the shape of '{var}' ({len(nds)} isinstance tests) but a value of no accepted shape does not reach "
                 f"a library error: it is silently accepted or fails later with a raw exception", nds[0].ast)
    c.floor("R1", "shape dispatchers in models.py", n, 8)
    # ---- R2 explicit raises of built-in exception classes in config-reachable code -----------
    n = 0
    funcs = list(p.funcs_in(*CONFIG_MODULES))
    for v in VIEWS:
        for f in roles(ctx, v).funcs:
            if f.name.startswith("_resolve_target_state") or f.name in ("_enter_states",):
                if f not in funcs:
                    funcs.append(f)
    for f in funcs:
        for x in own_nodes(f.node):
            if isinstance(x, ast.Raise) and x.exc is not None:
                n += 1
                cls = norm(x.exc.func) if isinstance(x.exc, ast.Call) else norm(x.exc)
                cls = cls.split(".")[-1]
                if cls in BUILTIN_EXC:
                    key = f"{f.short}:{cls}"
                    if key in RAISE_ACCEPTED:
                        c.ob("R2", True, f, f"raise:{cls}", f"accepted: {RAISE_ACCEPTED[key]}", x, nontrivial=False)
                    else:
                        c.ob("R2", False, f, f"raise:{cls}",
                             f"'{stmt_text(x, 80)}' raises the built-in {cls} for a malformed machine config; the contract is an "
                             f"XStateMachineError subclass naming the offender", x)
                else:
                    c.ob("R2", True, f, f"raise:{cls}", "library error class", x)
    c.floor("R2", "explicit raises in config-reachable code", n, 25)
    # ---- R3 shape guard on raw config values ----------------------------------------------------
    n = 0
    for f in p.funcs_in("models", "factory"):
        pm = parents(f)
        for x in own_nodes(f.node):
            if not _is_cfg_get(x):
                continue
            key = const_str(x.args[0])
            par = pm.get(id(x))
            # value possibly wrapped in `or default`
            cur, up = x, par
            while isinstance(up, ast.BoolOp):
                cur, up = up, pm.get(id(up))
            uses = []
            if isinstance(up, ast.Attribute) and up.attr in SHAPE_ATTRS:
                uses.append((up, f".{up.attr}() on the raw value"))
            elif isinstance(up, ast.Call) and isinstance(up.func, ast.Name) and up.func.id in CONVERTERS:
                uses.append((up, f"{up.func.id}() of the raw value"))
            elif isinstance(up, (ast.Assign, ast.AnnAssign)):
                tgt = up.targets[0] if isinstance(up, ast.Assign) else up.target
                if isinstance(tgt, ast.Name):
                    for y in own_nodes(f.node):
                        if isinstance(y, ast.Attribute) and isinstance(y.value, ast.Name) and y.value.id == tgt.id and y.attr in SHAPE_ATTRS \
                                and isinstance(y.ctx, ast.Load):
                            uses.append((y, f"{tgt.id}.{y.attr}()"))
                        elif isinstance(y, (ast.For, ast.comprehension)) and isinstance(y.iter, ast.Name) and y.iter.id == tgt.id:
                            uses.append((y.iter, f"iteration over {tgt.id}"))
                        elif isinstance(y, ast.Call) and isinstance(y.func, ast.Name) and y.func.id in CONVERTERS and y.args and \
                                isinstance(y.args[0], ast.Name) and y.args[0].id == tgt.id:
                            uses.append((y, f"{y.func.id}({tgt.id})"))
            for node, what in uses:
                n += 1
                name = norm(node.value) if isinstance(node, ast.Attribute) and isinstance(node.value, ast.Name) else (norm(node) if isinstance(node, ast.Name) else None)
                if isinstance(node, ast.Call) and node.args and isinstance(node.args[0], ast.Name):
                    name = node.args[0].id
                ok = _in_converting_try(f, node) or (name is not None and _isinstance_guard(f, node, name))
                # reassignment that normalises the shape (raw = [raw]) counts when it is guarded itself
                c.ob("R3", ok, f, f"raw:{key}:{what.split('(')[0][:30]}",
                     f"config['{key}']: {what} is shape-guarded" if ok else
                     f"config['{key}'] is used with a required shape ({what}) without an isinstance guard or a converting try: a value of the "
                     f"wrong JSON type surfaces as a raw AttributeError/TypeError/ValueError", node)
    c.floor("R3", "shape-dependent uses of raw config values", n, 4)
    cm = p.func("factory:create_machine")
    gets = [x for x in own_nodes(cm.node) if isinstance(x, ast.Call) and isinstance(x.func, ast.Attribute) and x.func.attr == "get" and dotted(x.func.value) == cm.params[0]]
    ins = [x for x in own_nodes(cm.node) if isinstance(x, ast.Compare) and isinstance(x.ops[0], (ast.In, ast.NotIn)) and norm(x.comparators[0]) == cm.params[0]]
    for x in gets + ins:
        ok = _isinstance_guard(cm, x, cm.params[0])
        c.ob("R3", ok, cm, "config-is-mapping", "create_machine checks that the config is a mapping before reading it" if ok else
             f"'{stmt_text(x)}' in create_machine is not dominated by an isinstance(config, dict) check on every path (with logic= given the "
             f"loader's check is skipped): a non-object config raises a raw AttributeError/TypeError", x)
    # ---- R6 the path walk consumes every segment through a child lookup ---------------------------
    # All target spellings end in one walk: cursor = cursor.states[segment] for each segment of the path it is
    # given.  The walk must take the path as handed over: a segment that is dropped (or inserted) inside the walk
    # makes two spellings of different states resolve to one node (a child keyed like its parent, a top-level
    # state keyed like the machine id).
    walks = []
    for f in p.funcs_in("resolver"):
        for lp in own_nodes(f.node):
            if isinstance(lp, ast.For) and isinstance(lp.target, ast.Name) and any(
                    isinstance(x, ast.Assign) and isinstance(x.value, ast.Subscript) and norm(x.value.value).endswith(".states")
                    and norm(x.value.slice) == lp.target.id for st in lp.body for x in ast.walk(st)):
                walks.append((f, lp))
    c.floor("R6", "segment walks in the resolver", len(walks), 1)
    for f, lp in walks:
        it = lp.iter
        direct = isinstance(it, ast.Name) and it.id in f.params
        muts = []
        if direct:
            for x in own_nodes(f.node):
                if isinstance(x, (ast.Assign, ast.AugAssign, ast.AnnAssign)):
                    tg = x.targets if isinstance(x, ast.Assign) else [x.target]
                    if any(isinstance(t, ast.Name) and t.id == it.id for t in tg):
                        v_ = getattr(x, "value", None)
                        if not (isinstance(v_, ast.Call) and isinstance(v_.func, ast.Name) and v_.func.id in ("list", "tuple") and
                                len(v_.args) == 1 and norm(v_.args[0]) == it.id):
                            muts.append(x)
                    if any(isinstance(t, ast.Subscript) and norm(t.value) == it.id for t in tg):
                        muts.append(x)
                elif isinstance(x, ast.Delete) and any(isinstance(t, ast.Subscript) and norm(t.value) == it.id for t in x.targets):
                    muts.append(x)
                elif isinstance(x, ast.Call) and isinstance(x.func, ast.Attribute) and norm(x.func.value) == it.id and \
                        x.func.attr in ("pop", "remove", "insert", "append", "extend", "clear", "reverse", "sort"):
                    muts.append(x)
        ok = direct and not muts
        c.ob("R6", ok, f, "walk-consumes-path-as-given", "the walk iterates the path it was handed, unmodified" if ok else
             (f"'{stmt_text(muts[0])}' rewrites the path inside the walk" if muts else f"the walk iterates '{norm(it)}', not the path parameter") +
             ": a segment is dropped or added depending on the node's own key, so spellings that name different states (a child keyed like its "
             "parent, '#id.id') resolve to the same node and an unresolvable one is accepted", muts[0] if muts else lp)
        raises = any(isinstance(x, ast.Raise) and x.exc is not None and "StateNotFoundError" in norm(x.exc) for st in lp.body for x in ast.walk(st))
        c.ob("R6", raises, f, "walk-missing-child-raises", "a segment that names no child raises StateNotFoundError" if raises else
             "the walk no longer raises StateNotFoundError for a segment that names no child", lp)
    # ---- R7 target strategies: each spelling is resolved by its own strategy or rejected, never handed to the next one ----
    def _ends(stmts):
        """every path through *stmts* ends in return / raise"""
        if not stmts:
            return False
        last = stmts[-1]
        if isinstance(last, (ast.Return, ast.Raise)):
            return True
        if isinstance(last, ast.If):
            return _ends(last.body) and _ends(last.orelse)
        if isinstance(last, ast.Try):
            return (_ends(last.body) or _ends(last.finalbody)) and all(_ends(h.body) for h in last.handlers) if not last.finalbody else _ends(last.finalbody) or (_ends(last.body) and all(_ends(h.body) for h in last.handlers))
        if isinstance(last, (ast.While,)):
            return isinstance(last.test, ast.Constant) and bool(last.test.value)
        return False
    rts = next((f for f in p.funcs_in("resolver") if f.name == "resolve_target_state"), None)
    c.need(rts, "resolve_target_state in resolver.py")
    tparam = rts.params[0]
    # (at any depth: a guard clause turned into an if/else moves the strategies into its else branch)
    strat = [x for x in own_nodes(rts.node) if isinstance(x, ast.If) and any(isinstance(y, ast.Name) and y.id == tparam for y in ast.walk(x.test))
             and ("startswith" in norm(x.test) or "==" in norm(x.test))
             and not isinstance(x.test, ast.UnaryOp)]
    if c.expect("R7", "spelling strategies of resolve_target_state", len(strat), 3, rts, "resolve_target_state no longer distinguishes the '#absolute', '.' and '.relative' spellings"):
        for x in strat:
            ok = _ends(x.body)
            c.ob("R7", ok, rts, f"strategy-is-final:{norm(x.test)[:30]}", "a target of this spelling is resolved by its strategy or rejected" if ok else
                 f"the strategy for '{norm(x.test)}' can complete without returning a state or raising: a target of that spelling that does not resolve is "
                 f"handed on to the next strategy and silently resolves as something else (e.g. '#m.a.b' as the bare key), instead of StateNotFoundError", x)
    ok = _ends(rts.node.body)
    c.ob("R7", ok, rts, "resolver-never-falls-through", "every path of the resolver returns a state or raises" if ok else
         "resolve_target_state can fall off its end (returning None): an unresolvable target is accepted", rts.node)
    nonret = [x for x in own_nodes(rts.node) if isinstance(x, ast.Return) and (x.value is None or (isinstance(x.value, ast.Constant) and x.value.value is None))]
    c.ob("R7", not nonret, rts, "resolver-never-returns-none", "the resolver never returns None" if not nonret else
         "resolve_target_state returns None on some path: the caller treats it as 'no target' and the transition silently does something else", (nonret or [rts.node])[0])
    # segments are validated before every walk
    vs = next((f for f in p.funcs_in("resolver") if f.name == "_validate_segments"), None)
    if vs is not None:
        raises = [x for x in own_nodes(vs.node) if isinstance(x, ast.Raise)]
        okv = any(any(not isinstance(a, ast.Constant) and pol for a, pol in guards_at(vs, x)) and not any(isinstance(a, ast.Constant) for a, pol in guards_at(vs, x)) for x in raises)
        okv = okv and not any(isinstance(y, ast.Call) and isinstance(y.func, ast.Name) and y.func.id == "all" for y in own_nodes(vs.node))
        c.ob("R7", okv, vs, "empty-segment-rejected", "a target with an empty segment ('a..b', 'a.') is rejected" if okv else
             "_validate_segments no longer raises for an empty path segment: 'a..b' / 'a.' resolve to something instead of StateNotFoundError", vs.node)
        g_r = cfg_of(rts.node)
        vcalls = [i for x in own_nodes(rts.node) if isinstance(x, ast.Call) and norm(x.func) == "_validate_segments" for i in cfg_node_of(rts, x)]
        for x in [y for y in own_nodes(rts.node) if isinstance(y, ast.Call) and norm(y.func) == "_find_descendant"]:
            okw = all(g_r.always_before(vcalls, i, follow_exc=False) for i in cfg_node_of(rts, x))
            c.ob("R7", okw, rts, f"validated-before-walk:{norm(x)[:40]}", "the segments are validated before the walk" if okw else
                 f"'{norm(x)}' is reachable without _validate_segments: an empty segment is looked up as a state key", x)
    # ---- R9 parsing never mutates the config it was handed -----------------------------------------------------------
    shared.definition_is_read_only(ctx, "R9", ("models", "factory", "resolver"),
                                   "a second create_machine() from the same config object no longer sees that key: equal configs stop denoting equal machines")
    # ---- R8 id tests in the resolution fallbacks carry the '.' separator (an unresolvable target must not resolve by a character suffix) ----
    shared.dotted_id_tests(ctx, "R8")
    # ---- R5 an unresolvable target is a StateNotFoundError in both engines -------------------------
    for v in VIEWS:
        r = roles(ctx, v)
        clo = [r.dispatch] + [t for s_ in res.callsites(r.dispatch, v) if s_.recv == "self" for t in s_.targets if "resolve_target" in t.name]
        ok = any(isinstance(x, ast.Raise) and x.exc is not None and "StateNotFoundError" in norm(x.exc) for f_ in clo for x in own_nodes(f_.node))
        c.ob("R5", ok, r.dispatch, f"{v}:unresolvable-target-raises", "an unresolvable transition target raises StateNotFoundError" if ok else
             f"under {v} an unresolvable transition target no longer raises StateNotFoundError (the transition would silently do something else)", r.dispatch.node)
    # ---- R4 spelling normalisers ---------------------------------------------------------------
    sn = p.cls("StateNode")
    po = sn.methods["_parse_on"]
    ok = any(_is_cfg_get(x) and const_str(x.args[0]) == "always" for x in own_nodes(po.node)) and \
        any(isinstance(x, ast.Call) and isinstance(x.func, ast.Attribute) and x.func.attr == "setdefault" and x.args and const_str(x.args[0]) == "" for x in own_nodes(po.node))
    c.ob("R4", ok, po, "always-merged-into-empty-event", "'always' transitions are merged into the '' event bucket" if ok else
         "'always' is no longer merged into the eventless ('') bucket: the two spellings diverge", po.node)
    for name, helper in (("_parse_on", "_normalize_transitions"), ("_parse_on_done", "_normalize_transitions"), ("_parse_after", "_normalize_transitions"),
                         ("_parse_invoke", "_normalize_transitions"), ("_parse_invoke", "_ensure_list"), ("_parse_actions", "_ensure_list")):
        f = sn.methods[name]
        ok = bool(self_calls_in(f, helper))
        c.ob("R4", ok, f, f"{name}-uses-{helper}", f"{name} normalises through {helper} (string / object / list spellings)" if ok else
             f"{name} no longer goes through {helper}: single vs list vs object spellings are not equivalent", f.node)
    pa = sn.methods["_parse_after"]
    ok = any(isinstance(t, ast.Try) and "int(delay)" in norm(t.body[0]) for t in own_nodes(pa.node))
    c.ob("R4", ok, pa, "delay-keys-normalised", "string and numeric delay keys go through one int() normalisation" if ok else
         "delay keys are no longer normalised with int(): '500' and 500 would be different timers", pa.node)
    pi = sn.methods["_parse_initial"]
    # as a fact: some '<list>[0]' is produced under the guard 'len(<list>) == 1' (whatever the list and the count are called)
    from sa.util import canon_atom as _ca18, expand_names as _en18
    ok = False
    for x in own_nodes(pi.node):
        if isinstance(x, ast.Subscript) and isinstance(x.slice, ast.Constant) and x.slice.value == 0 and isinstance(x.ctx, ast.Load):
            lst = norm(_en18(pi, x.value))
            for a_, pol_ in guards_at(pi, x):
                t_ = _ca18(_en18(pi, a_), pol_)
                if t_[0] == "==" and {t_[1], t_[2]} in ({f"len({lst})", "1"}, {f"len({norm(x.value)})", "1"}) and t_[3] is True:
                    ok = True
    c.ob("R4", ok, pi, "single-child-initial-inferred", "an omitted 'initial' with a single non-history child is inferred" if ok else
         "an omitted 'initial' with exactly one child is no longer inferred", pi.node)
    td = p.cls("TransitionDefinition").methods["__init__"]
    ok = any(_is_cfg_get(x) and const_str(x.args[0]) == "guard" and any(_is_cfg_get(y) and const_str(y.args[0]) == "cond" for y in x.args[1:]) for x in own_nodes(td.node))
    c.ob("R4", ok, td, "cond-alias", "'cond' is the fallback of 'guard'" if ok else "'cond' is no longer read as an alias of 'guard'", td.node)
    nt = sn.methods["_normalize_transitions"]
    shapes = {norm(x.args[1]) for x in own_nodes(nt.node) if isinstance(x, ast.Call) and norm(x.func) == "isinstance" and norm(x.args[0]) == nt.params[0]}
    ok = {"str", "dict", "list"} <= shapes
    c.ob("R4", ok, nt, "transition-spellings", "string, object and list transition spellings are all normalised" if ok else
         f"_normalize_transitions handles only {sorted(shapes)}", nt.node)


_run_before_r11 = run


def run(ctx):
    _run_before_r11(ctx)
    # ---- R11 elements of a raw config container are used with a required shape only behind a shape test ----------------------------
    # (R3 covers the value read off the config; this covers what iterating that value yields: the child states of 'states', the entries
    #  of 'on' ... - a JSON value of the wrong type there must not surface as a raw AttributeError from '<element>.get')
    from sa.util import expr_level_guards
    c, p = ctx.c, ctx.p
    n = 0
    for f in p.funcs_in("models", "factory"):
        raw_locals = set()
        for a in own_nodes(f.node):
            if isinstance(a, (ast.Assign, ast.AnnAssign)) and getattr(a, "value", None) is not None and any(_is_cfg_get(y) for y in ast.walk(a.value)):
                t = a.targets[0] if isinstance(a, ast.Assign) else a.target
                if isinstance(t, ast.Name) and not any(isinstance(y, ast.Call) and norm(y.func).endswith(("_ensure_list", "_normalize_transitions")) for y in ast.walk(a.value)):
                    raw_locals.add(t.id)
        if not raw_locals:
            continue
        for x in own_nodes(f.node):
            if not isinstance(x, (ast.For, ast.comprehension)):
                continue
            it = x.iter
            via = None
            base = it
            if isinstance(it, ast.Call) and isinstance(it.func, ast.Attribute) and it.func.attr in ("items", "values") and not it.args:
                via, base = it.func.attr, it.func.value
            if not (isinstance(base, ast.Name) and base.id in raw_locals):
                continue
            tgt = x.target
            if via == "items":
                if not (isinstance(tgt, ast.Tuple) and len(tgt.elts) == 2 and isinstance(tgt.elts[1], ast.Name)):
                    continue
                elem = tgt.elts[1].id
            elif isinstance(tgt, ast.Name) and via == "values":
                elem = tgt.id
            else:
                continue        # iterating a mapping yields its keys (strings)
            if isinstance(x, ast.For):
                scope = list(x.body)
            else:
                owner = next((y for y in own_nodes(f.node) if isinstance(y, (ast.ListComp, ast.SetComp, ast.DictComp, ast.GeneratorExp)) and x in y.generators), None)
                scope = ([owner.elt] if hasattr(owner, "elt") else [owner.key, owner.value]) + list(x.ifs) if owner is not None else list(x.ifs)
            for s_ in scope:
                for y in ast.walk(s_):
                    if isinstance(y, ast.Attribute) and isinstance(y.value, ast.Name) and y.value.id == elem and y.attr in SHAPE_ATTRS and isinstance(y.ctx, ast.Load):
                        n += 1
                        atoms = list(guards_at(f, y)) + list(expr_level_guards(f, y))
                        ok = _in_converting_try(f, y) or any(isinstance(a_, ast.Call) and norm(a_.func) == "isinstance" and a_.args and norm(a_.args[0]) == elem and pol for a_, pol in atoms)
                        c.ob("R11", ok, f, f"raw-element:{base.id}:{elem}.{y.attr}",
                             f"an element of {base.id} is used as a mapping only behind an isinstance test" if ok else
                             f"'{elem}.{y.attr}' is applied to an element of the raw config value '{base.id}' without an isinstance guard or a converting try: "
                             f"a child of the wrong JSON type (a string, a number, null) surfaces as a raw AttributeError instead of InvalidConfigError", y)
    c.ob("R11", True, "models + factory", "raw-elements", f"{n} shape-dependent uses of elements of raw config containers", None, nontrivial=False)
