"""Rule implementations shared by several properties.

Every function takes ``ctx`` (program, resolver, check) and the rule id under
which its obligations are recorded, so the same structural rule can serve two
properties (e.g. the history-emptiness rule is C01.R2b and C11.R2).
"""
from __future__ import annotations

import ast
from typing import Dict, Iterable, List, Optional, Set, Tuple

from sa.cfg import cfg_of, split_atoms
from sa.effects import attr_writes, Write
from sa.program import AnalysisError, FuncInfo, dotted, norm, own_nodes, const_str
from sa.util import (ancestors, assignments_to, atom_is_type_test, calls_in, cfg_node_of,
                     compare_parts, derives_from, enclosing_loops, enclosing_stmt,
                     enclosing_try_bodies, guards_at, in_handler, in_finally, is_empty_list,
                     names_in, parents, provenance, self_calls_in, stmt_text)
from .roles import CONFIG_ATTR, ENGINE_MODULES, VIEWS, roles, view_funcs


# ---------------------------------------------------------------------------
# F1: sole writers of the configuration set
# ---------------------------------------------------------------------------
def config_writers(ctx, rid: str) -> None:
    c = ctx.c
    p = ctx.p
    allowed_roles: Dict[str, Tuple[str, Set[str]]] = {}
    for v in VIEWS:
        r = roles(ctx, v)
        allowed_roles[r.enter.qualname] = ("entry", {"call:add"})
        allowed_roles[r.exit.qualname] = ("exit", {"call:discard", "call:remove"})
        allowed_roles[r.executor.qualname] = ("rollback", {"call:clear", "call:update"})
    init = p.method("BaseInterpreter", "__init__")
    allowed_roles[init.qualname] = ("init", {"assign"})
    fs = p.method("BaseInterpreter", "from_snapshot")
    allowed_roles[fs.qualname] = ("restore", {"call:clear", "call:add"})
    tr = p.func("helpers:transition")
    allowed_roles[tr.qualname] = ("pure-restore", {"call:clear", "call:add", "call:update"})

    writes: List[Write] = []
    for f in p.all_funcs:
        for w in attr_writes(f):
            if w.attr == CONFIG_ATTR:
                writes.append(w)
    c.floor(rid, "writes of the configuration set", len(writes), 8)
    res = ctx.r
    for w in writes:
        f = w.func
        role = allowed_roles.get(f.qualname)
        construct = f"{w.op}@{w.base}"
        if role is None:
            # helper extracted from a role function: all its callers must be that role
            callers = set()
            for v in VIEWS:
                for s in res.callers_of(f, v):
                    callers.add(s.func.qualname)
            caller_roles = {allowed_roles[q][0] for q in callers if q in allowed_roles}
            if callers and all(q in allowed_roles for q in callers) and len(caller_roles) == 1 and \
                    all(w.op in allowed_roles[q][1] for q in callers):
                c.ob(rid, True, f, construct, f"writer is a private helper called only from the {caller_roles.pop()} role", w.node)
                continue
            c.ob(rid, False, f, construct,
                 f"'{stmt_text(w.node)}' writes the configuration set outside the entry/exit/rollback/restore roles "
                 f"(sole-writer rule: only _enter_states adds, only _exit_states discards)", w.node)
            continue
        rname, ops = role
        ok = w.op in ops
        msg = f"{rname} role performs {w.op}"
        if ok and rname == "rollback":
            # must sit in an except handler, restoring a copy taken before the try
            h = in_handler(f, w.node)
            ok = h is not None
            msg = "rollback write inside the executor's except handler"
            if ok and w.op == "call:update":
                arg = w.node.args[0] if w.node.args else None
                ok2 = False
                if isinstance(arg, ast.Name):
                    for a in assignments_to(f, arg.id):
                        val = getattr(a, "value", None)
                        if isinstance(val, ast.Call) and isinstance(val.func, ast.Attribute) and val.func.attr == "copy" \
                                and isinstance(val.func.value, ast.Attribute) and val.func.value.attr == CONFIG_ATTR:
                            # taken before the try that owns the handler
                            tries = [t for t in ancestors(f, h) if isinstance(t, ast.Try)]
                            g = cfg_of(f.node)
                            an = g.nodes_of(a)
                            body_first = g.nodes_of(tries[0].body[0]) if tries else []
                            if an and body_first and all(g.always_before(an, b) for b in body_first):
                                ok2 = True
                ok = ok2
                msg = "rollback restores from a .copy() of the configuration taken before the try" if ok else \
                    "rollback update() argument is not a pre-transition .copy() of the configuration"
            if not ok and h is None:
                msg = f"'{stmt_text(w.node)}' in the executor outside its rollback handler"
        elif not ok:
            msg = f"'{stmt_text(w.node)}': the {rname} role may only perform {sorted(ops)} on the configuration set"
        c.ob(rid, ok, f, construct, msg, w.node)


# ---------------------------------------------------------------------------
# history pseudo-states never entered; history transition enters something
# ---------------------------------------------------------------------------
def history_path_killed(ctx, rid: str) -> None:
    """(a) In each executor the raw path to the target that reaches
    ``_enter_states`` is emptied on the branch where the target is a history
    pseudo-state (or that call is guarded by 'not history')."""
    c = ctx.c
    for v in VIEWS:
        ex = roles(ctx, v).executor
        g = cfg_of(ex.node)
        calls = self_calls_in(ex, "_enter_states")
        c.expect(rid, f"_enter_states calls in {ex.short}", len(calls), 2, ex, f"{ex.short} no longer has both entry calls (the plain target path and the combined history path): one kind of target is never entered")
        n_raw = 0
        for call in calls:
            if not call.args:
                continue
            arg = call.args[0]
            if not isinstance(arg, ast.Name):
                continue
            # is the argument the *raw* path to the target? (assigned from _get_path_to_state(target...))
            raw_assigns = [a for a in assignments_to(ex, arg.id)
                           if isinstance(getattr(a, "value", None), ast.Call) and
                           isinstance(a.value.func, ast.Attribute) and a.value.func.attr == "_get_path_to_state" and
                           not enclosing_loops(ex, a)]
            if not raw_assigns:
                continue
            n_raw += 1
            atoms = guards_at(ex, call)
            if any(atom_is_type_test(a, "history") is False for a in atoms):
                c.ob(rid, True, ex, f"enter({arg.id})", "entry of the raw target path is guarded by 'target is not history'", call)
                continue
            kills = []
            for a in assignments_to(ex, arg.id):
                if isinstance(a, ast.Assign) and is_empty_list(a.value):
                    at = guards_at(ex, a)
                    if any(atom_is_type_test(x, "history") is True for x in at):
                        kills.append(a)
            ok = False
            if kills:
                # the kill must be the last assignment before the call on history paths:
                kn = [n for k in kills for n in g.nodes_of(k)]
                others = [n for a in assignments_to(ex, arg.id) if a not in kills for n in g.nodes_of(a)]
                cn = cfg_node_of(ex, call)
                ok = all(not g.can_reach(k, o) or not any(g.can_reach(o, x) for x in cn) for k in kn for o in others) \
                    and any(g.can_reach(k, x) for k in kn for x in cn)
            c.ob(rid, ok, ex, f"enter({arg.id})",
                 "raw path to a history target is emptied before _enter_states" if ok else
                 f"the path to the target reaches _enter_states({arg.id}) unchanged when the target is a history "
                 f"pseudo-state: the pseudo-state itself would be added to the configuration", call)
        c.expect(rid, f"raw-path entry calls in {ex.short}", n_raw, 1, ex, f"{ex.short} no longer enters the path computed for an ordinary target")


def _emptiness(f: FuncInfo, e: ast.AST, at: ast.AST) -> str:
    """Three-value emptiness of a list-valued expression at program point *at*."""
    if is_empty_list(e):
        return "empty"
    if isinstance(e, ast.List) and e.elts:
        return "nonempty"
    if isinstance(e, ast.BoolOp) and isinstance(e.op, ast.Or):
        vals = [_emptiness(f, v, at) for v in e.values]
        if "nonempty" in vals:
            return "nonempty"
        if all(v == "empty" for v in vals):
            return "empty"
        return "unknown"
    if isinstance(e, ast.Name):
        atoms = guards_at(f, at)
        for a, pol in atoms:
            if isinstance(a, ast.Name) and a.id == e.id:
                return "nonempty" if pol else "empty"
        return "unknown"
    return "unknown"


def history_target_nonempty(ctx, rid: str) -> None:
    """(b) ``_resolve_history_target`` has no return that is definitely empty
    (or of unknown emptiness) except under 'the history node has no parent'."""
    c = ctx.c
    f = ctx.p.method("BaseInterpreter", "_resolve_history_target")
    for v in VIEWS:
        if ctx.p.method(v, "_resolve_history_target").qualname != f.qualname:
            raise AnalysisError("an engine overrides _resolve_history_target; rule must be re-derived")
    rets = [n for n in own_nodes(f.node) if isinstance(n, ast.Return)]
    c.floor(rid, "return statements of _resolve_history_target", len(rets), 4)
    hist_param = f.params[1] if len(f.params) > 1 else "history_node"
    for r in sorted(rets, key=lambda n: n.lineno):
        if r.value is None:
            c.ob(rid, False, f, "return-none", "bare return from the history resolver", r)
            continue
        em = _emptiness(f, r.value, r)
        atoms = guards_at(f, r)
        under_no_parent = False
        for a, pol in atoms:
            cp = compare_parts(a)
            if cp and isinstance(cp[1], ast.Is) and isinstance(cp[2], ast.Constant) and cp[2].value is None and pol:
                if derives_from(f, cp[0], {hist_param}) and ("parent" in norm(cp[0]) or any(
                        "parent" in norm(getattr(x, "value", x)) for x in assignments_to(f, norm(cp[0])))):
                    under_no_parent = True
        # which branch are we in: remembered or not (for a stable construct key)
        branch = "visited"
        for a, pol in atoms:
            if isinstance(a, ast.Name) and not pol:
                branch = "unvisited"
        if under_no_parent:
            c.ob(rid, True, f, "return@no-parent", "empty result only for a parentless history node", r)
        elif em == "nonempty":
            c.ob(rid, True, f, f"return-nonempty@{branch}", f"'{stmt_text(r)}' is non-empty on every path", r)
        else:
            c.ob(rid, False, f, f"return-{em}@{branch}",
                 f"'{stmt_text(r)}' may return an empty target list for a history node that has a parent: the "
                 f"transition exits the domain and enters nothing (leafless configuration)", r)


def descent_filters_history(ctx, rid: str, kinds: Optional[Set[str]] = None) -> None:
    """(c) every default descent in the entry routines excludes history children."""
    c = ctx.c
    for v in VIEWS:
        en = roles(ctx, v).enter
        calls = self_calls_in(en, "_enter_states")
        c.expect(rid, f"descent calls in {en.short}", len(calls), 2, en, f"{en.short} no longer descends both into the initial child of a compound state and into the regions of a parallel state: an entered composite state is left without an active leaf")
        for call in calls:
            arg = call.args[0] if call.args else None
            if arg is None:
                continue
            kind, ok, why = _descent_history_filter(en, arg, call)
            if kinds is not None and kind not in kinds:
                continue
            c.ob(rid, ok, en, f"descent:{kind}", why, call)


def _descent_history_filter(en: FuncInfo, arg: ast.AST, call: ast.Call) -> Tuple[str, bool, str]:
    # resolve a Name to its (single) defining expression
    expr = arg
    if isinstance(arg, ast.Name):
        defs = [a for a in assignments_to(en, arg.id) if isinstance(a, ast.Assign)]
        if len(defs) == 1:
            expr = defs[0].value
    if isinstance(expr, (ast.ListComp, ast.GeneratorExp)):
        conds = [cnd for gen in expr.generators for cnd in gen.ifs]
        atoms = []
        for cnd in conds:
            atoms.extend(split_atoms(cnd, True))
        ok = any(atom_is_type_test(a, "history") is False for a in atoms)
        return ("regions", ok,
                "region list excludes history children" if ok else
                f"region descent '{stmt_text(expr)}' does not exclude history pseudo-states: one would become active")
    if isinstance(expr, ast.List) and len(expr.elts) == 1:
        atoms = guards_at(en, call)
        elt = expr.elts[0]
        ok = False
        for a in atoms:
            t = atom_is_type_test(a, "history")
            if t is False and isinstance(elt, ast.Name) and elt.id in names_in(a[0]):
                ok = True
        return ("initial", ok,
                "initial-child descent is guarded against a history child" if ok else
                f"default descent into '{norm(elt)}' (the declared 'initial' child) has no 'type != history' guard: "
                f"a compound state whose initial names a history child activates the pseudo-state")
    return ("other", False, f"descent argument '{stmt_text(arg)}' has an unrecognised shape; cannot show history children are excluded")


def _index_kind(en: FuncInfo, e: ast.AST, path_param: str) -> str:
    """What the members of an index built from the entry path are: 'node-ids' ({s.id for s in path}),
    'parent-ids' ({s.parent.id: s ...} / {s.parent.id for s in path}), 'nodes', or '?'."""
    exprs = [e]
    if isinstance(e, ast.Name):
        exprs = [a.value for a in assignments_to(en, e.id) if getattr(a, "value", None) is not None]
    for x in exprs:
        if isinstance(x, (ast.SetComp, ast.DictComp, ast.ListComp, ast.GeneratorExp)) and x.generators and path_param in norm(x.generators[0].iter):
            var = norm(x.generators[0].target)
            key = x.key if isinstance(x, ast.DictComp) else x.elt
            t = norm(key)
            if t == f"{var}.id":
                return "node-ids"
            if t == f"{var}.parent.id":
                return "parent-ids"
            if t == var:
                return "nodes"
    return "?"


def explicit_child_skip(ctx, rid: str) -> None:
    """R3: the default 'initial' descent is dominated by the negated explicit-child
    test; the region list excludes ids named by the path."""
    c = ctx.c
    for v in VIEWS:
        en = roles(ctx, v).enter
        param0 = en.params[1]
        # the index a membership test consults must hold what the test asks about: "is this child on the path" needs the ids
        # of the path's nodes, "does this state have a child on the path" the ids of the path nodes' parents
        for x in own_nodes(en.node):
            cp = compare_parts(x) if isinstance(x, ast.Compare) else None
            if not cp or not isinstance(cp[1], (ast.In, ast.NotIn)) or not derives_from(en, cp[2], {param0}):
                continue
            kind = _index_kind(en, cp[2], param0)
            item = norm(cp[0])
            if kind == "?" or not item.endswith(".id"):
                continue
            iv = item[:-3]
            over_children = any(isinstance(g_, ast.comprehension) and norm(g_.target) == iv and ".states" in norm(g_.iter) for g_ in ast.walk(en.node) if isinstance(g_, ast.comprehension)) or \
                any(isinstance(l, ast.For) and norm(l.target) == iv and ".states" in norm(l.iter) for l in own_nodes(en.node))
            over_path = any(isinstance(l, ast.For) and norm(l.target) == iv and norm(l.iter) == param0 for l in own_nodes(en.node))
            want = "node-ids" if over_children else ("parent-ids" if over_path else None)
            if want is None:
                continue
            c.ob(rid, kind == want, en, f"explicit-index-kind:{item} in {norm(cp[2])[:24]}",
                 f"'{item}' is looked up in an index of {kind}" if kind == want else
                 f"'{norm(x)}' looks a {'child' if over_children else 'state being entered'} up in an index whose members are {kind} (it needs {want}): "
                 + ("a region that is itself the last element of the entry path is not recognised as explicit, is entered by the default descent and then "
                    "entered again from the path (entry actions twice, no exit)" if over_children else
                    "the default initial child is entered next to the child named by the path"), x)
        calls = self_calls_in(en, "_enter_states")
        for call in calls:
            arg = call.args[0] if call.args else None
            expr = arg
            if isinstance(arg, ast.Name):
                defs = [a for a in assignments_to(en, arg.id) if isinstance(a, ast.Assign)]
                if len(defs) == 1:
                    expr = defs[0].value
            if isinstance(expr, (ast.ListComp, ast.GeneratorExp)):
                ok = False
                for gen in expr.generators:
                    for cnd in gen.ifs:
                        for a, pol in split_atoms(cnd, True):
                            cp = compare_parts(a)
                            if cp and ((isinstance(cp[1], ast.NotIn) and pol) or (isinstance(cp[1], ast.In) and not pol)):
                                if derives_from(en, cp[2], {param0}):
                                    ok = True
                c.ob(rid, ok, en, "regions-exclude-explicit",
                     "region descent skips regions named by the entry path" if ok else
                     "parallel region descent does not exclude regions already named by the entry path "
                     "(two leaves in one region)", call)
            elif isinstance(expr, ast.List):
                ok = False
                for a, pol in guards_at(en, call):
                    cp = compare_parts(a)
                    if cp and ((isinstance(cp[1], ast.In) and not pol) or (isinstance(cp[1], ast.NotIn) and pol)):
                        if derives_from(en, cp[2], {param0}):
                            ok = True
                c.ob(rid, ok, en, "initial-skipped-when-explicit",
                     "default initial descent is dominated by 'no explicit child on the path'" if ok else
                     "default initial descent is not dominated by the explicit-child test: a named path would "
                     "also enter the default child (two active children of one compound state)", call)


def single_history_entry(ctx, rid: str) -> None:
    """R4: the executor's entry calls are not inside any loop."""
    c = ctx.c
    for v in VIEWS:
        ex = roles(ctx, v).executor
        for call in self_calls_in(ex, "_enter_states"):
            loops = [l for l in enclosing_loops(ex, call)]
            c.ob(rid, not loops, ex, f"enter({norm(call.args[0]) if call.args else ''})",
                 "entry call executed once per transition" if not loops else
                 "an _enter_states call sits inside a loop in the executor: remembered history nodes would be "
                 "entered by separate calls, each re-running the default descent of shared ancestors", call)


# ---------------------------------------------------------------------------
# flag-held / consumer analysis (C01.R5, C04.R4)
# ---------------------------------------------------------------------------
def _flag_state(f: FuncInfo, flag: str) -> Dict[int, bool]:
    """Forward must-analysis: node -> True if ``self.<flag>`` is definitely True
    when the node starts executing."""
    g = cfg_of(f.node)
    live = g.live_nodes()
    IN: Dict[int, Optional[bool]] = {n: None for n in live}   # None = unvisited (top)
    IN[g.entry] = False

    def transfer(nid: int, val: bool) -> bool:
        n = g.nodes[nid]
        if n.kind == "stmt" and isinstance(n.ast, ast.Assign):
            for t in n.ast.targets:
                if isinstance(t, ast.Attribute) and t.attr == flag and dotted(t.value) == "self":
                    if isinstance(n.ast.value, ast.Constant):
                        return bool(n.ast.value.value)
                    return False
        return val
    changed = True
    while changed:
        changed = False
        for nid in sorted(live):
            if IN[nid] is None:
                continue
            out = transfer(nid, IN[nid])
            for d, lab in g.succ[nid]:
                if d not in live:
                    continue
                # an exception edge leaves *before* the statement's effect is certain
                val = out if not (lab or "").startswith("exc") else (out and IN[nid])
                new = val if IN[d] is None else (IN[d] and val)
                if new != IN[d]:
                    IN[d] = new
                    changed = True
    return {n: bool(v) for n, v in IN.items()}


def macrostep_in_consumer(ctx, rid: str) -> None:
    """Processing entry points run only inside the consumer.

    sync: every call of a processing function from a non-processing function
    executes with ``_is_processing`` held (the flag treated as a lock).
    async: every such call is inside the run loop's closure, or happens before
    a consumer task exists."""
    c = ctx.c
    res = ctx.r
    # ---- sync
    r = roles(ctx, "SyncInterpreter")
    n_sites = 0
    for f in r.funcs:
        if r.is_processing(f) or f.is_async:      # async defs are dead code under the sync view
            continue
        held = None
        for s in res.callsites(f, "SyncInterpreter"):
            tgt = [t for t in s.targets if r.is_processing(t)]
            if not tgt or dotted(s.call.func.value if isinstance(s.call.func, ast.Attribute) else s.call.func) != "self":
                continue
            n_sites += 1
            if held is None:
                held = _flag_state(f, r.flag)
            ids = cfg_node_of(f, s.call)
            ok = bool(ids) and all(held.get(i, False) for i in ids)
            c.ob(rid, ok, f, f"call:{tgt[0].name}",
                 f"{tgt[0].name}() runs with the re-entrancy flag held" if ok else
                 f"{tgt[0].name}() is called with {r.flag} released: an action that raises/sends during it is "
                 f"processed re-entrantly, inside the unfinished macrostep", s.call)
    c.floor(rid, "sync processing call sites outside processing functions", n_sites, 2)
    # ---- async
    r = roles(ctx, "Interpreter")
    # consumer region: the drain loop plus helpers whose every caller is in the region
    consumer = {r.drain.qualname}
    grew = True
    while grew:
        grew = False
        for f in r.funcs:
            if f.qualname in consumer or r.is_processing(f):
                continue
            callers = {s.func.qualname for s in res.callers_of(f, "Interpreter", r.funcs)}
            if callers and callers <= consumer:
                consumer.add(f.qualname)
                grew = True
    n_sites = 0
    for f in r.funcs:
        if r.is_processing(f) or f.qualname in consumer:
            continue
        g = cfg_of(f.node)
        for s in res.callsites(f, "Interpreter"):
            tgt = [t for t in s.targets if r.is_processing(t)]
            if not tgt or not isinstance(s.call.func, ast.Attribute) or dotted(s.call.func.value) != "self":
                continue
            n_sites += 1
            # consumer creation sites in this function
            creators = []
            for n in own_nodes(f.node):
                if isinstance(n, ast.Call) and isinstance(n.func, ast.Attribute) and n.func.attr in ("create_task", "ensure_future"):
                    if any(isinstance(x, ast.Call) and isinstance(x.func, ast.Attribute) and x.func.attr == r.drain.name
                           for a in n.args for x in ast.walk(a)):
                        creators.extend(cfg_node_of(f, n))
            ids = cfg_node_of(f, s.call)
            after_creation = any(g.can_reach(cn, i) for cn in creators for i in ids)
            c.ob(rid, not after_creation, f, f"call:{tgt[0].name}",
                 f"{tgt[0].name}() runs before any consumer task exists" if not after_creation else
                 f"{tgt[0].name}() is awaited after create_task({r.drain.name}()) on the same path: the consumer "
                 f"can dequeue and run a second macrostep at any await inside it (two interleaved macrosteps)", s.call)
    c.floor(rid, "async processing call sites outside the consumer", n_sites, 1)


def snapshot_ancestor_closure(ctx, rid: str) -> None:
    """R7: every add in from_snapshot is followed, within the same iteration, by
    the parent walk that adds each ancestor."""
    c = ctx.c
    f = ctx.p.method("BaseInterpreter", "from_snapshot")
    g = cfg_of(f.node)
    adds = [w for w in attr_writes(f) if w.attr == CONFIG_ATTR and w.op == "call:add"]
    if not c.expect(rid, "configuration adds in from_snapshot", len(adds), 1, f, "from_snapshot no longer re-activates the persisted states"):
        return
    # locate the ancestor walk: a while loop whose body re-binds its variable to .parent and adds it
    walks = []
    for n in own_nodes(f.node):
        if isinstance(n, ast.While):
            vars_ = names_in(n.test)
            rebinding = [s for s in n.body if isinstance(s, ast.Assign) and isinstance(s.value, ast.Attribute)
                         and s.value.attr == "parent" and isinstance(s.targets[0], ast.Name) and s.targets[0].id in vars_]
            adding = [w for w in adds if any(w.node is x for s in n.body for x in ast.walk(s))]
            if rebinding and adding:
                walks.append((n, adding))
    if not walks:
        for w in adds:
            c.ob(rid, False, f, "add(node)->parent-walk",
                 "from_snapshot adds the persisted states but has no parent walk that adds their ancestors: a snapshot listing only "
                 "leaf ids restores a configuration whose ancestors are inactive", w.node)
        return
    walk, walk_adds = walks[0]
    wt = g.nodes_of(walk.test)
    for w in adds:
        if w in walk_adds:
            c.ob(rid, True, f, "add(ancestor)", "ancestor added inside the parent walk", w.node)
            continue
        loops = [l for l in enclosing_loops(f, w.node) if isinstance(l, ast.For)]
        exits = {g.exit, g.raise_exit}
        for l in loops[:1]:
            exits |= set(g.nodes_of(l))
        ids = cfg_node_of(f, w.node)
        ok = bool(ids) and all(g.always_after(i, wt, exits, follow_exc=False) for i in ids)
        c.ob(rid, ok, f, "add(node)->parent-walk",
             "restored node's ancestors are added before the next node" if ok else
             "a restored state is added without closing the configuration under its ancestors", w.node)


# ---------------------------------------------------------------------------
# F5: set-order taint
# ---------------------------------------------------------------------------
# Accepted order-sensitive consumers: one named symbol each, with the reason.
SETORDER_ACCEPTED = {
    ("BaseInterpreter._is_state_done", "next"):
        "unique pick: an active compound state has exactly one active child (that is C01's claim); "
        "the generator filters on parent == state_node",
    ("BaseInterpreter._find_transition_domain", "max-key"):
        "the set is an intersection of two ancestor chains, i.e. a chain: depths are pairwise distinct, no ties",
    ("BaseInterpreter._record_history", "for-effects"):
        "iterates candidate owners; each iteration writes only its own key self._history[state.id]; "
        "distinct keys commute (JSON object key order is not an observable)",
}


def set_order(ctx, rid: str, modules: Iterable[str], only_funcs: Optional[Set[str]] = None,
              floor: int = 1, accepted: Optional[dict] = None) -> None:
    from sa.setorder import SetOrder
    c = ctx.c
    acc = dict(SETORDER_ACCEPTED)
    if accepted:
        acc.update(accepted)
    so = SetOrder(ctx.p)
    examined_total = 0
    for f in ctx.p.funcs_in(*modules):
        if only_funcs is not None and f.short not in only_funcs:
            continue
        cons, examined = so.sensitive_consumers(f)
        examined_total += examined
        if examined:
            c.consult(f)
        seen_kinds = set()
        for k in cons:
            key = (f.short, k.kind)
            construct = f"{k.kind}:{_short_src(k.source)}"
            if key in acc:
                c.ob(rid, True, f, construct, f"accepted order-sensitive consumer: {acc[key]}", k.node)
                continue
            c.ob(rid, False, f, construct,
                 f"order taken from iterating a set of objects hashed by address: '{k.source}' -> {k.detail}", k.node)
        if examined and not cons:
            c.ob(rid, True, f, "all-consumers-insensitive",
                 f"{examined} consumer(s) of unordered values, all order-insensitive or totally sorted", f.node)
    c.floor(rid, "consumers of unordered (set-derived) values", examined_total, floor)


def _short_src(s: str) -> str:
    s = s.replace("self.", "")
    return s if len(s) < 48 else s[:45] + "..."


# ---------------------------------------------------------------------------
# iteration-precise ordering helper
# ---------------------------------------------------------------------------
def before_within_iteration(g, header: int, A: Iterable[int], b: int) -> bool:
    """Within one iteration of the loop headed by *header*: every path from the
    loop edge to b passes a node of A (without going round the loop)."""
    A = set(A)
    if b in A:
        return True
    starts = [d for d, lab in g.succ[header] if lab in ("loop", "T")]
    r = g.reachable(starts, blocked_nodes=A | {header}, follow_exc=False)
    return b not in r


def normalised_body(f: FuncInfo) -> str:
    """Body text with docstring, logging, await/async stripped (for override comparison)."""
    import copy
    node = copy.deepcopy(f.node)

    class T(ast.NodeTransformer):
        def visit_Await(self, n):
            return self.visit(n.value)

        def visit_Expr(self, n):
            v = n.value
            if isinstance(v, ast.Constant) and isinstance(v.value, str):
                return None
            if isinstance(v, (ast.Call,)) and isinstance(v.func, ast.Attribute) and dotted(v.func.value) == "logger":
                return None
            if isinstance(v, ast.Await):
                n.value = self.visit(v.value)
                return n
            return self.generic_visit(n)
    node = T().visit(node)
    # bound names are not part of what the function does: parameters, locals and comprehension variables are numbered in order of
    # first appearance (two copies that differ only in the spelling of a variable are the same function)
    a = node.args
    names = {}
    for prm in a.posonlyargs + a.args + a.kwonlyargs + ([a.vararg] if a.vararg else []) + ([a.kwarg] if a.kwarg else []):
        if prm.arg not in ("self", "cls"):
            names.setdefault(prm.arg, f"_v{len(names)}")
    bound = {x.id for x in ast.walk(node) if isinstance(x, ast.Name) and isinstance(x.ctx, ast.Store)}
    for x in sorted((y for y in ast.walk(node) if isinstance(y, ast.Name) and y.id in bound), key=lambda y: (y.lineno, y.col_offset)):
        names.setdefault(x.id, f"_v{len(names)}")
    for x in ast.walk(node):
        if isinstance(x, ast.Name) and x.id in names:
            x.id = names[x.id]
        elif isinstance(x, ast.arg) and x.arg in names:
            x.arg = names[x.arg]
    body = node.body or [ast.Pass()]
    return "\n".join(ast.unparse(s) for s in body)


def unconditional_in_loop(g, header: int, A: Iterable[int]) -> bool:
    """Every complete iteration of the loop headed by *header* passes a node of A."""
    A = set(A)
    starts = [d for d, lab in g.succ[header] if lab in ("loop", "T")]
    r = g.reachable(starts, blocked_nodes=A, follow_exc=False)
    return header not in r


# ---------------------------------------------------------------------------
# cancel-before-exit-actions (C03.R3 / C08.R1)
# ---------------------------------------------------------------------------
def cancel_before_exit_actions(ctx, rid: str) -> None:
    c = ctx.c
    for v in VIEWS:
        r = roles(ctx, v)
        xt = r.exit
        g = cfg_of(xt.node)
        cancel_calls = self_calls_in(xt, "_cancel_state_tasks")
        cancels = [n for call in cancel_calls for n in cfg_node_of(xt, call)]
        xacts = [call for call in self_calls_in(xt, "_execute_actions")
                 if call.args and isinstance(call.args[0], ast.Attribute) and call.args[0].attr == "exit"]
        c.expect(rid, f"task cancellation in {xt.short}", len(cancels), 1, xt, f"{xt.short} no longer cancels the timers and services of the states it leaves: a delayed transition fires after its state was left")
        for call in xacts:
            ids = cfg_node_of(xt, call)
            cl = [l for cc in cancel_calls for l in enclosing_loops(xt, cc) if isinstance(l, ast.For)]
            al = [l for l in enclosing_loops(xt, call) if isinstance(l, ast.For)]
            same = bool(cl) and bool(al) and norm(cl[0].iter) == norm(al[0].iter)
            if cl and al and cl[0] is al[0]:
                hdr0 = g.nodes_of(al[0])[0]
                ok1 = all(before_within_iteration(g, hdr0, cancels, n) for n in ids)
            elif cl and al:
                chdr = g.nodes_of(cl[0])[0]
                ok1 = all(g.always_before([chdr], n, follow_exc=False) for n in ids) and \
                    not any(g.can_reach(n, chdr, follow_exc=False) for n in ids) and \
                    unconditional_in_loop(g, chdr, cancels)
            else:
                ok1 = False
            c.ob(rid, ok1 and same, xt, "cancel<exit-actions",
                 "a state's timers/services are cancelled before its exit actions run" if ok1 and same else
                 "exit actions can run while the state's timers/services are still armed (a timer could fire for a state being left)", call)


def thread_targets(ctx, view: str) -> List[FuncInfo]:
    out = []
    for f in roles(ctx, view).funcs:
        for n in own_nodes(f.node):
            if isinstance(n, ast.Call) and dotted(n.func) in ("threading.Thread", "Thread"):
                tgt = next((k.value for k in n.keywords if k.arg == "target"), None)
                if isinstance(tgt, ast.Name) and tgt.id in f.nested:
                    out.append(f.nested[tgt.id])
    return out


def registry_hygiene(ctx, rid: str) -> None:
    """stop() removes the systemId registry entries this interpreter created."""
    c = ctx.c
    for v in VIEWS:
        r = roles(ctx, v)
        clo = ctx.r.self_closure([r.stop], v)
        removes = []
        for f in clo.values():
            for n in own_nodes(f.node):
                # del registry[k] / registry.pop(k) / self._system.clear() ... on the registry
                if isinstance(n, ast.Delete):
                    for t in n.targets:
                        if isinstance(t, ast.Subscript) and _is_registry_expr(f, t.value):
                            removes.append(n)
                elif isinstance(n, ast.Call) and isinstance(n.func, ast.Attribute) and n.func.attr in ("pop", "clear", "popitem") \
                        and _is_registry_expr(f, n.func.value):
                    removes.append(n)
        registers = [s for f in r.funcs for s in ctx.r.callsites(f, v) if s.callee_text.endswith("_register_in_system")]
        c.floor(rid, f"registry registrations ({v})", len(registers), 1)
        # a removal must be conditional on the entry still being this interpreter (systemIds can be re-used:
        # a later actor replaces an earlier one under the same name)
        for f in clo.values():
            for n in own_nodes(f.node):
                if n in removes:
                    owned = any((cp := compare_parts(a)) is not None and isinstance(cp[1], ast.Is) and pol and "self" in (norm(cp[0]), norm(cp[2]))
                                for a, pol in guards_at(f, n))
                    c.ob(rid, owned, f, f"{v}:registry-removal-checks-owner",
                         "a registry entry is removed only if it still refers to this interpreter" if owned else
                         f"'{stmt_text(n)}' removes a systemId entry without checking that it still refers to this interpreter: after the id was "
                         f"re-used by a newer actor, stopping the older one unregisters the live one", n)
        ok = bool(removes)
        c.ob(rid, ok, r.stop, "stop-cleans-registry",
             "stop() removes this interpreter's systemId registrations" if ok else
             f"{r.stop.short} (and everything it calls on itself) never removes entries from the actor-system registry, although "
             f"{len(registers)} site(s) register children there: stopped actors stay addressable by systemId", r.stop.node)


def _is_registry_expr(f: FuncInfo, e: ast.AST) -> bool:
    t = norm(e)
    if "_system" in t and "registry" not in t and "_system_registry" not in t:
        return t.endswith("_system")
    if isinstance(e, ast.Name):
        for a in assignments_to(f, e.id):
            v = getattr(a, "value", None)
            if v is not None and "_system_registry" in norm(v):
                return True
    if isinstance(e, ast.Call) and "_system_registry" in norm(e.func):
        return True
    return False


def config_op_nodes(ctx, view: str, f: FuncInfo, ops: Set[str]) -> List[int]:
    """CFG nodes of *f* that perform one of *ops* on the configuration set, directly or through a
    private helper whose own body performs it (a wrapper counts as the operation)."""
    out: List[int] = []
    for w in attr_writes(f):
        if w.attr == CONFIG_ATTR and w.op in ops:
            out.extend(cfg_node_of(f, w.node))
    for s in ctx.r.callsites(f, view):
        if s.recv != "self":
            continue
        for t in s.targets:
            if t.qualname == f.qualname:
                continue
            if any(w.attr == CONFIG_ATTR and w.op in ops and w.base == "self" for w in attr_writes(t)):
                out.extend(cfg_node_of(f, s.call))
    return out


# ---------------------------------------------------------------------------
# dotted-id prefix / suffix tests carry the separator (C01 / C10)
# ---------------------------------------------------------------------------
def dotted_id_tests(ctx, rid: str) -> None:
    """State ids are dotted paths: 'x is under y' must be tested with the separator
    (``x.id.startswith(y.id + '.')``), otherwise sibling keys sharing a prefix (``sync`` / ``sync_index``,
    ``r1`` / ``r10``) are conflated.  Every startswith/endswith on a state id is inspected."""
    c = ctx.c
    n = 0
    for f in ctx.p.funcs_in("base_interpreter", "interpreter", "sync_interpreter", "models", "helpers"):
        for x in own_nodes(f.node):
            if not (isinstance(x, ast.Call) and isinstance(x.func, ast.Attribute) and x.func.attr in ("startswith", "endswith") and x.args):
                continue
            recv = x.func.value
            if not (isinstance(recv, ast.Attribute) and recv.attr == "id") and not (isinstance(recv, ast.Name) and recv.id in ("sid", "state_id")):
                continue
            arg = x.args[0]
            if isinstance(arg, ast.Constant):
                continue
            n += 1
            has_sep = False
            if isinstance(arg, ast.Name):
                from sa.util import expand_names as _en
                arg = _en(f, arg)          # a hoisted loop-invariant:  dotted = "." + t ... id.endswith(dotted)
            if isinstance(arg, ast.JoinedStr):
                first, last = arg.values[0], arg.values[-1]
                has_sep = (x.func.attr == "startswith" and isinstance(last, ast.Constant) and str(last.value).endswith(".")) or \
                          (x.func.attr == "endswith" and isinstance(first, ast.Constant) and str(first.value).startswith("."))
            elif isinstance(arg, ast.BinOp) and isinstance(arg.op, ast.Add):
                has_sep = (x.func.attr == "startswith" and const_str(arg.right) == ".") or (x.func.attr == "endswith" and const_str(arg.left) == ".")
            elif isinstance(arg, ast.Name):
                for a in assignments_to(f, arg.id):
                    v = getattr(a, "value", None)
                    if isinstance(v, ast.JoinedStr) and isinstance(v.values[-1], ast.Constant) and str(v.values[-1].value).endswith((".", "::")):
                        has_sep = True
            c.ob(rid, has_sep, f, f"id-{x.func.attr}-with-separator",
                 "state-id prefix/suffix test includes the '.' separator" if has_sep else
                 f"'{stmt_text(x)}' tests a dotted state id without the '.' separator: sibling states whose keys share a prefix "
                 f"(e.g. 'sync' and 'sync_index') are treated as ancestor and descendant", x)
    c.floor(rid, "prefix/suffix tests on state ids", n, 4)


# ---------------------------------------------------------------------------
# rollback re-arms exactly what the exit phase disarmed (C07.R4 / C08.R2)
# ---------------------------------------------------------------------------
def rollback_rearm(ctx, rid: str) -> None:
    c = ctx.c
    for v in VIEWS:
        r = roles(ctx, v)
        ex = r.executor
        handlers = [h for t in own_nodes(ex.node) if isinstance(t, ast.Try) for h in t.handlers
                    if any(isinstance(x, ast.Call) and isinstance(x.func, ast.Attribute) and x.func.attr == "_schedule_state_tasks" for s_ in h.body for x in ast.walk(s_))]
        if not handlers:
            c.ob(rid, False, ex, "rollback-rearm-set", f"{ex.short}: the rollback handler re-arms nothing: a rolled-back state never times out again", ex.node)
            continue
        h = handlers[0]
        for call in [x for x in self_calls_in(ex, "_schedule_state_tasks") if in_handler(ex, x) is h]:
            inside = []
            for a, pol in guards_at(ex, call):
                # atoms contributed inside the handler
                if any(anc is h for anc in ancestors(ex, getattr(a, "_origin", a))):
                    inside.append((a, pol))
            exit_set_membership = []
            other = []
            for a, pol in inside:
                cp = compare_parts(a)
                is_mem = False
                if cp and isinstance(cp[1], ast.In) and pol:
                    for asg in assignments_to(ex, norm(cp[2])):
                        if "_compute_states_to_exit" in norm(getattr(asg, "value", asg)):
                            is_mem = True
                (exit_set_membership if is_mem else other).append((a, pol))
            arg_ok = bool(call.args)
            ok = bool(exit_set_membership) and not other
            c.ob(rid, ok, ex, "rollback-rearm-set",
                 "rollback re-arms the states of the transition's exit set, no more and no fewer" if ok else
                 ("rollback re-arms under extra conditions " + str([norm(a)[:50] for a, _ in other]) + ": states whose timers/services the exit "
                  "phase had already cancelled (cancellation precedes the exit actions) but that are still in the configuration are skipped, "
                  "so a rolled-back state never times out again" if exit_set_membership else
                  "rollback does not re-arm by membership in the transition's exit set: the re-armed set differs from the set the exit phase disarmed"), call)
        # the exit phase must have disarmed *all* of the exit set before anything in it can fail; otherwise
        # re-arming the whole exit set arms the not-yet-cancelled states a second time
        xt = r.exit
        g = cfg_of(xt.node)
        cancel_calls = self_calls_in(xt, "_cancel_state_tasks")
        act_calls = [x for x in self_calls_in(xt, "_execute_actions")]
        cl = [l for cc in cancel_calls for l in enclosing_loops(xt, cc) if isinstance(l, ast.For)]
        al = [l for ac in act_calls for l in enclosing_loops(xt, ac) if isinstance(l, ast.For)]
        upfront = bool(cl) and bool(al) and cl[0] is not al[0]
        c.ob(rid, upfront, xt, "rollback-overarms-uncancelled",
             "every state of the exit set is disarmed before the first exit action can fail, so the re-armed set equals the disarmed set" if upfront else
             f"{xt.short} cancels each state's tasks just before that state's exit actions; when an exit action aborts the transition, the states "
             f"later in the exit order were never disarmed, yet rollback re-arms the whole exit set: their after-timers and services run twice",
             cancel_calls[0] if cancel_calls else xt.node)


def actor_removal_with_stop(ctx, rid: str) -> None:
    """A child leaves an ``_actors`` map only together with its stop.

    ``stop()`` reaches descendants through ``_actors`` only, so a child that is removed from the map without
    being stopped - in particular one that merely *finished* (status done / error) but still owns actors, timers
    or services of its own - is orphaned: no later ``stop()`` of an ancestor reaches what it created.  For every
    removal (``del X._actors[k]`` / ``X._actors.pop(k)`` / ``X._actors.clear()``) the same function must contain a
    ``.stop()`` call that executes whenever the removal does: not in a different ``except`` handler, and not under
    an additional guard that tests a ``status`` (such a guard skips terminal-but-unstopped children)."""
    c = ctx.c
    n = 0
    for f in ctx.p.funcs_in(*ENGINE_MODULES):
        removes = []
        for x in own_nodes(f.node):
            if isinstance(x, ast.Delete):
                if any(isinstance(t, ast.Subscript) and norm(t.value).endswith("._actors") for t in x.targets):
                    removes.append(x)
            elif isinstance(x, ast.Call) and isinstance(x.func, ast.Attribute) and x.func.attr in ("pop", "clear", "popitem") \
                    and norm(x.func.value).endswith("._actors"):
                removes.append(x)
        if not removes:
            continue
        stops = [x for x in own_nodes(f.node) if isinstance(x, ast.Call) and isinstance(x.func, ast.Attribute) and x.func.attr == "stop"]
        for i, rm in enumerate(removes):
            n += 1
            rg = {(norm(a), pol) for a, pol in guards_at(f, rm)}
            rh = in_handler(f, rm)
            ok, why = False, "the function contains no .stop() call at all"
            for s in stops:
                sh = in_handler(f, s)
                if sh is not None and sh is not rh:
                    if "status" not in why:
                        why = f"the only stop ('{stmt_text(s)}') sits in a different except handler"
                    continue
                extra = [(a, pol) for a, pol in ((norm(a), pol) for a, pol in guards_at(f, s)) if (a, pol) not in rg]
                st = [a for a, _ in extra if ".status" in a]
                if st:
                    why = f"the stop is additionally guarded by '{st[0]}': a child that finished on its own (done / error) is removed but not stopped"
                    continue
                ok = True
                break
            c.ob(rid, ok, f, f"actor-removal-with-stop#{i}",
                 "the removed child is stopped whenever it is removed" if ok else
                 f"'{stmt_text(rm)}' removes a child from the actor map, but {why}; whatever that child created (its own actors, timers, services) "
                 f"can no longer be reached by an ancestor's stop()", rm)
    c.floor(rid, "removals from an _actors map", n, 4)


def restore_every_id(ctx, rid: str) -> None:
    """from_snapshot re-activates every persisted configuration id (or raises): the loop iterates the persisted list as
    written and each iteration adds the state."""
    c, p = ctx.c, ctx.p
    fs = p.method("BaseInterpreter", "from_snapshot")
    g_fs = cfg_of(fs.node)
    adds = [w for w in attr_writes(fs) if w.attr == CONFIG_ATTR and w.op == "call:add"]
    loops = [l for l in own_nodes(fs.node) if isinstance(l, ast.For) and any(any(w.node is x for x in ast.walk(l)) for w in adds)]
    c.need(loops, "restore loop of from_snapshot")
    lp = loops[0]
    itname = lp.iter.id if isinstance(lp.iter, ast.Name) else None
    defs = [a for a in assignments_to(fs, itname) if isinstance(a, (ast.Assign, ast.AnnAssign))] if itname else []
    direct = bool(itname) and len(defs) == 1 and "snapshot" in norm(defs[0].value) and not any(
        isinstance(y, (ast.ListComp, ast.GeneratorExp, ast.SetComp)) or (isinstance(y, ast.Call) and norm(y.func) == "filter") for y in ast.walk(defs[0].value))
    c.ob(rid, direct or (itname is None and "snapshot" in norm(lp.iter)), fs, "restore-iterates-persisted-ids",
         "the restore loop iterates the persisted configuration as written" if direct else
         f"the ids handed to the restore loop are re-assigned / filtered after being read from the snapshot ({len(defs)} assignments of "
         f"'{itname}'): a persisted active state can be dropped on restore (e.g. a childless compound leaf that is not in state_ids), leaving a "
         f"parallel state with a missing region", lp)
    hdr = g_fs.nodes_of(lp)[0]
    addn = [n for w in adds for n in cfg_node_of(fs, w.node)]
    ok = unconditional_in_loop(g_fs, hdr, addn)
    if not ok:
        # the add may sit in a walk  cur = node; while cur is not None: add(cur); cur = cur.parent  (the node and its ancestors): the
        # walk is entered at least once when it starts from a value that is known to be there (``if not node: raise`` before it)
        sure = set()
        for w_ in [x for x in ast.walk(lp) if isinstance(x, ast.While)]:
            t_ = w_.test
            var = None
            if isinstance(t_, ast.Name):
                var = t_.id
            else:
                cp = compare_parts(t_)
                if cp and isinstance(cp[1], ast.IsNot) and isinstance(cp[2], ast.Constant) and cp[2].value is None and isinstance(cp[0], ast.Name):
                    var = cp[0].id
            if var is None:
                continue
            inits = [a for a in assignments_to(fs, var) if isinstance(a, (ast.Assign, ast.AnnAssign)) and getattr(a, "value", None) is not None
                     and not any(a is y for st_ in w_.body for y in ast.walk(st_)) and any(a is y for y in ast.walk(lp))]
            if len(inits) != 1 or not isinstance(inits[0].value, ast.Name):
                continue
            src = inits[0].value.id
            known = any((isinstance(a_, ast.Name) and a_.id == src and pol_) or
                        ((cp2 := compare_parts(a_)) is not None and isinstance(cp2[1], ast.IsNot) and norm(cp2[0]) == src and pol_)
                        for a_, pol_ in guards_at(fs, w_.test))
            if known:
                for tn in g_fs.nodes_of(w_.test) or [n.id for n in g_fs.nodes if n.kind == "test" and n.ast is w_.test]:
                    sure.add((tn, frozenset(i for st_ in w_.body for y in ast.walk(st_) for i in g_fs.nodes_of(y))))
        if sure:
            sure_map = dict(sure)
            blocked = set(addn)
            seen, work = set(), [(d, hdr) for d, lab in g_fs.succ[hdr] if lab in ("loop", "T")]
            reached_hdr = False
            while work:
                nid, prev = work.pop()
                if (nid, prev in sure_map.get(nid, ())) in seen or nid in blocked:
                    continue
                seen.add((nid, prev in sure_map.get(nid, ())))
                if nid == hdr:
                    reached_hdr = True
                    break
                for d, lab in g_fs.succ[nid]:
                    if lab == "exc":
                        continue
                    if nid in sure_map and lab == "F" and prev not in sure_map[nid]:
                        continue          # first evaluation of the walk's test: known to hold
                    work.append((d, nid))
            ok = not reached_hdr
    c.ob(rid, ok, fs, "restore-adds-every-id", "every iteration of the restore loop adds the state or raises" if ok else
         "an iteration of the restore loop can complete without adding the persisted state (and without raising)", lp)


def role_defects(ctx, rid: str) -> None:
    """Roles that could only be located by fallback because their defining construct is gone (see rules/roles.py)."""
    for v in VIEWS:
        for kind, f_, msg in roles(ctx, v).defects:
            ctx.c.ob(rid, False, f_, f"{v}:{kind}", msg, f_.node)


def background_tasks_owned(ctx, rid: str, only_funcs=None) -> None:
    """Every asyncio task the async engine creates is reachable by teardown: its handle is the run-loop task attribute or
    is handed to ``self.task_manager.add(owner, task)`` on every path that follows the creation.  State-owned work
    (timers, invoked services: functions that receive an ``owner_id``) must be registered under that owner, so that
    leaving the state cancels exactly it."""
    c = ctx.c
    n = 0
    for f in ctx.p.funcs_in("interpreter"):
        if only_funcs and f.name not in only_funcs:
            continue
        g = None
        for x in own_nodes(f.node):
            if not (isinstance(x, ast.Call) and norm(x.func) in ("asyncio.create_task", "asyncio.ensure_future", "loop.create_task")):
                continue
            n += 1
            par = parents(f).get(id(x))
            if isinstance(par, ast.Assign) and isinstance(par.targets[0], ast.Attribute) and dotted(par.targets[0].value) == "self":
                c.ob(rid, True, f, f"task-owned:{par.targets[0].attr}", f"the task handle is kept in self.{par.targets[0].attr}", x)
                continue
            var = par.targets[0].id if isinstance(par, ast.Assign) and isinstance(par.targets[0], ast.Name) else None
            adds = [y for y in own_nodes(f.node) if isinstance(y, ast.Call) and norm(y.func) == "self.task_manager.add" and
                    var is not None and any(isinstance(a, ast.Name) and a.id == var for a in y.args)]
            g = g or cfg_of(f.node)
            cn = cfg_node_of(f, x)
            an = [i for y in adds for i in cfg_node_of(f, y)]
            ok = bool(an) and all(g.always_after(i, an, [g.exit], follow_exc=False) for i in cn)
            owner_ok = True
            if ok and "owner_id" in f.params:
                owner_ok = all(y.args and norm(y.args[0]) == "owner_id" for y in adds)
            c.ob(rid, ok and owner_ok, f, f"task-owned:{var or 'anonymous'}#{n}",
                 "the task is registered with the task manager (under its owning state)" if ok and owner_ok else
                 (f"'{stmt_text(x)}' creates a background task that is not registered with self.task_manager on every path: neither leaving the "
                  f"owning state nor stop() can cancel it (a service result / timer of an exited state is still delivered, the task outlives stop())"
                  if not ok else
                  f"the task created by '{stmt_text(x)}' is registered under '{norm(adds[0].args[0]) if adds and adds[0].args else '?'}' instead of the "
                  f"owner_id it was started for: exiting that state does not cancel it"), x)
    c.expect(rid, "background task creation sites in the async engine", n, len(only_funcs) if only_funcs else 4, ctx.p.method("Interpreter", "_after_timer"))


def exit_set_scope(ctx, rid: str) -> None:
    """Frame clause of C03 (also C01): states outside the domain's subtree - and, when the domain is a parallel state,
    outside the region that contains the target - are not exited.  Decided as a postcondition argument over
    ``_compute_states_to_exit``:
      * the base set is {s in active | descendant(s, domain), s is not domain};
      * under ``domain.type == 'parallel'`` a walk starts at the target and follows ``.parent``; when its loop falls
        through, ``walker.parent is domain`` (or the walker is None) - nothing else may end it;
      * the set is then narrowed to {s | s is walker or descendant(s, walker)} - a disjunction, never a conjunction."""
    from sa.util import canon_atom, loop_exit_atoms, atom_is_type_test
    c, p = ctx.c, ctx.p
    f = p.method("BaseInterpreter", "_compute_states_to_exit")
    for v in VIEWS:
        if p.method(v, "_compute_states_to_exit").qualname != f.qualname:
            c.ob(rid, False, p.method(v, "_compute_states_to_exit"), "exit-set-overridden", f"{v} overrides _compute_states_to_exit; rule must be re-derived", f.node)
    dom = f.params[1] if len(f.params) > 1 else "domain"
    tgt = f.params[2] if len(f.params) > 2 else "target_state"
    comps = [x for x in own_nodes(f.node) if isinstance(x, ast.SetComp)]
    base = [x for x in comps if "_active_state_nodes" in norm(x.generators[0].iter)]
    if c.expect(rid, "base exit set over the active configuration", len(base), 1, f, "the exit set is no longer computed from the active configuration"):
        b = base[0]
        var = norm(b.generators[0].target)
        atoms = [canon_atom(a) for cnd in b.generators[0].ifs for a, _ in split_atoms(cnd, True)] if b.generators[0].ifs else []
        raw = [a for cnd in b.generators[0].ifs for a, pol in split_atoms(cnd, True)]
        has_desc = any(isinstance(a, ast.Call) and norm(a.func).endswith("_is_descendant") and [norm(z) for z in a.args] == [var, dom] for a in raw)
        not_dom = ("is", *sorted([var, dom]), False) in atoms
        c.ob(rid, has_desc and not_dom, f, "base-set:descendants-of-domain-except-domain",
             "the exit set starts from the active proper descendants of the domain" if has_desc and not_dom else
             f"the base exit set is not 'active states that are descendants of the domain, the domain itself excluded' (descendant test: {has_desc}, "
             f"domain excluded: {not_dom}): states outside the transition's subtree are exited, or the domain itself is", b)
    par = [x for x in own_nodes(f.node) if isinstance(x, ast.If) and any(atom_is_type_test((a, pol), "parallel") is True for a, pol in split_atoms(x.test, True))]
    if not par:
        # guard-clause form:  if domain is None or domain.type != "parallel": return candidates   ... narrowing follows
        under_par = [x for x in own_nodes(f.node) if isinstance(x, (ast.While, ast.SetComp)) and x not in base and
                     any(atom_is_type_test((a, pol), "parallel") is True for a, pol in guards_at(f, x.test if isinstance(x, ast.While) else x))]
        if under_par:
            class _Blk:      # the statements that run under "the domain is parallel"
                pass
            pi_ = _Blk()
            pi_.body = [st for st in f.node.body if any(y in under_par for y in ast.walk(st))]
            pi_.lineno = pi_.body[0].lineno
            par = [pi_]
    if not c.expect(rid, "parallel-domain branch", len(par), 1, f,
                    "the exit set is no longer narrowed when the domain is a parallel state: a transition inside one region exits every sibling region, "
                    "which is never re-entered"):
        return
    pi = par[0]
    loops = [x for st in pi.body for x in ast.walk(st) if isinstance(x, ast.While)]
    wf, w_out, dom_in, tgt_in = f, None, dom, tgt
    if not loops:
        # the walk extracted into a helper:  region = self._helper(target_state, domain)
        for a in [x for st in pi.body for x in ast.walk(st) if isinstance(x, ast.Assign) and isinstance(x.targets[0], ast.Name) and isinstance(x.value, ast.Call)]:
            callee = a.value.func.attr if isinstance(a.value.func, ast.Attribute) else (a.value.func.id if isinstance(a.value.func, ast.Name) else None)
            argn = [norm(z) for z in a.value.args]
            if callee is None or tgt not in argn or dom not in argn:
                continue
            try:
                h = p.method("BaseInterpreter", callee)
            except Exception:
                continue
            hl = [x for x in own_nodes(h.node) if isinstance(x, ast.While)]
            hp = [q for q in h.params if q not in ("self", "cls")]
            if len(hl) == 1 and len(hp) == len(argn):
                loops, wf, w_out = hl, h, a.targets[0].id
                tgt_in, dom_in = hp[argn.index(tgt)], hp[argn.index(dom)]
                break
    if not c.expect(rid, "walk from the target up to the domain's child", len(loops), 1, f,
                    "the parallel-domain branch no longer walks from the target up to the child of the domain that contains it", pi):
        return
    lp = loops[0]
    steps = [x for x in lp.body if isinstance(x, ast.Assign) and isinstance(x.targets[0], ast.Name) and norm(x.value) == f"{x.targets[0].id}.parent"]
    w = steps[0].targets[0].id if steps else None
    init = [a for a in assignments_to(wf, w) if getattr(a, "value", None) is not None and norm(a.value) == tgt_in] if w else []
    mode, ex = loop_exit_atoms(lp.test)
    want = ("is", *sorted([f"{w}.parent", dom_in]), True)
    allowed = {want, ("is", *sorted([w or "?", "None"]), True)}
    ok = bool(w) and bool(init) and want in ex and set(ex) <= allowed and (mode == "any" or len(ex) == 1)
    if wf is not f:
        # the helper hands the walker back
        ok = ok and any(isinstance(r_, ast.Return) and r_.value is not None and norm(r_.value) == w for r_ in own_nodes(wf.node))
    c.ob(rid, ok, f, "region-walk-postcondition", f"when the walk ends, {w}.parent is the domain: {w} is the region that contains the target" if ok else
         f"the walk 'while {norm(lp.test)}' does not establish '{w}.parent is {dom}' when it ends (it ends when one of {ex} holds; it must start at "
         f"the target and end only at the domain's child): the exit set is narrowed to the wrong subtree - e.g. to the target's own subtree, so the "
         f"source state in the same region stays active next to the target", lp)
    if w_out is not None:
        w = w_out
    elif w:
        # the walker handed on under another name (an inlined helper's local):  branch = walker
        al = [a.targets[0].id for a in own_nodes(f.node) if isinstance(a, (ast.Assign,)) and isinstance(a.targets[0], ast.Name) and isinstance(a.value, ast.Name)
              and a.value.id == w and a.targets[0].id != w and a.lineno >= lp.lineno]
        if len(set(al)) == 1 and len(assignments_to(f, al[0])) == 1:
            w = al[0]
    narrowed = [x for st in pi.body for x in ast.walk(st) if isinstance(x, ast.SetComp)]
    if c.expect(rid, "narrowing of the exit set to the target's region", len(narrowed), 1, f, "the exit set is no longer narrowed to the region", pi) and w:
        nc = narrowed[0]
        sv = norm(nc.generators[0].target)
        conds = nc.generators[0].ifs
        cond = conds[0] if len(conds) == 1 else None
        parts = cond.values if isinstance(cond, ast.BoolOp) and isinstance(cond.op, ast.Or) else ([cond] if cond is not None and not isinstance(cond, ast.BoolOp) else [])
        has_desc = any(isinstance(a, ast.Call) and norm(a.func).endswith("_is_descendant") and [norm(z) for z in a.args] == [sv, w] for a in parts)
        extra = [a for a in parts if not (isinstance(a, ast.Call) and norm(a.func).endswith("_is_descendant")) and canon_atom(a) != ("is", *sorted([sv, w]), True)]
        ok = has_desc and not extra
        c.ob(rid, ok, f, "region-filter", f"narrowed to the states that are {w} or below it" if ok else
             f"the narrowing condition '{norm(cond) if cond is not None else conds}' is not 'descendant of {w} (or {w} itself)': active states inside the "
             f"target's region stay active after the transition (two active children in one region), or states of sibling regions are exited", nc)


def guard_pass_predicates(ctx, host: FuncInfo) -> Dict[str, FuncInfo]:
    """The functions whose result *is* the guard evaluator's verdict for their first argument (the repo's nested ``_passes``; after
    an extract-method refactoring a method such as ``self._guard_passes(t, event, cache)``).  Keyed by the callee text at a call
    site (``_passes`` / ``self._guard_passes``).  Every return of such a function hands back ``_is_guard_satisfied(<p>.guard_def, ..)``
    itself or the memo slot that was just filled with it."""
    cache = getattr(ctx, "_gpp", None)
    if cache is None:
        cache = ctx._gpp = {}
    if host.qualname in cache:
        return cache[host.qualname]
    cands: Dict[str, FuncInfo] = dict(host.nested)
    if host.cls is not None:
        for name, f in host.cls.methods.items():
            cands.setdefault("self." + name, f)
    out: Dict[str, FuncInfo] = {}
    for key, f in cands.items():
        params = [q for q in f.params if q not in ("self", "cls")]
        if not params:
            continue
        evals = [x for x in own_nodes(f.node) if isinstance(x, ast.Call) and norm(x.func).endswith("_is_guard_satisfied") and x.args
                 and norm(x.args[0]) == f"{params[0]}.guard_def"]
        if not evals:
            continue
        rets = [r for r in own_nodes(f.node) if isinstance(r, ast.Return)]
        memo = {norm(a.targets[0]) for a in own_nodes(f.node) if isinstance(a, ast.Assign) and a.value in evals}
        if rets and all(r.value is not None and (r.value in evals or norm(r.value) in memo) for r in rets):
            out[key] = f
    cache[host.qualname] = out
    return out


def guard_pass_call(ctx, host: FuncInfo, e: ast.AST) -> Optional[str]:
    """If *e* evaluates the guard of a transition - through a guard-pass predicate or directly - the text of that transition."""
    if not isinstance(e, ast.Call) or not e.args:
        return None
    fn = norm(e.func)
    if fn in guard_pass_predicates(ctx, host):
        return norm(e.args[0])
    if fn.endswith("_is_guard_satisfied") and norm(e.args[0]).endswith(".guard_def"):
        return norm(e.args[0])[:-len(".guard_def")]
    return None


def candidate_appends(ctx, ce: FuncInfo) -> List[Tuple[FuncInfo, ast.Call, List[Tuple[ast.AST, bool]]]]:
    """(owner, append call, guards) for every ``eligible.append(..)`` of candidate collection, including the ones in a nested
    helper of it (guards of a helper's append: its own plus the ones at the helper's call sites that all of them share)."""
    out = []
    from sa.util import returned_name
    lst = returned_name(ce, "eligible")
    for owner in [ce] + list(ce.nested.values()):
        for x in own_nodes(owner.node):
            if isinstance(x, ast.Call) and isinstance(x.func, ast.Attribute) and x.func.attr == "append" and dotted(x.func.value) == lst and x.args:
                raw = list(guards_at(owner, x))
                if owner is not ce:
                    sites = [y for y in own_nodes(ce.node) if isinstance(y, ast.Call) and isinstance(y.func, ast.Name) and y.func.id == owner.name]
                    shared_g = None
                    for y in sites:
                        gy = {(norm(a), pol): (a, pol) for a, pol in guards_at(ce, y)}
                        shared_g = gy if shared_g is None else {k: v for k, v in shared_g.items() if k in gy}
                    raw.extend((shared_g or {}).values())
                out.append((owner, x, raw))
    return out


def exit_set_anchored_on_target(ctx, rid: str) -> None:
    """The region the exit set is narrowed to (under a parallel domain) is the one that contains the transition's *target*: the state
    handed to ``_compute_states_to_exit`` is the very state the domain was computed for and the entry path leads to - never the
    source (for a transition that crosses regions the source's region is not the one that is re-entered)."""
    from sa.util import expand_names
    c, p = ctx.c, ctx.p
    n = 0
    for v in VIEWS:
        ex = roles(ctx, v).executor
        comp = self_calls_in(ex, "_compute_states_to_exit")
        doms = self_calls_in(ex, "_find_transition_domain")
        for call in comp:
            if len(call.args) < 2:
                continue
            n += 1
            a = expand_names(ex, call.args[1])
            from_source = any(isinstance(y, ast.Attribute) and y.attr == "source" for y in ast.walk(a))
            same = [d for d in doms if len(d.args) >= 2 and norm(expand_names(ex, d.args[1])) == norm(a)]
            ok = not from_source and (bool(same) or not doms)
            c.ob(rid, ok, ex, f"{v}:exit-set-anchored-on-target", "the exit set is narrowed towards the state the domain was computed for (the target)" if ok else
                 f"'{norm(call)[:80]}' narrows the exit set towards '{norm(call.args[1])}' "
                 f"{'(the source)' if from_source else '(not the state handed to _find_transition_domain)'}: for a transition that crosses regions of a parallel "
                 f"state the source's region is exited and never re-entered, while the target's region is entered a second time without being exited", call)
    c.expect(rid, "exit-set computations in the executors", n, 1, roles(ctx, "Interpreter").executor)


def eligible_bucket_rules(ctx, rid: str, which: str) -> None:
    """Candidate collection (``_collect_eligible_transitions``): a transition becomes a candidate only
      * when its own guard passes (``which='guard'``: a positive ``_passes(t)`` atom for the very transition appended), and
      * when the event is its event: ``after`` transitions by ``t.event == event.type`` under ``isinstance(event, AfterEvent)``;
        invoke handlers by ``event.src == inv.id`` and ``t.event == event.type`` under ``isinstance(event, DoneEvent)``;
        ``onDone`` by ``on_done.event == event.type``; eventless ones only under the transient check.
    Each is a conjunction of simple atoms on every append (a disjunction or a constant in their place lets a foreign event,
    or a transition whose guard is false, through)."""
    from sa.util import canon_atom
    c, p = ctx.c, ctx.p
    ce = p.method("BaseInterpreter", "_collect_eligible_transitions")
    apps = candidate_appends(ctx, ce)
    if not c.expect(rid, "appends to the candidate list", len(apps), 5, ce, "candidate collection no longer covers all five buckets (on, always, onDone, after, invoke)"):
        return
    n = 0
    for owner, x, raw in apps:
        item = norm(x.args[0])
        atoms = [canon_atom(a, pol) for a, pol in raw if not isinstance(a, ast.BoolOp)]
        consts = [a for a, pol in raw if isinstance(a, ast.Constant)]
        loops = [l for l in enclosing_loops(owner, x) if isinstance(l, ast.For)]
        src = " ".join(norm(l.iter) for l in loops) + " " + item
        bucket = "after" if ".after" in src else ("invoke" if "on_done + " in src or ".invoke" in src else ("ondone" if item.endswith(".on_done") else
                 ("always" if "on['']" in src.replace('"', "'") else "on")))
        if which == "guard":
            n += 1
            ok = any(pol and guard_pass_call(ctx, ce, a) == item for a, pol in raw)
            c.ob(rid, ok, ce, f"guard-passes:{bucket}", f"a transition of the '{bucket}' bucket becomes a candidate only when its own guard passes" if ok else
                 f"'{norm(x)}' ({bucket} bucket) is not under a positive guard evaluation of '{item}' (the repo's '_passes({item})'): a transition whose guard "
                 f"is false (or raised) can be selected", x)
            continue
        if which != bucket:
            continue
        n += 1
        need = {"after": [("==", *sorted(["event.type", f"{item}.event"]), True), ("truthy", "isinstance(event, AfterEvent)", "", True)],
                "invoke": [("==", *sorted(["event.type", f"{item}.event"]), True), ("truthy", "isinstance(event, DoneEvent)", "", True)],
                "ondone": [("==", *sorted(["event.type", f"{item}.event"]), True)],
                "always": []}.get(bucket, [])
        missing = [t for t in need if t not in atoms]
        if bucket == "always":
            # eventless transitions only when the event is not one of the engine's own done./error./after. events - under whatever
            # name that test was given
            def _is_transient_test(t):
                return t[0] == "truthy" and "startswith" in t[1] and all(k in t[1] for k in ("done.", "error.", "after.")) and t[3] is False
            if not any(_is_transient_test(t) for t in atoms):
                missing.append(("truthy", "<event>.type.startswith(('done.', 'error.', 'after.'))", "", False))
        if bucket == "invoke":
            src_ok = any(t[0] == "==" and t[3] is True and "event.src" in (t[1], t[2]) and any(z.endswith(".id") for z in (t[1], t[2])) for t in atoms)
            if not src_ok:
                missing.append(("==", "event.src", "<invocation>.id", True))
        ok = not missing and not consts
        c.ob(rid, ok, ce, f"event-identity:{bucket}", f"a '{bucket}' transition is a candidate only for its own event" if ok else
             f"'{norm(x)}' ({bucket} bucket) lacks the positive test(s) {missing} (guards seen: {atoms[-4:]}): the handler of one timer / service / "
             f"completion is selected for the event of another", x)
    c.expect(rid, f"appends of the '{which}' bucket", n, 1, ce)


def task_registry_ownership(ctx, rid: str) -> None:
    """TaskManager: an owner's entry of the task registry is removed only by the cancellation routines.  The completion
    callback of one task may discard *that task*; dropping the owner's whole set there makes the owner's other running tasks
    invisible to cancel_by_owner() (state exit) and cancel_all() (stop)."""
    c, p = ctx.c, ctx.p
    tm = p.cls("TaskManager")
    n = 0
    for name, f in tm.methods.items():
        for x in ast.walk(f.node):
            removes = None
            if isinstance(x, ast.Call) and isinstance(x.func, ast.Attribute) and x.func.attr in ("pop", "clear", "popitem") and norm(x.func.value).endswith("_tasks_by_owner"):
                removes = x
            elif isinstance(x, ast.Delete) and any(isinstance(t, ast.Subscript) and norm(t.value).endswith("_tasks_by_owner") for t in x.targets):
                removes = x
            elif isinstance(x, ast.Assign) and any(norm(t).endswith("_tasks_by_owner") for t in x.targets) and name != "__init__":
                removes = x
            if removes is None:
                continue
            n += 1
            ok = name.startswith("cancel")
            c.ob(rid, ok, f, f"task-registry-removal:{name}", f"{f.short} removes an owner's entry as part of cancelling it" if ok else
                 f"'{stmt_text(removes)}' in {f.short} drops an owner's whole task set outside the cancellation routines: when one of a state's tasks finishes, its "
                 f"other running tasks (a second invoke, an after-timer) are forgotten - leaving the state or stop() no longer cancels them and their late "
                 f"results are delivered to a later activation", removes)
    c.expect(rid, "removals of owner entries in TaskManager", n, 1, tm.methods["cancel_by_owner"])
    addf = tm.methods["add"]
    disc = [x for x in ast.walk(addf.node) if isinstance(x, ast.Call) and isinstance(x.func, ast.Attribute) and x.func.attr in ("discard", "remove")]
    c.ob(rid, bool(disc), addf, "completed-task-discarded", "a completed task is discarded from its owner's set" if disc else
         "TaskManager.add no longer discards a completed task from the registry", addf.node)


def none_is_the_only_absence(ctx, rid: str, table) -> None:
    """User data whose falsy values are meaningful (an output of 0 / '' / {} / False, a delay of 0, an empty input or params
    object) is tested for absence with ``is None`` only.  *table*: (class, method, variable) triples.  Reported: the variable used
    as a bare truthiness operand (``if not x``, ``x or default``, ``a if x else b``) in that function."""
    c, p = ctx.c, ctx.p
    for cls_name, meth, var in table:
        try:
            f = p.method(cls_name, meth) if cls_name else next(g for g in p.all_funcs if g.name == meth and g.cls is None)
        except Exception:
            continue
        bare = []
        for x in own_nodes(f.node):
            tests = []
            if isinstance(x, (ast.If, ast.While, ast.IfExp)):
                tests.append(x.test)
            elif isinstance(x, ast.BoolOp):
                tests.extend(x.values[:-1] if isinstance(x.op, ast.Or) else x.values)
            elif isinstance(x, ast.comprehension):
                tests.extend(x.ifs)
            for t in tests:
                stack = [t]
                while stack:
                    e = stack.pop()
                    if isinstance(e, ast.UnaryOp) and isinstance(e.op, ast.Not):
                        stack.append(e.operand)
                    elif isinstance(e, ast.BoolOp):
                        stack.extend(e.values)
                    elif norm(e) == var:
                        bare.append((x, e))
        none_tests = [y for y in own_nodes(f.node) if isinstance(y, ast.Compare) and norm(y.left) == var and isinstance(y.ops[0], (ast.Is, ast.IsNot))
                      and isinstance(y.comparators[0], ast.Constant) and y.comparators[0].value is None]
        ok = not bare
        c.ob(rid, ok, f, f"absence-is-none:{meth}:{var}", f"'{var}' is tested for absence with 'is None' ({len(none_tests)} test(s)); falsy values are kept" if ok else
             f"'{var}' is used as a truth value in {f.short} ('{stmt_text(bare[0][0], 70)}'): a legitimate falsy value (0, False, '', [], {{}}) is treated as "
             f"'not given' and silently replaced / dropped", bare[0][0] if bare else f.node)


_MUTATORS = {"pop", "popitem", "clear", "update", "setdefault", "append", "extend", "insert", "remove", "sort", "reverse"}


_OWN_CTORS = ("dict", "list", "set", "tuple", "sorted", "copy.deepcopy", "copy.copy", "deepcopy", "OrderedDict", "defaultdict")


def _is_fresh(v: ast.AST) -> bool:
    return isinstance(v, (ast.Dict, ast.List, ast.Set, ast.ListComp, ast.DictComp, ast.SetComp)) or \
        (isinstance(v, ast.Call) and norm(v.func) in _OWN_CTORS)


def _library_owned(p, g: FuncInfo, e: ast.AST, modules, depth: int) -> bool:
    """*e* (evaluated in *g*) is an object the library made or keeps for itself: a fresh literal / copy, None, a private attribute
    of a library object (``self._scheduled_sends``, ``root._system`` - nothing rooted at ``self.machine``, the definition), the
    result of a private method all of whose returns are such objects, or a local / parameter that only ever holds one."""
    if depth < 0:
        return False
    if e is None or (isinstance(e, ast.Constant) and e.value is None) or _is_fresh(e):
        return True
    if isinstance(e, ast.Attribute):
        t = norm(e)
        return e.attr.startswith("_") and not e.attr.startswith("__") and ".machine" not in t and not t.startswith("machine")
    if isinstance(e, ast.Call) and isinstance(e.func, ast.Attribute) and e.func.attr.startswith("_") and not e.func.attr.startswith("__"):
        targets = [h for h in p.funcs_in(*modules) if h.name == e.func.attr and h.cls is not None]
        if not targets:
            return False
        for h in targets:
            rets = [r for r in own_nodes(h.node) if isinstance(r, ast.Return) and r.value is not None]
            if not rets or not all(_library_owned(p, h, r.value, modules, depth - 1) for r in rets):
                return False
        return True
    if isinstance(e, ast.Name):
        outer = g
        while outer is not None and e.id not in outer.params and not any(
                isinstance(a, (ast.Assign, ast.AnnAssign)) and isinstance((a.targets[0] if isinstance(a, ast.Assign) else a.target), ast.Name)
                and (a.targets[0] if isinstance(a, ast.Assign) else a.target).id == e.id for a in own_nodes(outer.node)):
            outer = outer.parent          # a closure variable of the enclosing function
        if outer is None:
            return False
        defs = [a for a in own_nodes(outer.node) if isinstance(a, (ast.Assign, ast.AnnAssign)) and
                isinstance((a.targets[0] if isinstance(a, ast.Assign) else a.target), ast.Name) and (a.targets[0] if isinstance(a, ast.Assign) else a.target).id == e.id]
        if defs:
            return all(a.value is not None and _library_owned(p, outer, a.value, modules, depth - 1) for a in defs)
        loops = [l for l in own_nodes(outer.node) if isinstance(l, (ast.For, ast.AsyncFor)) and any(isinstance(t, ast.Name) and t.id == e.id for t in ast.walk(l.target))]
        if loops:
            return False
        return e.id in outer.params and param_is_library_scratch(p, outer, e.id, modules, depth - 1)
    return False


def param_is_library_scratch(p, f: FuncInfo, param: str, modules, depth: int = 3) -> bool:
    """A parameter of a *private* function that only ever receives an object the library created or keeps for itself (a memo
    table, an accumulator, its own registry): see _library_owned for what every call site in the engine may pass.  Such an
    object is not the caller's data, whatever the function does with it."""
    if depth < 0 or not f.name.startswith("_") or f.name.startswith("__"):
        return False
    names = [a for a in f.params]
    sites = []
    for g in p.funcs_in(*modules):
        for x in own_nodes(g.node):
            if isinstance(x, ast.Call) and ((isinstance(x.func, ast.Attribute) and x.func.attr == f.name) or (isinstance(x.func, ast.Name) and x.func.id == f.name)):
                sites.append((g, x))
    if not sites:
        return False
    for g, x in sites:
        pos = [q for q in names if q not in ("self", "cls")] if isinstance(x.func, ast.Attribute) or f.cls is None else names
        arg = None
        if param in pos and pos.index(param) < len(x.args):
            arg = x.args[pos.index(param)]
        for k in x.keywords:
            if k.arg == param:
                arg = k.value
        if any(isinstance(a, ast.Starred) for a in x.args) or any(k.arg is None for k in x.keywords):
            return False
        if not _library_owned(p, g, arg, modules, depth):
            return False
    return True


def definition_is_read_only(ctx, rid: str, modules, what: str, only_funcs=None) -> None:
    """Data that belongs to the caller or to the machine definition is never mutated by the library at parse or run time:
    the raw config handed to create_machine(), an action's / guard's ``params`` object, an event dict, a persisted snapshot,
    the MachineLogic registries reached through ``self.machine``.  (A ``get`` turned into a ``pop`` works once: the second
    build from the same config, the second execution of the same action, the second spawn of the same service sees less.)
    Tracked: parameters of the function and locals assigned from ``<tracked>.get(...)`` / ``<tracked>[...]`` / ``<tracked>.<attr>``
    (aliases of caller data), plus every expression rooted at ``self.machine``.  A local that is rebuilt (``dict(x)``, a literal,
    a comprehension, ``copy.deepcopy``) is the function's own and may be mutated."""
    c, p = ctx.c, ctx.p
    n = 0
    for f in p.funcs_in(*modules):
        if only_funcs is not None and f.name not in only_funcs:
            continue
        params = {a for a in f.params if a not in ("self", "cls")}
        if not params and "self.machine" not in norm(f.node):
            continue
        tracked = set(params)
        changed = True
        assigns = [a for a in own_nodes(f.node) if isinstance(a, ast.Assign) and isinstance(a.targets[0], ast.Name)]
        own = set()
        for a in assigns:
            v = a.value
            if isinstance(v, (ast.Dict, ast.List, ast.Set, ast.ListComp, ast.DictComp, ast.SetComp, ast.Constant, ast.JoinedStr, ast.Tuple)) or \
                    (isinstance(v, ast.Call) and norm(v.func) in ("dict", "list", "set", "tuple", "sorted", "copy.deepcopy", "copy.copy", "deepcopy", "OrderedDict", "defaultdict")):
                own.add(a.targets[0].id)
        def _mentions_tracked(e):
            return any(isinstance(y, ast.Name) and y.id in tracked for y in ast.walk(e)) or any(norm(y) in tracked for y in ast.walk(e) if isinstance(y, ast.Attribute))
        attr_assigns = [a for a in own_nodes(f.node) if isinstance(a, (ast.Assign, ast.AnnAssign)) and isinstance((a.targets[0] if isinstance(a, ast.Assign) else a.target), ast.Attribute)
                        and norm((a.targets[0] if isinstance(a, ast.Assign) else a.target).value) == "self" and getattr(a, "value", None) is not None]
        loops_ = [l for l in own_nodes(f.node) if isinstance(l, ast.For)]
        while changed:
            changed = False
            for a in attr_assigns:
                tg = norm(a.targets[0] if isinstance(a, ast.Assign) else a.target)
                v = a.value
                if tg not in tracked and ((isinstance(v, ast.Call) and isinstance(v.func, ast.Attribute) and v.func.attr == "get" and _mentions_tracked(v.func.value)) or
                                          (isinstance(v, ast.Name) and v.id in tracked)):
                    tracked.add(tg)
                    changed = True
            for l in loops_:
                it = l.iter
                core = it
                if isinstance(core, ast.Call) and isinstance(core.func, ast.Attribute) and core.func.attr in ("items", "values"):
                    core = core.func.value
                if isinstance(core, ast.BoolOp):
                    core = core.values[0]
                if isinstance(core, ast.Call) and isinstance(core.func, ast.Attribute) and core.func.attr == "get":
                    core = core.func.value
                if (isinstance(core, ast.Name) and core.id in tracked) or norm(core) in tracked:
                    tnames = [l.target] if isinstance(l.target, ast.Name) else ([e for e in l.target.elts if isinstance(e, ast.Name)] if isinstance(l.target, ast.Tuple) else [])
                    # for k, v in d.items(): the values are the caller's objects (keys are immutable)
                    for e in (tnames[-1:] if isinstance(l.target, ast.Tuple) else tnames):
                        if e.id not in tracked:
                            tracked.add(e.id)
                            changed = True
            for a in assigns:
                nm = a.targets[0].id
                v0 = a.value
                if nm not in tracked and nm not in own:
                    cand = v0.values[0] if isinstance(v0, ast.BoolOp) and isinstance(v0.op, ast.Or) and not isinstance(v0.values[-1], (ast.List,)) else v0
                    if isinstance(cand, ast.Call) and norm(cand.func).endswith(("_resolve_params",)) and cand.args and _mentions_tracked(cand.args[0]):
                        tracked.add(nm)
                        changed = True
                        continue
                    if isinstance(cand, ast.Call) and isinstance(cand.func, ast.Attribute) and cand.func.attr == "get" and norm(cand.func.value) in tracked:
                        tracked.add(nm)
                        changed = True
                        continue
                    # through pass-through wrappers and conditional expressions: x = self._ensure_list(cfg.get("k", [])), x = cfg.get("k") if ... else []
                    inner = [y for y in ast.walk(v0) if (isinstance(y, ast.Call) and isinstance(y.func, ast.Attribute) and y.func.attr == "get" and norm(y.func.value) in tracked) or
                             (isinstance(y, ast.Subscript) and norm(y.value) in tracked)]
                    wrapper_ok = isinstance(v0, ast.IfExp) or (isinstance(v0, ast.Call) and norm(v0.func).split(".")[-1] in ("_ensure_list", "_as_list")) or isinstance(v0, ast.BoolOp)
                    if inner and wrapper_ok:
                        tracked.add(nm)
                        changed = True
                        continue
            for a in assigns:
                nm = a.targets[0].id
                if nm in tracked or nm in own and len([b for b in assigns if b.targets[0].id == nm]) == 1:
                    continue
                v = a.value
                src = None
                if isinstance(v, ast.Call) and isinstance(v.func, ast.Attribute) and v.func.attr == "get":
                    src = v.func.value
                elif isinstance(v, ast.Subscript):
                    src = v.value
                elif isinstance(v, ast.Attribute) and v.attr in ("params", "config", "payload", "data"):
                    src = v.value
                elif isinstance(v, ast.BoolOp) and isinstance(v.op, ast.Or) and isinstance(v.values[0], ast.Call) and isinstance(v.values[0].func, ast.Attribute) and v.values[0].func.attr == "get" \
                        and not isinstance(v.values[-1], (ast.Dict, ast.List)):
                    src = v.values[0].func.value
                if src is not None and isinstance(src, ast.Name) and src.id in tracked and nm not in own:
                    tracked.add(nm)
                    changed = True

        def rooted(e):
            t = norm(e)
            if t.startswith("self.machine.") or t == "self.machine":
                return "the machine definition (self.machine...)"
            base = e
            while isinstance(base, (ast.Attribute, ast.Subscript)):
                base = base.value
            if isinstance(base, ast.Name) and base.id in tracked and base.id not in ("self", "cls"):
                if isinstance(e, ast.Name) or isinstance(e, (ast.Subscript,)) or (isinstance(e, ast.Attribute) and e.attr in ("params", "config", "payload", "data", "context") and False):
                    return f"'{base.id}' (data handed in by the caller / taken from the definition)"
            if t in tracked:
                return f"'{t}' (data handed in by the caller / taken from the definition)"
            return None
        for x in own_nodes(f.node):
            hit = None
            if isinstance(x, ast.Call) and isinstance(x.func, ast.Attribute) and x.func.attr in _MUTATORS:
                r_ = rooted(x.func.value)
                if r_ and not (isinstance(x.func.value, ast.Name) and x.func.value.id in own):
                    hit = (x, r_)
            elif isinstance(x, ast.Delete):
                for t in x.targets:
                    if isinstance(t, ast.Subscript) and rooted(t.value):
                        hit = (x, rooted(t.value))
            elif isinstance(x, (ast.Assign, ast.AugAssign)):
                for t in (x.targets if isinstance(x, ast.Assign) else [x.target]):
                    if isinstance(t, ast.Subscript) and rooted(t.value) and not (isinstance(t.value, ast.Name) and t.value.id in own):
                        hit = (x, rooted(t.value))
            if hit:
                base = hit[0].func.value if isinstance(hit[0], ast.Call) else None
                if base is None:
                    tg0 = (hit[0].targets[0] if isinstance(hit[0], (ast.Assign, ast.Delete)) else hit[0].target)
                    base = tg0.value if isinstance(tg0, ast.Subscript) else tg0
                while isinstance(base, (ast.Attribute, ast.Subscript)):
                    base = base.value
                if isinstance(base, ast.Name) and base.id in params and param_is_library_scratch(p, f, base.id, modules):
                    continue        # a memo / accumulator the library created and handed down to its own helper
                n += 1
                key = f"{norm(hit[0] if not isinstance(hit[0], ast.Call) else hit[0].func)[:48]}"
                ok = (f.short, key) in DEFINITION_MUTATIONS_ACCEPTED
                c.ob(rid, ok, f, f"mutates-caller-data:{key}", f"accepted: {DEFINITION_MUTATIONS_ACCEPTED.get((f.short, key))}" if ok else
                     f"'{stmt_text(hit[0], 80)}' in {f.short} mutates {hit[1]}: {what}", hit[0], nontrivial=not ok)
    c.ob(rid, True, "engine", "caller-data-mutations", f"{n} mutations of caller / definition data found in {', '.join(modules)}", None, nontrivial=False)


DEFINITION_MUTATIONS_ACCEPTED: Dict[Tuple[str, str], str] = {}


def no_mutation_while_iterating(ctx, rid: str, modules, want) -> None:
    """A dict / set is not resized by the body of a loop that iterates over it directly (``for k, v in d.items(): del d[k]`` raises
    ``RuntimeError: dictionary changed size during iteration`` on the next step).  Accepted: iteration over a copy
    (``list(d.items())``, ``d.copy()``, ``sorted(d)``, a comprehension built first), and a removal that is the last thing the loop
    does (followed by ``break`` / ``return`` on every path).  *want*: predicate on the container text selecting the rule's share."""
    c, p = ctx.c, ctx.p
    n = 0
    for f in p.funcs_in(*modules):
        for lp in own_nodes(f.node):
            if not isinstance(lp, (ast.For, ast.AsyncFor)):
                continue
            it = lp.iter
            base = it
            if isinstance(base, ast.Call) and isinstance(base.func, ast.Attribute) and base.func.attr in ("items", "values", "keys") and not base.args:
                base = base.func.value
            if not isinstance(base, (ast.Name, ast.Attribute)):
                continue          # a call (list(..), sorted(..), .copy()) or a literal: a snapshot
            cont = norm(base)
            if not want(cont):
                continue
            n += 1
            g = cfg_of(f.node)
            hits = []
            for st in lp.body:
                for x in ast.walk(st):
                    m = None
                    if isinstance(x, ast.Delete) and any(isinstance(t, ast.Subscript) and norm(t.value) == cont for t in x.targets):
                        m = x
                    elif isinstance(x, ast.Call) and isinstance(x.func, ast.Attribute) and norm(x.func.value) == cont and \
                            x.func.attr in ("pop", "popitem", "clear", "add", "discard", "remove", "update", "setdefault"):
                        m = x
                    if m is None:
                        continue
                    # harmless when the loop is left right afterwards: no path from the mutation back to the loop header
                    back = any(g.can_reach(i, h, follow_exc=False) for i in cfg_node_of(f, m) for h in g.nodes_of(lp))
                    if back:
                        hits.append(m)
            c.ob(rid, not hits, f, f"iterate-and-resize:{cont[:40]}", f"the loop over {cont} does not resize it (or leaves at once)" if not hits else
                 f"'{stmt_text(hits[0], 70)}' resizes {cont} inside 'for ... in {norm(it)[:50]}' and the loop goes on: the next step raises RuntimeError "
                 f"(changed size during iteration) - iterate over a copy (list(...)) as the surrounding code does", hits[0] if hits else lp)
    c.ob(rid, True, "engine", "iterate-and-resize-sites", f"{n} direct iterations over interpreter containers examined", None, nontrivial=False)


def declared_entries_kept(ctx, rule: str, parser: str, what: str, consequence: str) -> None:
    """Every entry of a raw config mapping / list reaches the parsed result: in StateNode.<parser> the loop over the raw entries stores
    into the returned container in every iteration (a refusal by ``raise`` aside).  A parser that drops an entry it considers
    redundant changes what the machine does - a null transition exists precisely to be found, a delay to be armed, a service to be
    started."""
    from sa.util import every_iteration, returned_name
    c, p = ctx.c, ctx.p
    f = p.cls("StateNode").methods[parser]
    res = returned_name(f)
    loops = [l for l in own_nodes(f.node) if isinstance(l, ast.For) and not enclosing_loops(f, l) and
             any(isinstance(y, (ast.Name, ast.Attribute, ast.Call)) and ("raw_" in norm(y) or "config" in norm(y) or "_configs" in norm(y)) for y in ast.walk(l.iter))]
    # the comprehension form:  result = {k: build(k, v) for k, v in raw.items()}  keeps every entry exactly when it has no filter
    comps = []
    for a in own_nodes(f.node):
        if isinstance(a, (ast.Assign, ast.AnnAssign)) and isinstance(getattr(a, "value", None), (ast.DictComp, ast.ListComp)):
            t = a.targets[0] if isinstance(a, ast.Assign) else a.target
            if isinstance(t, ast.Name) and t.id == res and any(
                    isinstance(y, (ast.Name, ast.Attribute, ast.Call)) and ("raw_" in norm(y) or "config" in norm(y) or "_configs" in norm(y)) for y in ast.walk(a.value.generators[0].iter)):
                comps.append(a)
    if not c.expect(rule, f"loop over the declared {what} in {f.short}", (len(loops) + len(comps)) if res else 0, 1, f,
                    f"{f.short} no longer walks the declared {what} into the container it returns"):
        return
    for a in comps:
        filt = [i_ for g_ in a.value.generators for i_ in g_.ifs]
        c.ob(rule, not filt, f, f"declared-{what}-kept", f"every declared entry of {what} is stored in the parsed result (unfiltered comprehension)" if not filt else
             f"'{stmt_text(a)}' filters the declared {what} ({norm(filt[0])}): a declared entry is dropped at parse time - {consequence}", a)
    for l in loops:
        stores = [x for x in own_nodes(f.node) if l in enclosing_loops(f, x) and (
            (isinstance(x, ast.Assign) and isinstance(x.targets[0], ast.Subscript) and norm(x.targets[0].value) == res) or
            (isinstance(x, ast.Call) and isinstance(x.func, ast.Attribute) and x.func.attr in ("append", "extend", "setdefault") and norm(x.func.value) == res))]
        ok = bool(stores) and every_iteration(f, l, stores)
        c.ob(rule, ok, f, f"declared-{what}-kept", f"every declared entry of {what} is stored in the parsed result" if ok else
             f"an iteration of '{stmt_text(l)}' can end without storing into '{res}': a declared entry of {what} is dropped at parse time - {consequence}", l)


def _kind_atom(f, text: str) -> bool:
    """*text* tests the kind of the state the walker stands on: <node param>.get('type') / ['type'] / .type / .is_final / .history ..."""
    import re
    for prm in f.params:
        if prm in ("self", "cls"):
            continue
        if re.search(rf"\b{re.escape(prm)}(\.get\('type'|\['type'\]|\.type\b|\.is_(final|atomic|parallel|compound|history)\b|\.history\b)", text):
            return True
    return False


def walker_kind_blind(ctx, rule: str, f, what: str) -> None:
    """A walker that collects the logic names a machine references visits every bucket of every state, whatever kind the state is:
    the engine runs transitions, timers and services declared on a final state, and treats a 'final' state with children as a
    compound one.  No early exit and no bucket visit of the walker may depend on the state's kind."""
    c = ctx.c
    n = 0
    for r_ in [x for x in own_nodes(f.node) if isinstance(x, (ast.Return, ast.Continue, ast.Break))]:
        if isinstance(r_, ast.Return) and r_ is f.node.body[-1]:
            continue
        atoms = guards_at(f, r_)
        kind = [norm(a) for a, pol in atoms if _kind_atom(f, norm(a))]
        if isinstance(r_, (ast.Continue, ast.Break)) and not kind:
            continue
        shape_only = bool(atoms) and all(norm(a).startswith("isinstance(") and not pol for a, pol in atoms)
        n += 1
        ok = not kind and (shape_only or isinstance(r_, (ast.Continue, ast.Break)))
        c.ob(rule, ok, f, f"walker-early-exit:{norm(atoms[-1][0])[:40] if atoms else 'unconditional'}",
             "the walker leaves a node early only to refuse a value of the wrong shape" if ok else
             f"{f.short} stops collecting {what} for some states ('{stmt_text(r_)}' under {kind or [norm(a) for a, _ in atoms]}): names referenced only by the "
             f"buckets below that point are never collected, although the engine does run them", r_)
    visits = [x for x in own_nodes(f.node) if isinstance(x, ast.Call) and (
        (isinstance(x.func, ast.Name) and x.func.id.startswith(("_extract", "_traverse", "_collect"))) or
        (isinstance(x.func, ast.Attribute) and (x.func.attr in ("add", "update", "extend", "append") or x.func.attr.startswith(("_extract", "_collect", "_traverse")))))]
    bad = [(x, [norm(a) for a, pol in guards_at(f, x) if _kind_atom(f, norm(a))]) for x in visits]
    bad = [(x, k) for x, k in bad if k]
    c.ob(rule, not bad, f, "walker-visits-kind-blind", f"all {len(visits)} collecting sites of the walker run for states of every kind" if not bad else
         f"'{stmt_text(bad[0][0])}' collects {what} only for some kinds of state ({bad[0][1]})", bad[0][0] if bad else f.node)
    c.floor(rule, f"collecting sites in {f.short}", len(visits), 3)


def arming_key_is_cancelling_key(ctx, rule: str) -> None:
    """The key under which a state's timers and services are registered is the key its exit cancels them by.  Arming
    (``_schedule_state_tasks`` -> ``_after_timer`` / ``_invoke_service`` with ``owner_id``) and cancelling
    (``_cancel_state_tasks`` -> ``cancel_by_owner`` / the timer-flag lookup) are two sites that each look fine alone; a task armed under
    another key (the invoke id, a per-timer key) survives the exit of its state and delivers a late result to a later activation."""
    c, p = ctx.c, ctx.p
    sch = p.method("BaseInterpreter", "_schedule_state_tasks")
    st_param = sch.params[1] if len(sch.params) > 1 else "state"
    keys = []
    for x in own_nodes(sch.node):
        if isinstance(x, ast.Call) and isinstance(x.func, ast.Attribute) and norm(x.func.value) == "self" and x.func.attr in ("_after_timer", "_invoke_service"):
            k = next((kw.value for kw in x.keywords if kw.arg == "owner_id"), None)
            if k is None:
                callee = p.method("Interpreter", x.func.attr)
                prm = [q for q in callee.params if q != "self"]
                if "owner_id" in prm and prm.index("owner_id") < len(x.args):
                    k = x.args[prm.index("owner_id")]
            keys.append((x, k))
    if not c.expect(rule, "arming calls with an owner key in _schedule_state_tasks", len(keys), 2, sch,
                    "_schedule_state_tasks no longer arms timers and services under an owner key"):
        return
    cancel_keys = set()
    for v in VIEWS:
        cs = p.method(v, "_cancel_state_tasks")
        cp = cs.params[1] if len(cs.params) > 1 else "state"
        for y in own_nodes(cs.node):
            if isinstance(y, ast.Call) and isinstance(y.func, ast.Attribute) and y.func.attr in ("cancel_by_owner", "pop", "get") and y.args:
                cancel_keys.add(norm(y.args[0]).replace(cp, "<state>"))
            if isinstance(y, ast.Subscript):
                cancel_keys.add(norm(y.slice).replace(cp, "<state>"))
            if isinstance(y, ast.Compare):
                for side in [y.left] + list(y.comparators):
                    if cp in norm(side):
                        cancel_keys.add(norm(side).replace(cp, "<state>"))
    from sa.util import expand_names
    for x, k in keys:
        if k is not None:
            k = expand_names(sch, k)         # owner_id = state.id; ... owner_id=owner_id
        kt = norm(k).replace(st_param, "<state>") if k is not None else "?"
        ok = k is not None and kt == "<state>.id" and kt in cancel_keys
        c.ob(rule, ok, sch, f"armed-under-cancelled-key:{x.func.attr}", "tasks are armed under the key the exit routine cancels by (the state id)" if ok else
             f"'{stmt_text(x)}' arms under '{norm(k) if k is not None else '?'}' while _cancel_state_tasks cancels by {sorted(cancel_keys)[:3]}: whenever the two differ "
             f"(an invoke with its own id) the task survives the exit of its state and its late result is delivered to a later activation", x)


def stale_source_skip(ctx, rid: str) -> None:
    """Each selected transition is executed only if its source is still active when its turn comes (or it is the only one selected).
    A necessary condition of C02 (once per region: a transition invalidated by an earlier winner of the same step does not fire) and of
    C01 (a transition run from an inactive source exits nothing and enters its target beneath inactive ancestors: seeded change C01-e)."""
    c, res = ctx.c, ctx.r
    for v in VIEWS:
        r = roles(ctx, v)
        pe = r.process_event
        calls = [s for s in res.callsites(pe, v) if any(t.qualname == r.dispatch.qualname for t in s.targets)]
        c.expect(rid, f"dispatch call in {pe.short}", len(calls), 1, pe, f"{pe.short} no longer hands the selected transitions to {r.dispatch.short}: nominated transitions do not fire")
        for s in calls:
            ok = False
            for a, pol in guards_at(pe, s.call):
                for x in ast.walk(a):
                    cp = compare_parts(x)
                    if cp and isinstance(cp[0], ast.Attribute) and cp[0].attr == "source" and \
                            isinstance(cp[2], ast.Attribute) and cp[2].attr == CONFIG_ATTR:
                        # whole atom false + 'not in'  ==  executed only when not (… and stale)
                        if (isinstance(cp[1], ast.NotIn) and not pol) or (isinstance(cp[1], ast.In) and pol):
                            ok = True
            c.ob(rid, ok, pe, "stale-source-skip",
                 "each selected transition is executed only if its source is still active (or it is the only one)" if ok else
                 "the per-transition executor call is not dominated by the stale-source test: a transition whose source "
                 "was exited by an earlier winner of the same step still fires", s.call)


def armed_on_every_entry(ctx, rid: str) -> None:
    """Every state the entry routine enters has `_schedule_state_tasks` called for it, once, on every normal path through the entry loop
    (its `after` timers as well as its services are armed there: a necessary condition of C08 and C09 alike; seeded changes C05-d, C08-d)."""
    c = ctx.c
    for v in VIEWS:
        en = roles(ctx, v).enter
        g = cfg_of(en.node)
        sc = [n for call in self_calls_in(en, "_schedule_state_tasks") for n in cfg_node_of(en, call)]
        loop = next((l for l in own_nodes(en.node) if isinstance(l, ast.For) and en.params[1] in norm(l.iter)), None)
        c.need(loop is not None and sc, f"entry loop / schedule call in {en.short}")
        hdr = g.nodes_of(loop)[0]
        at_least = unconditional_in_loop(g, hdr, sc)
        at_most = not any(s2 in g.reachable_from_succ(s1, blocked_nodes={hdr}, follow_exc=False) for s1 in sc for s2 in sc)
        c.ob(rid, at_least, en, "schedule-every-entered-state", "every entered state has its timers and services armed on every normal path" if at_least else
             "a path through the entry loop skips _schedule_state_tasks: an entered state's `after` timers (and services) never start", loop)
        c.ob(rid, at_most, en, "schedule-at-most-once", "no path arms a state's tasks twice in one entry" if at_most else
             "a path through the entry loop calls _schedule_state_tasks twice for one state: its timers are armed twice", loop)
