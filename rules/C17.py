"""C17 - code generator: structural clauses (write/verify discipline, coverage, vocabulary, determinism)."""
import ast

from sa.cfg import cfg_of
from sa.effects import attr_writes
from sa.program import dotted, norm, own_nodes, const_str
from sa.util import (ancestors, assignments_to, cfg_node_of, enclosing_try_bodies, guards_at, stmt_text, names_in, parents)
from . import shared

CLI_MODULES = ("cli.__main__", "cli.args", "cli.builders", "cli.emit", "cli.extractor", "cli.generator", "cli.ir", "cli.naming",
               "cli.postprocess", "cli.simulation", "cli.utils", "cli.validation", "cli.strategies", "cli.strategies._shared",
               "cli.strategies.base", "cli.strategies.class_json", "cli.strategies.function_json", "cli.strategies.pythonic_builder",
               "cli.strategies.pythonic_class", "cli.strategies.pythonic_functional")
RENDER_MODULES = ("cli.emit", "cli.builders", "cli.strategies.pythonic_builder", "cli.strategies.pythonic_class",
                  "cli.strategies.pythonic_functional", "cli.strategies._shared", "cli.strategies.class_json",
                  "cli.strategies.function_json", "cli.validation")
# model attributes that do not influence behaviour (not required in the fingerprint)
FINGERPRINT_IRRELEVANT = {
    "StateNode": {"key", "parent", "machine", "id", "depth", "states", "description"},
    "TransitionDefinition": {"source", "forbidden"},
    "ActionDefinition": set(),
    "GuardDefinition": {"is_composite", "is_state_in"},
    "InvokeDefinition": {"source"},
}


def _cli_funcs(p):
    return [f for f in p.all_funcs if f.module.name.startswith("cli")]


def _config_keys_read(funcs, recv_filter=None):
    keys = {}
    for f in funcs:
        for x in own_nodes(f.node):
            k = r = None
            if isinstance(x, ast.Call) and isinstance(x.func, ast.Attribute) and x.func.attr == "get" and x.args and const_str(x.args[0]) is not None:
                k, r = const_str(x.args[0]), norm(x.func.value)
            elif isinstance(x, ast.Subscript) and isinstance(x.ctx, ast.Load) and const_str(x.slice) is not None:
                k, r = const_str(x.slice), norm(x.value)
            elif isinstance(x, ast.Compare) and len(x.ops) == 1 and isinstance(x.ops[0], (ast.In, ast.NotIn)) and const_str(x.left) is not None:
                k, r = const_str(x.left), norm(x.comparators[0])
            elif isinstance(x, ast.For) and isinstance(x.iter, ast.Tuple) and all(const_str(e) for e in x.iter.elts) and isinstance(x.target, ast.Name):
                # for key in ("entry", "exit"): ... node[key] / key in node   -> keys read from that receiver
                recvs = set()
                for y in ast.walk(x):
                    if isinstance(y, ast.Subscript) and isinstance(y.slice, ast.Name) and y.slice.id == x.target.id:
                        recvs.add(norm(y.value))
                    elif isinstance(y, ast.Compare) and isinstance(y.left, ast.Name) and y.left.id == x.target.id and len(y.ops) == 1 and isinstance(y.ops[0], (ast.In, ast.NotIn)):
                        recvs.add(norm(y.comparators[0]))
                    elif isinstance(y, ast.Call) and isinstance(y.func, ast.Attribute) and y.func.attr == "get" and y.args and isinstance(y.args[0], ast.Name) and y.args[0].id == x.target.id:
                        recvs.add(norm(y.func.value))
                for e in x.iter.elts:
                    for r in recvs:
                        if recv_filter is None or recv_filter(r):
                            keys.setdefault(const_str(e), []).append((f, x, r))
                continue
            if k is not None and (recv_filter is None or recv_filter(r)):
                keys.setdefault(k, []).append((f, x, r))
    return keys


def _cli_callee(p, call):
    fn = call.func
    nm = fn.id if isinstance(fn, ast.Name) else (fn.attr if isinstance(fn, ast.Attribute) else None)
    if nm is None:
        return None
    for m in p.modules.values() if hasattr(p, "modules") and isinstance(p.modules, dict) else []:
        if m.name.startswith("cli") and nm in m.functions:
            return m.functions[nm]
    return None

def parsed_exprs(p, f, depth=2):
    """expressions (normalised text) that *f* parses on some path, with the call node"""
    out = []
    for x in own_nodes(f.node):
        if not isinstance(x, ast.Call):
            continue
        if norm(x.func) in ("ast.parse", "compile") and x.args:
            # a parse whose SyntaxError is swallowed (the handler hands the text back unchanged) checks nothing
            swallowed = False
            for t_ in enclosing_try_bodies(f, x):
                for h in t_.handlers:
                    if h.type is None or any(nm in norm(h.type) for nm in ("SyntaxError", "Exception", "ValueError")):
                        reports = any(isinstance(y, ast.Raise) or
                                      (isinstance(y, (ast.Return, ast.Assign)) and isinstance(y.value, ast.List) and y.value.elts) or
                                      (isinstance(y, ast.Call) and isinstance(y.func, ast.Attribute) and y.func.attr in ("append", "extend"))
                                      for st in h.body for y in ast.walk(st))
                        if not reports:
                            swallowed = True
            if not swallowed:
                out.append((x.args[0], x))
        elif depth > 0:
            g_ = _cli_callee(p, x)
            if g_ is not None and g_.qualname != f.qualname:
                inner_exprs = parsed_exprs(p, g_, depth - 1)
                inner = {norm(e) for e, _ in inner_exprs}
                prm = [q for q in g_.params if q not in ("self", "cls")]
                binding = {}
                for i, a_ in enumerate(x.args):
                    if i < len(prm):
                        binding[prm[i]] = a_
                        if prm[i] in inner:
                            out.append((a_, x))
                for k in x.keywords:
                    if k.arg:
                        binding[k.arg] = k.value
                    if k.arg in inner:
                        out.append((k.value, x))
                # what the callee parses as a function of its parameters (F(p1, p2)) is, at this call, F(<arg1>, <arg2>)
                import copy as _copy
                for e, _site in inner_exprs:
                    if isinstance(e, ast.Call) and e.args and all(isinstance(z, ast.Name) and z.id in binding for z in e.args) and not e.keywords:
                        e2 = _copy.deepcopy(e)
                        e2.args = [_copy.deepcopy(binding[z.id]) for z in e.args]
                        out.append((e2, x))
    return out


def runner_is_parsed(p) -> bool:
    """The verifier parses the runner text the workflow hands to the writer (so a runner that does not parse is a refusal)."""
    main = p.module("cli.__main__")
    wf, vr = main.functions.get("run_generation_workflow"), main.functions.get("_verify_or_refuse")
    if wf is None or vr is None:
        return False
    names = {e.id for e, _ in parsed_exprs(p, vr) if isinstance(e, ast.Name)}
    for x in own_nodes(wf.node):
        if isinstance(x, ast.Call) and norm(x.func).endswith("_verify_or_refuse"):
            for k in x.keywords:
                if k.arg in names and isinstance(k.value, ast.Name) and "runner" in k.value.id:
                    return True
            prm = [q for q in vr.params]
            for i, a_ in enumerate(x.args):
                if i < len(prm) and prm[i] in names and isinstance(a_, ast.Name) and "runner" in a_.id:
                    return True
    return False


def run(ctx):
    c, p, res = ctx.c, ctx.p, ctx.r
    main = p.module("cli.__main__")
    wf = main.functions.get("run_generation_workflow")
    wr = main.functions.get("_write_output_files")
    vr = main.functions.get("_verify_or_refuse")
    c.need(wf and wr and vr, "run_generation_workflow / _write_output_files / _verify_or_refuse")
    # ---- R1 file writes happen only in _write_output_files ----------------------------------
    sinks = []
    for f in _cli_funcs(p):
        for x in own_nodes(f.node):
            if isinstance(x, ast.Call) and isinstance(x.func, ast.Attribute) and x.func.attr in ("write_text", "write_bytes", "writelines"):
                sinks.append((f, x))
            elif isinstance(x, ast.Call) and isinstance(x.func, ast.Attribute) and x.func.attr == "write" and "stdout" not in norm(x.func.value) and "stderr" not in norm(x.func.value):
                sinks.append((f, x))
            elif isinstance(x, ast.Call) and norm(x.func) in ("open", "Path.open") and len(x.args) > 1 and const_str(x.args[1]) and set(const_str(x.args[1])) & set("wax+"):
                sinks.append((f, x))
    c.floor("R1", "file write sinks in the CLI", len(sinks), 3)
    for f, x in sinks:
        ok = f.qualname == wr.qualname
        c.ob("R1", ok, f, f"write-sink:{norm(x.func)[-30:]}", "output is written only by _write_output_files" if ok else
             f"{f.short} writes a file ('{stmt_text(x)}') outside _write_output_files: it bypasses the verify-before-write gate", x)
    # ---- R11 the logic-name walker visits every bucket of every state, whatever its kind ---------------------------------------
    shared.walker_kind_blind(ctx, "R11", p.module("cli.extractor").functions["_traverse_and_extract"], "action / guard / service names")
    # ---- R2 verification dominates every write ------------------------------------------------
    g = cfg_of(wf.node)
    vcalls = [s for s in res.callsites(wf, None) if any(t.qualname == vr.qualname for t in s.targets)]
    wcalls = [s for s in res.callsites(wf, None) if any(t.qualname == wr.qualname for t in s.targets)]
    c.floor("R2", "verify / write calls in the workflow", min(len(vcalls), len(wcalls)), 1)
    vn = [n for s in vcalls for n in cfg_node_of(wf, s.call)]
    for s in wcalls:
        ok = all(g.always_before(vn, n, follow_exc=False) for n in cfg_node_of(wf, s.call))
        c.ob("R2", ok, wf, "verify-dominates-write", "every path to the write passes _verify_or_refuse" if ok else
             "a path reaches _write_output_files without passing _verify_or_refuse: unverified code can be written", s.call)
    callers = [s for f in _cli_funcs(p) for s in res.callsites(f, None) if any(t.qualname == wr.qualname for t in s.targets)]
    ok = all(s.func.qualname == wf.qualname for s in callers)
    c.ob("R2", ok, wr, "single-writer-caller", "only the generation workflow calls the writer" if ok else
         "a second function calls _write_output_files without the verification gate", wr.node)
    # refusal is fatal: problems -> SystemExit
    ok = any(isinstance(x, ast.Raise) and "SystemExit" in norm(x.exc) for x in own_nodes(vr.node))
    c.ob("R2", ok, vr, "refusal-exits-nonzero", "problems make _verify_or_refuse raise SystemExit(1)" if ok else
         "_verify_or_refuse no longer exits non-zero when it finds problems", vr.node)
    vg = p.module("cli.validation").functions["verify_generated"]
    gv = cfg_of(vg.node)
    parse_nodes = [n for x in own_nodes(vg.node) if isinstance(x, ast.Call) and norm(x.func) == "ast.parse" for n in cfg_node_of(vg, x)]
    strict_tests = [n.id for n in gv.nodes if n.kind == "test" and "strict" in norm(n.ast)]
    ok = bool(parse_nodes) and all(gv.always_before(parse_nodes, t, follow_exc=False) for t in strict_tests)
    c.ob("R2", ok, vg, "syntax-check-unconditional", "the syntax check runs even with --no-verify (before the strict test)" if ok else
         "--no-verify can skip the syntax check of the generated code", vg.node)
    # ---- R3 written value is the verified value ---------------------------------------------
    # "verified" = handed to the verifier under a parameter the verifier parses: ast.parse / compile of the parameter itself, or the
    # parameter passed on to a CLI function that parses the parameter it arrives in (verify_generated(.., code), a syntax helper)
    vr_parsed = parsed_exprs(p, vr)
    vr_parsed_names = {e.id for e, _ in vr_parsed if isinstance(e, ast.Name)}

    def wf_var_of(call, callee, param):
        """the workflow variable that *call* passes for *param* of *callee*"""
        prm = [q for q in callee.params if q not in ("self", "cls")]
        for k in call.keywords:
            if k.arg == param and isinstance(k.value, ast.Name):
                return k.value.id
        if param in prm and prm.index(param) < len(call.args) and isinstance(call.args[prm.index(param)], ast.Name):
            return call.args[prm.index(param)].id
        return None
    for s in wcalls:
        verified_names = set()
        for v in vcalls:
            for q in vr_parsed_names:
                w_ = wf_var_of(v.call, vr, q)
                if w_:
                    verified_names.add(w_)
        passed_names = {a.id for v in vcalls for a in list(v.call.args) + [k.value for k in v.call.keywords] if isinstance(a, ast.Name)}
        for a in s.call.args:
            if not isinstance(a, ast.Name) or "code" not in a.id:
                continue
            # same variable, not reassigned between verification and write
            reass = [n for asg in assignments_to(wf, a.id) for n in g.nodes_of(asg)]
            between = any(g.can_reach(v_, r_, follow_exc=False) and any(g.can_reach(r_, w_, follow_exc=False) for w_ in cfg_node_of(wf, s.call))
                          for v_ in vn for r_ in reass)
            ok = a.id in verified_names and not between
            why = "was never passed to the verifier" if a.id not in passed_names else "is passed to the verifier, which never parses it"
            c.ob("R3", ok, wf, f"written-is-verified:{a.id}",
                 f"'{a.id}' is the value that was verified" if ok else
                 f"'{a.id}' is handed to the writer but {why} (parsed: {sorted(verified_names)}): "
                 f"a config-derived string that breaks this file (e.g. an event name containing a newline) is written with exit status 0", a)
    for x in own_nodes(wr.node):
        if isinstance(x, ast.Call) and isinstance(x.func, ast.Attribute) and x.func.attr == "write_text" and x.args:
            a = x.args[0]
            direct = isinstance(a, ast.Name) and a.id in wr.params
            same = False
            if not direct and isinstance(a, ast.Name):
                # computed inside the writer as F(<writer parameters>): accepted when the verifier parses F(<its parameters>) and both
                # parameter lists receive the same workflow variables (F is a function of its arguments: merge + polish)
                defs = [d for d in assignments_to(wr, a.id) if isinstance(d, ast.Assign) and isinstance(d.value, ast.Call)]
                if len(defs) == 1 and all(isinstance(z, ast.Name) and z.id in wr.params for z in defs[0].value.args) and not defs[0].value.keywords:
                    fcall = defs[0].value
                    for e, _site in vr_parsed:
                        if isinstance(e, ast.Call) and norm(e.func) == norm(fcall.func) and len(e.args) == len(fcall.args) and not e.keywords and \
                                all(isinstance(z, ast.Name) and z.id in vr.params for z in e.args):
                            for w_call in wcalls:
                                for v in vcalls:
                                    lhs = [wf_var_of(w_call.call, wr, z.id) for z in fcall.args]
                                    rhs = [wf_var_of(v.call, vr, z.id) for z in e.args]
                                    if None not in lhs and lhs == rhs:
                                        same = True
            okw = direct or same
            c.ob("R3", okw, wr, f"write-arg:{norm(a)}",
                 ("the written string is a parameter handed over by the verified workflow" if direct else
                  "the written string is recomputed from the verified parameters by the function whose result the verifier parsed") if okw else
                 f"'{norm(a)}' is computed inside the writer (after verification) from the code strings: the merged single-file output is "
                 f"never parsed or verified before it is written", x)
    # ---- R4 coverage: IR fields rendered; fingerprint reads behaviour-bearing attributes -------
    ir = p.module("cli.ir")
    render_funcs = [f for f in p.all_funcs if f.module.name in RENDER_MODULES or f.module.name == "cli.ir"]
    n_fields = 0
    for cname in ("GuardIR", "ActionIR", "TransitionIR", "InvokeIR", "StateIR"):
        cls = ir.classes[cname]
        fields = [s.target.id for s in cls.node.body if isinstance(s, ast.AnnAssign) and isinstance(s.target, ast.Name)]
        # attributes read on values of this IR type in render functions: by parameter annotation or by loop variable over a typed field
        read = set()
        for f in render_funcs:
            if f.module.name == "cli.ir" and f.self_class is not None and f.self_class.name == cname:
                continue      # the IR class's own helpers do not render
            typed = set()
            for a in f.node.args.args + f.node.args.kwonlyargs:
                if a.annotation is not None and cname in norm(a.annotation):
                    typed.add(a.arg)
            # loop / comprehension variables over attributes whose IR field type mentions cname
            seq_params = {a.arg for a in f.node.args.args + f.node.args.kwonlyargs
                          if a.annotation is not None and cname in norm(a.annotation) and ("Sequence" in norm(a.annotation) or "Tuple" in norm(a.annotation) or "List" in norm(a.annotation))}
            typed -= seq_params
            for x in own_nodes(f.node):
                it = tgt = None
                if isinstance(x, ast.For):
                    it, tgt = x.iter, x.target
                elif isinstance(x, ast.comprehension):
                    it, tgt = x.iter, x.target
                if it is not None and isinstance(tgt, ast.Name) and isinstance(it, ast.Attribute):
                    if _field_elem_type(ir, it.attr) == cname:
                        typed.add(tgt.id)
                if it is not None and isinstance(tgt, ast.Name) and isinstance(it, ast.Name) and it.id in seq_params:
                    typed.add(tgt.id)
                if it is not None and isinstance(tgt, ast.Name) and isinstance(it, ast.Call) and isinstance(it.func, ast.Attribute) \
                        and it.func.attr == "walk" and cname == "StateIR":
                    typed.add(tgt.id)
                if isinstance(x, ast.Assign) and isinstance(x.targets[0], ast.Name) and isinstance(x.value, ast.Call):
                    callee = x.value.func.id if isinstance(x.value.func, ast.Name) else (x.value.func.attr if isinstance(x.value.func, ast.Attribute) else "")
                    for rf in render_funcs:
                        if rf.name == callee and rf.node.returns is not None and cname in norm(rf.node.returns):
                            typed.add(x.targets[0].id)
                if isinstance(x, (ast.Assign,)) and isinstance(x.targets[0], ast.Name) and isinstance(x.value, ast.Attribute) and \
                        _field_elem_type(ir, x.value.attr) == cname:
                    typed.add(x.targets[0].id)
            # a read that only decides an `if` whose body emits nothing is not a rendering of the field
            hollow = set()
            for n_ in own_nodes(f.node):
                if isinstance(n_, ast.If) and all(isinstance(b_, ast.Pass) or (isinstance(b_, ast.Expr) and isinstance(b_.value, ast.Constant)) for b_ in n_.body) and not n_.orelse:
                    hollow |= {id(y) for y in ast.walk(n_.test)}
            for x in own_nodes(f.node):
                if isinstance(x, ast.Attribute) and isinstance(x.value, ast.Name) and x.value.id in typed and id(x) not in hollow:
                    read.add(x.attr)
                # trans.guard passed on: render_guard(trans.guard) -> handled via the callee's annotation
        for fld in fields:
            n_fields += 1
            if cname == "StateIR" and fld in ("unsupported", "path", "key"):
                c.ob("R4", True, ir.relpath, f"{cname}.{fld}", "structural field", cls.node, nontrivial=False)
                continue
            if f"{cname}.{fld}" in IR_FIELD_ACCEPTED:
                c.ob("R4", True, f"cli.ir:{cname}", f"ir-field-rendered:{cname}.{fld}", f"accepted: {IR_FIELD_ACCEPTED[f'{cname}.{fld}']}", cls.node, nontrivial=False)
                continue
            ok = fld in read
            c.ob("R4", ok, f"cli.ir:{cname}", f"ir-field-rendered:{cname}.{fld}", f"{cname}.{fld} is read on the render path" if ok else
                 f"{cname}.{fld} is parsed into the IR but no renderer ever reads it: that part of the source machine is dropped from the "
                 f"generated code", cls.node)
    c.floor("R4", "IR dataclass fields", n_fields, 30)
    val = p.module("cli.validation")
    fp_funcs = [val.functions[n] for n in ("_collect", "_transition_fingerprint", "_resolved_target") if n in val.functions]
    c.floor("R4", "fingerprint functions", len(fp_funcs), 3)
    fp_reads_by_class = _fingerprint_reads(fp_funcs)
    # A fingerprint omission is a defect only together with a generator gap: the attribute is lost on the
    # parse/render path AND the verifier cannot see the loss.  Gaps found above (IR field never rendered) and
    # below (config key never parsed) are mapped to the model attributes they feed.
    render_gaps = {o["construct"].split(":", 1)[1] for o in c.obligations
                   if o["rule"] == "C17.R4" and not o["ok"] and o["construct"].startswith("ir-field-rendered:")}
    key_gaps = _guard_key_gaps(p, ir)
    lost = set()
    if "GuardIR.params" in render_gaps:
        lost |= {"GuardDefinition.params", "TransitionDefinition.guard_def"}
    if key_gaps:
        lost |= {"GuardDefinition.children", "GuardDefinition.params", "TransitionDefinition.guard_def"}
    for g_ in render_gaps:
        cn, fld = g_.split(".")
        lost |= {f"{m}.{fld}" for m in ("StateNode", "TransitionDefinition", "ActionDefinition", "InvokeDefinition") if cn[:-2] in m or cn == "StateIR" and m == "StateNode"}
    for cname, irrelevant in FINGERPRINT_IRRELEVANT.items():
        init = p.cls(cname).methods["__init__"]
        attrs = sorted({w.attr for w in attr_writes(init) if w.base == "self"} - irrelevant)
        for a in attrs:
            # a property that exposes only part of the attribute does not count as reading it
            seen_by_verifier = a in fp_reads_by_class.get(cname, set())
            if seen_by_verifier:
                c.ob("R4", True, val.functions["_collect"], f"fingerprint-reads:{cname}.{a}", f"{cname}.{a} takes part in the verification fingerprint", val.functions["_collect"].node)
            elif f"{cname}.{a}" in lost:
                c.ob("R4", False, val.functions["_collect"], f"fingerprint-reads:{cname}.{a}",
                     f"{cname}.{a} is dropped on the generator's parse/render path (see the IR/key gap reported for guards) and the verification "
                     f"fingerprint never reads it either: the loss is reported as 'rebuilds the source machine exactly'", val.functions["_collect"].node)
            else:
                c.ob("R4", True, val.functions["_collect"], f"fingerprint-reads:{cname}.{a}",
                     f"verifier does not compare {cname}.{a}; no generator gap feeds it today (IR field parsed and rendered: R4/R5), so nothing is lost",
                     val.functions["_collect"].node, nontrivial=False)
                c.note(f"C17.R4 verifier blind spot (unarmed, no generator gap today): {cname}.{a}")
    # a declared invoke input that is falsy ({} / 0 / '' / False) is still rendered
    shared.none_is_the_only_absence(ctx, "R9", [(None, "one", "inv.input")])
    # ---- R9 whether a field is rendered depends on that field alone ----------------------------------------------
    # An `if` that guards the emission of obj.f may test the presence of obj.f; a test that also consults another field of
    # the same IR object (`inv.id != inv.src`) drops the field for some inputs although the engine gives it a meaning of
    # its own (an invoke id equal to its src is still the id done.invoke.<id> / sendTo address).
    n9 = 0
    for f in render_funcs:
        for x in own_nodes(f.node):
            if not isinstance(x, ast.If):
                continue
            emitted = {(y.value.id, y.attr) for st_ in x.body for y in ast.walk(st_) if isinstance(y, ast.Attribute) and isinstance(y.value, ast.Name)}
            tested = {(y.value.id, y.attr) for y in ast.walk(x.test) if isinstance(y, ast.Attribute) and isinstance(y.value, ast.Name)}
            for obj, fld in sorted(emitted & tested):
                others = sorted(a for o, a in tested if o == obj and a != fld and not a.startswith("is_") and a not in ("type", "kind", "path", "key"))
                n9 += 1
                c.ob("R9", not others, f, f"field-rendered-on-its-own-presence:{obj}.{fld}", f"'{obj}.{fld}' is rendered whenever it is present" if not others else
                     f"the rendering of '{obj}.{fld}' in {f.short} also depends on {[obj + '.' + a for a in others]} ('{norm(x.test)}'): for inputs where that extra test fails the "
                     f"field is dropped from the generated code, although the engine treats it as given (and the verification fingerprint does not compare it)", x)
    c.ob("R9", True, "cli.emit", "presence-tests", f"{n9} presence-guarded field emissions examined", None, nontrivial=False)
    # ---- R8 invoke handler lists are rendered completely -------------------------------------------
    # The engine keeps every onDone / onError candidate of an invoke (StateNode._parse_invoke maps the whole
    # list); a renderer on that path must not pick one element of the sequence.
    emit = p.module("cli.emit")
    ri = emit.functions.get("render_invoke")
    c.need(ri, "cli.emit.render_invoke")
    clo = res.closure([ri], None, include_closures=True)
    n8 = 0
    for q, (f, par) in sorted(clo.items()):
        if not f.module.name.startswith("cli"):
            continue
        seq_params = {a.arg for a in f.node.args.args if a.annotation is not None and "TransitionIR" in norm(a.annotation)
                      and any(t in norm(a.annotation) for t in ("Sequence", "Tuple", "List"))}
        for x in own_nodes(f.node):
            if isinstance(x, ast.Subscript) and isinstance(x.ctx, ast.Load) and isinstance(x.slice, ast.Constant) and isinstance(x.slice.value, int):
                base = x.value
                is_seq = (isinstance(base, ast.Name) and base.id in seq_params) or (isinstance(base, ast.Attribute) and base.attr in ("on_done", "on_error"))
                if not is_seq:
                    continue
                n8 += 1
                from sa.util import canon_atom as _ca8
                lt = f"len({norm(base)})"
                single = any(_ca8(a, pol) in (("==", "1", lt, True), ("==", lt, "1", True)) for a, pol in guards_at(f, x) if not isinstance(a, ast.BoolOp))
                c.ob("R8", single, f, f"handler-list-indexed:{norm(base)}",
                     "a single element is picked only when the list has exactly one" if single else
                     f"'{stmt_text(x)}' renders one element of an invoke handler list without a 'len(...) == 1' guard: the engine evaluates every "
                     f"onDone/onError candidate of an invoke, so guarded candidates plus a fallback lose the fallback in generated code "
                     f"(and the verifier compares invokes by src only)", x)
    c.ob("R8", True, ri, "invoke-render-closure", f"{len(clo)} functions on the invoke render path, {n8} constant-index picks examined", ri.node, nontrivial=False)
    # ---- R5 vocabulary agreement ------------------------------------------------------------------
    eng_guard = _config_keys_read([p.cls("GuardDefinition").methods["__init__"]])
    ir_guard = _config_keys_read([ir.functions["parse_guard"]])
    for k in sorted(set(eng_guard) - {"type"}):
        ok = k in ir_guard
        f0, x0, r0 = eng_guard[k][0]
        c.ob("R5", ok, ir.functions["parse_guard"], f"guard-key:{k}", f"guard key '{k}' is read by the engine and by the generator's IR" if ok else
             f"the engine reads guard key '{k}' ({r0}) but cli.ir.parse_guard does not, and there is no catch-all for unknown guard keys: "
             f"operands/params spelled that way are dropped from generated code", x0)
    eng_tr = _config_keys_read([p.cls("TransitionDefinition").methods["__init__"], p.cls("StateNode").methods["_create_transition"]])
    ir_tr = _config_keys_read([ir.functions["parse_transitions"]])
    for k in sorted(set(eng_tr) - {"__forbidden__"}):
        c.ob("R5", k in ir_tr, ir.functions["parse_transitions"], f"transition-key:{k}", f"transition key '{k}' is modelled by the IR" if k in ir_tr else
             f"transition key '{k}' is read by the engine but not by cli.ir.parse_transitions", eng_tr[k][0][1])
    eng_inv = _config_keys_read([p.cls("StateNode").methods["_parse_invoke"], p.cls("InvokeDefinition").methods["__init__"]], lambda r: "config" in r)
    ir_inv = _config_keys_read([ir.functions["parse_invoke"]])
    for k in sorted(set(eng_inv) - {"invoke"}):
        c.ob("R5", k in ir_inv, ir.functions["parse_invoke"], f"invoke-key:{k}", f"invoke key '{k}' is modelled by the IR" if k in ir_inv else
             f"invoke key '{k}' is read by the engine but not by cli.ir.parse_invoke", eng_inv[k][0][1])
    eng_state = _config_keys_read([m for n, m in p.cls("StateNode").methods.items() if n in ("__init__", "_determine_state_type", "_parse_initial", "_parse_on", "_parse_on_done", "_parse_after", "_parse_invoke")],
                                  lambda r: r == "config")
    known = {const_str(x) for x in ast.walk(ir.constants["_KNOWN_STATE_KEYS"]) if const_str(x)}
    ir_state = _config_keys_read([ir.functions["parse_state"], ir.functions["_infer_kind"]], lambda r: r == "config")
    for k in sorted(eng_state):
        if k in known:
            ok = k in ir_state or k in {const_str(x) for x in ast.walk(ir.constants["_IGNORED_STATE_KEYS"]) if const_str(x)}
            c.ob("R5", ok, ir.functions["parse_state"], f"state-key:{k}", f"state key '{k}' is parsed into the IR" if ok else
                 f"state key '{k}' is declared known to the generator but parse_state never reads it: it is silently dropped instead of refused", ir.functions["parse_state"].node)
        else:
            c.ob("R5", True, ir.functions["parse_state"], f"state-key:{k}", f"state key '{k}' is unknown to the generator: reported as unsupported, generation refused", None)
    # logic-name collectors visit the same locations
    ext = p.module("cli.extractor").functions["_traverse_and_extract"]
    ext_keys = set(_config_keys_read([ext], lambda r: r == "node"))
    ll = p.cls("LogicLoader").methods["_extract_logic_from_node"]
    ll_attrs = {x.attr for x in own_nodes(ll.node) if isinstance(x, ast.Attribute) and dotted(x.value) == "node"}
    attr_to_key = {"entry": "entry", "exit": "exit", "on": "on", "after": "after", "on_done": "onDone", "invoke": "invoke", "states": "states"}
    for a, k in sorted(attr_to_key.items()):
        if a not in ll_attrs:
            continue
        ok = k in ext_keys
        c.ob("R5", ok, ext, f"extractor-visits:{k}", f"the CLI extractor visits '{k}' like the engine's LogicLoader" if ok else
             f"LogicLoader collects logic names from StateNode.{a} but the CLI extractor never looks at the '{k}' key: actions/guards used only "
             f"there get no generated stub and the generated project fails with ImplementationMissingError", ext.node)
    # ---- R6 regeneration is deterministic ----------------------------------------------------------
    shared.set_order(ctx, "R6", CLI_MODULES, floor=5, accepted=SETORDER_CLI_ACCEPTED)
    nd = 0
    for f in _cli_funcs(p):
        for x in own_nodes(f.node):
            if isinstance(x, ast.Call):
                t = norm(x.func)
                if any(t.endswith(s) for s in ("datetime.now", "datetime.utcnow", "time.time", "uuid.uuid4", "uuid4", "random.random", "random.choice", "getpid", "date.today", "time.strftime")) \
                        or t == "id" or t.startswith("random."):
                    nd += 1
                    c.ob("R6", False, f, f"nondeterministic-source:{t}", f"'{stmt_text(x)}' in the generator: regenerating from unchanged input would not be byte-identical (--check reports drift)", x)
    c.ob("R6", True, "cli", "no-clock-or-random-source", f"no clock / uuid / random / id() source in {len(_cli_funcs(p))} CLI functions" if nd == 0 else "see above", None)
    if ctx.thorough:
        from . import C17_taint
        C17_taint.run(ctx)


SETORDER_CLI_ACCEPTED = {
    ("_build_generated", "for-effects"): "pops distinct module names from sys.modules; the pops commute and nothing is emitted",
}
IR_FIELD_ACCEPTED = {
    "TransitionIR.internal": "the engine's TransitionDefinition does not read 'internal' either; the parser folds the v4 key into reenter",
}


def _field_elem_type(ir_mod, field):
    """IR class name that a field named *field* holds (Tuple[X, ...] / Optional[X]) in any IR dataclass."""
    for cls in ir_mod.classes.values():
        for s in cls.node.body:
            if isinstance(s, ast.AnnAssign) and isinstance(s.target, ast.Name) and s.target.id == field:
                t = norm(s.annotation)
                for cn in ("GuardIR", "ActionIR", "TransitionIR", "InvokeIR", "StateIR"):
                    if cn in t:
                        return cn
    return None


def _fingerprint_reads(fp_funcs):
    """attribute names read per model class, typed by how the receiver variable is bound."""
    binder = {"entry": "ActionDefinition", "exit": "ActionDefinition", "actions": "ActionDefinition",
              "invoke": "InvokeDefinition", "on_done": "TransitionDefinition", "transitions": "TransitionDefinition"}
    out = {}
    for f in fp_funcs:
        var_type = {}
        for a in f.node.args.args:
            if a.arg in ("node", "expected", "actual"):
                var_type[a.arg] = "StateNode"
            if a.arg in ("trans", "transition", "t"):
                var_type[a.arg] = "TransitionDefinition"
        for x in own_nodes(f.node):
            gens = x.generators if isinstance(x, (ast.ListComp, ast.GeneratorExp, ast.SetComp, ast.DictComp)) else []
            for gen in gens:
                if isinstance(gen.target, ast.Name):
                    it = gen.iter
                    name = it.attr if isinstance(it, ast.Attribute) else (it.id if isinstance(it, ast.Name) else None)
                    if name in binder:
                        var_type[gen.target.id] = binder[name]
        for x in own_nodes(f.node):
            if isinstance(x, ast.Attribute) and isinstance(x.value, ast.Name) and x.value.id in var_type:
                out.setdefault(var_type[x.value.id], set()).add(x.attr)
    # the `guard` property of a transition exposes only guard_def.type
    if "guard" in out.get("TransitionDefinition", set()):
        out.setdefault("GuardDefinition", set()).add("type")
    return out


def _guard_key_gaps(p, ir):
    eng = _config_keys_read([p.cls("GuardDefinition").methods["__init__"]])
    mine = _config_keys_read([ir.functions["parse_guard"]])
    return sorted(set(eng) - set(mine) - {"type"})
