"""C05 - sync / async / pure engines agree: structural clauses (twin agreement F4 + probe rules)."""
import ast

from sa.effects import attr_writes
from sa.program import dotted, norm, own_nodes, const_str
from sa.twin import compare, extract
from sa.util import self_calls_in, stmt_text
from . import shared
from .roles import CONFIG_ATTR, VIEWS, roles

RENAMES = {"_execute_transition_sync": "_execute_transition", "_process_single_transition": "_execute_transition",
           "_process_transient_transitions": "_settle_transient_transitions",
           "_resolve_target_state_robustly": "_resolve_target_state_node"}

# (pair, construct) -> reason.  Differences between the two engines that do not change any observable C05 compares.
ACCEPTED = {
    ("enter", "self._schedule_state_tasks:guards"):
        "sync arms a state's tasks after descending into its children (two call sites on disjoint paths), async before; "
        "once-per-entered-state is decided by C09.R1; sync services complete at entry in both orders",
    ("enter", "self._schedule_state_tasks:only-b"):
        "second sync call site of the same operation on the explicit-child path (C09.R1 shows the two sites are on disjoint paths)",
    ("executor", "-None is self._resolve_target_state_node(P_transition):ambient-guard-a"):
        "the async resolver returns None and the executor raises StateNotFoundError; the sync resolver raises it itself",
    ("executor", "raise:StateNotFoundError:only-a"):
        "same: the sync twin's resolver raises StateNotFoundError (checked: C05.R1 resolver-raises)",
    ("actions", "self._is_async_callable:only-b"):
        "the sync engine refuses coroutine actions (documented NotSupportedError)",
    ("actions", "raise:NotSupportedError:only-b"):
        "the sync engine refuses coroutine actions (documented NotSupportedError)",
    ("actions", "hook:on_action_error:guards"):
        "extra guard is the sync-only 'not an async callable' test",
    ("actions", "return:guards"):
        "extra guard is the sync-only 'not an async callable' test",
    ("done", "self._deliver:only-a"):
        "async routes the done.state event through _deliver(self, ...) so the raise-chain breaker counts it; with no delay _deliver "
        "is exactly send(); the sync engine's bound is the drain-loop counter (C13.R3)",
    ("done", "self.send:only-b"):
        "see above: same event, plain send() in the sync twin",
}


# content conditions of accepted differences: the table entry applies only while the difference still has this shape
ACCEPTED_IF = {
    ("enter", "self._schedule_state_tasks:guards"):
        lambda d: d.a is not None and d.a.guards == () and d.b is not None and all("P_states_to_enter" in g for g in d.b.guards),
    ("enter", "self._schedule_state_tasks:only-b"):
        lambda d: d.b is not None and any(g.startswith("+") and " in {" in g for g in d.b.guards),
    ("actions", "hook:on_action_error:guards"):
        lambda d: set(d.b.guards) - set(d.a.guards) <= {g for g in d.b.guards if "_is_async_callable" in g} and not (set(d.a.guards) - set(d.b.guards)),
    ("actions", "return:guards"):
        lambda d: set(d.b.guards) - set(d.a.guards) <= {g for g in d.b.guards if "_is_async_callable" in g} and not (set(d.a.guards) - set(d.b.guards)),
    ("done", "self._deliver:only-a"):
        lambda d: d.a is not None and d.a.args[:1] == ("self",) and "DoneEvent" in d.a.args[1] and d.a.args[2:] == ("None", "None"),
    ("done", "self.send:only-b"):
        lambda d: d.b is not None and "DoneEvent" in d.b.args[0],
}


def _pairs(ctx):
    p = ctx.p
    B, I, S = "base_interpreter:BaseInterpreter.", "interpreter:Interpreter.", "sync_interpreter:SyncInterpreter."
    ra, rs = roles(ctx, "Interpreter"), roles(ctx, "SyncInterpreter")
    sync_inline = {}
    if rs.dispatch.qualname != rs.executor.qualname:
        sync_inline = {rs.executor.name: rs.executor}
    async_builtin_inline = {}
    for name in ("_stop_child_actor", "_spawn_child_action"):
        f = p.cls("Interpreter").methods.get(name)
        if f is not None and len(ctx.r.callers_of(f, "Interpreter", ra.funcs)) == 1:
            async_builtin_inline[name] = f
    return [
        ("enter", ra.enter, rs.enter, None, None),
        ("exit", ra.exit, rs.exit, None, None),
        ("done", ra.done_check, rs.done_check, None, None),
        ("actions", ra.execute_actions, rs.execute_actions, None, None),
        ("builtin", ra.builtin, rs.builtin, async_builtin_inline, None),
        ("process", ra.process_event, rs.process_event, None, None),
        ("executor", ra.dispatch, rs.dispatch, None, sync_inline),
        ("settle", ra.settle, rs.settle, None, None),
    ]


def _auto_inline(ctx, view, f, given):
    """Private helpers called from *f* that have exactly one call site in the view and a small body are
    spliced into the caller's records (a behaviour-preserving 'extract method' must not look like a difference)."""
    out = dict(given or {})
    r = roles(ctx, view)
    role_names = {x.name for x in r.processing.values()} | {"_execute_actions", "_execute_builtin_action", "_schedule_state_tasks",
                                                            "_cancel_state_tasks", "_record_history", "_deliver", "_spawn_actor",
                                                            "_notify_subscribers", "_complete", "_fail", "send"}
    for s in ctx.r.callsites(f, view):
        if s.recv != "self" or len(s.targets) != 1:
            continue
        t = s.targets[0]
        if not t.name.startswith("_") or t.name.startswith("__") or t.name in role_names or t.name in out or t.cls is None:
            continue
        # size by the number of statements at any depth (the number of *top-level* statements changes when a guard clause becomes an if/else)
        if sum(1 for x in ast.walk(t.node) if isinstance(x, ast.stmt)) - 1 > 30:
            continue
        other = "SyncInterpreter" if view == "Interpreter" else "Interpreter"
        shared_with_twin = any(x.qualname == t.qualname for x in roles(ctx, other).funcs) and \
            len(ctx.r.callers_of(t, other, roles(ctx, other).funcs)) > 0
        if len(ctx.r.callers_of(t, view, r.funcs)) == 1 and not shared_with_twin:
            out[t.name] = t
    return out


def run(ctx):
    c, p, res = ctx.c, ctx.p, ctx.r
    # ---- R7 the engines and the pure API never mutate the machine definition, an action's params or the caller's event / snapshot ----
    shared.definition_is_read_only(ctx, "R7", ("base_interpreter", "interpreter", "sync_interpreter", "helpers"),
                                   "the second execution of that action / second spawn / second transition() on the same definition behaves differently from the first, and the three engines stop agreeing")
    # ---- R1 twin agreement ----------------------------------------------------------------
    total = 0
    for name, fa, fs, ia, ib in _pairs(ctx):
        ia = _auto_inline(ctx, "Interpreter", fa, ia)
        ib = _auto_inline(ctx, "SyncInterpreter", fs, ib)
        A = extract(p, fa, RENAMES, ia)
        Bs = extract(p, fs, RENAMES, ib)
        total += len(A) + len(Bs)
        c.consult(fa, fs)
        c.floor("R1", f"operation records of twin pair '{name}'", min(len(A), len(Bs)), 2)
        diffs = compare(A, Bs)
        if not diffs:
            c.ob("R1", True, fs, f"{name}:agree", f"{fa.short} and {fs.short}: {len(A)} / {len(Bs)} operation records agree (operations, arguments, guards, loops)", fs.node)
        counts = {}
        for d in diffs:
            base_c = d.construct
            k = counts.get(base_c, 0)
            counts[base_c] = k + 1
            construct = base_c if k == 0 else f"{base_c}#{k + 1}"
            key = (name, construct)
            r = d.b or d.a
            line_node = type("L", (), {"lineno": r.line})()
            if key in ACCEPTED and ACCEPTED_IF.get(key, lambda d_: True)(d):
                c.ob("R1", True, fs, f"{name}:{construct}", f"accepted difference: {ACCEPTED[key]}", line_node, nontrivial=False)
                continue
            c.ob("R1", False, fs, f"{name}:{construct}", _describe(name, fa, fs, d), line_node)
    c.floor("R1", "operation records over all twin pairs", total, 150)
    # overrides of base-only algorithms must equal the base
    base = p.cls("BaseInterpreter")
    for mname in ("_find_transition_domain", "_compute_states_to_exit", "_get_path_to_state", "_record_history", "_resolve_history_target",
                  "_is_state_done", "_select_transitions", "_collect_eligible_transitions", "_is_guard_satisfied", "_matching_descriptors",
                  "_collect_builtin_followups", "_apply_assign", "_schedule_state_tasks", "_resolve_actor_target", "_complete", "_fail"):
        bf = c.need(base.methods.get(mname), f"BaseInterpreter.{mname}")
        for v in VIEWS:
            vf = p.method(v, mname)
            same = vf.qualname == bf.qualname or shared.normalised_body(vf) == shared.normalised_body(bf)
            c.ob("R1", same, vf, f"shared:{mname}", f"{v} uses the base implementation of {mname}" if same else
                 f"{vf.short} overrides {mname} with a different body: the engines no longer share this part of the algorithm", vf.node)
    rs = roles(ctx, "SyncInterpreter")
    tr = p.method("SyncInterpreter", "_resolve_target_state_robustly")
    ok = any(isinstance(x, ast.Raise) and "StateNotFoundError" in norm(x.exc) for x in own_nodes(tr.node))
    c.ob("R1", ok, tr, "resolver-raises", "the sync resolver raises StateNotFoundError for an unresolvable target" if ok else
         "the sync resolver no longer raises StateNotFoundError (the accepted executor difference relies on it)", tr.node)
    # both engines settle eventless transitions at start
    for v in VIEWS:
        r = roles(ctx, v)
        ok = bool(self_calls_in(r.start, r.settle.name))
        c.ob("R1", ok, r.start, f"{v}:start-settles", "start() settles always-transitions after the initial entry" if ok else
             f"{r.start.short} does not settle always-transitions after the initial entry (the other engine does)", r.start.node)
    # the initial entry must receive the same event in both engines
    ev = {}
    for v in VIEWS:
        r = roles(ctx, v)
        for call in self_calls_in(r.start, "_enter_states"):
            ev[v] = norm(call.args[1]) if len(call.args) > 1 else None
    ok = (ev.get("Interpreter") is None) == (ev.get("SyncInterpreter") is None)
    c.ob("R1", ok, roles(ctx, "SyncInterpreter").start, "start:init-event",
         "both engines pass (or both omit) an init event to the initial entry" if ok else
         f"initial entry: async passes '{ev.get('Interpreter')}', sync passes none (entry actions then see 'entry.<id>' events): "
         f"the recorded (action, event) trace of start() differs between the engines", roles(ctx, "SyncInterpreter").start.node)
    # ---- R2 the probe never starts anything / runs no user code -------------------------------
    pr = p.cls("_Probe")
    v = "_Probe"
    clo = res.self_closure([p.method(v, "start"), p.method(v, "send")], v)
    c.floor("R2", "functions reachable from the probe's start/send", len(clo), 20)
    forbidden_calls = ("_after_timer", "_invoke_service", "_spawn_actor", "_deliver")
    n2 = 0
    for q, f in sorted(clo.items()):
        for s in res.callsites(f, v):
            t = s.callee_text
            bad = None
            if any(t.endswith("." + x) or t == x for x in forbidden_calls) and s.recv in ("self", "name"):
                bad = f"{t}()"
            if t in ("threading.Thread", "asyncio.create_task", "time.sleep"):
                bad = f"{t}()"
            if s.kind == "dynamic" and f.name not in ("_apply_assign", "_resolve_params", "_notify_subscribers", "_guarded", "_call_with_optional_params",
                                                      "_resolve_output", "_resolve_output_value", "_complete", "_fail", "_emit"):
                bad = f"a computed callable '{t}()'"
            n2 += 1
            if bad:
                c.ob("R2", False, f, f"probe-reaches:{t}", f"the pure API reaches {bad} in {f.short}: it would start a timer/service/actor or run user code", s.call)
    ov = {m for m in pr.methods}
    ok = {"_execute_actions", "_schedule_state_tasks"} <= ov
    c.ob("R2", ok, pr.methods.get("_execute_actions") or pr.enclosing_func, "probe-overrides", "the probe overrides action execution and task arming" if ok else
         "the probe no longer overrides both _execute_actions and _schedule_state_tasks", pr.node)
    st = pr.methods.get("_schedule_state_tasks")
    if st is not None:
        body = [s for s in st.node.body if not (isinstance(s, ast.Expr) and isinstance(s.value, ast.Constant))]
        ok = all(isinstance(s, (ast.Return, ast.Pass)) for s in body)
        c.ob("R2", ok, st, "probe-arms-nothing", "the probe's task arming is a no-op" if ok else "the probe's _schedule_state_tasks does something", st.node)
    c.ob("R2", True, pr.enclosing_func, "probe-closure-clean", f"{n2} call sites in the probe's start/send closure examined", None, nontrivial=False)
    # ---- R3 the probe's action interpreter handles every built-in that changes configuration/context ---
    pe = pr.methods["_execute_actions"]
    handled = set()
    for x in own_nodes(pe.node):
        if isinstance(x, ast.Compare) and "resolve_builtin" in norm(x.left):
            for cmp_ in x.comparators:
                handled.add(norm(cmp_))
    need = {"ASSIGN": "changes context", "RAISE": "queues an event that can change the configuration",
            "PURE": "expands to further actions", "CHOOSE": "expands to further actions", "ENQUEUE_ACTIONS": "expands to further actions"}
    for b, why in need.items():
        ok = b in handled
        c.ob("R3", ok, pe, f"probe-interprets:{b}", f"the probe interprets {b}" if ok else
             f"the pure API records {b} actions but does not interpret them ({why}): initial_transition/transition diverge from both "
             f"interpreters on machines that use it", pe.node)
    # ---- R6 the probe contains failing action callbacks like the engines do ------------------------
    from sa.contain import containment
    from .roles import view_funcs
    puniv = view_funcs(ctx, "_Probe")
    n6 = 0
    for f in (p.method("_Probe", "_apply_assign"), p.method("_Probe", "_resolve_params")):
        for s_ in res.callsites(f, "_Probe"):
            if s_.kind != "dynamic":
                continue
            outs = containment(res, "_Probe", f, s_.call, puniv, depth=6, stop_at={pe.qualname})
            for o in outs:
                if pe.short not in o.chain:
                    continue            # reached through guards / other paths: not the probe's action interpreter
                n6 += 1
                ok = o.kind == "contained"
                c.ob("R6", ok, f, f"probe-contains:{s_.callee_text}@{f.name}",
                     "a raising callback is contained as in the interpreters" if ok else
                     f"an exception from {s_.callee_text}() (assign callback / params) escapes {' <- '.join(o.chain)}: both interpreters contain it "
                     f"(the action list is cut short, the transition completes) while initial_transition()/transition() raise", s_.call, path=list(o.chain))
    c.floor("R6", "user callbacks under the probe's action interpreter", n6, 2)
    # ---- R4 PureSnapshot captures every behaviour-relevant attribute -----------------------------
    ps = p.cls("PureSnapshot")
    slots = {const_str(x) for x in ast.walk(ps.class_attrs.get("__slots__", ast.Tuple(elts=[]))) if const_str(x)}
    cap = p.func("helpers:_capture")
    captured = {x.attr for x in own_nodes(cap.node) if isinstance(x, ast.Attribute) and dotted(x.value) == "probe"}
    tr_f = p.func("helpers:transition")
    restored = {w.attr for w in attr_writes(tr_f) if w.base == "probe"} | {w.attr for w in attr_writes(p.func("helpers:_build_probe")) if w.base == "probe"}
    semantic = {"context": "context", "status": "status", CONFIG_ATTR: "configuration", "output": "output", "_history": "history"}
    for attr, what in semantic.items():
        ok = attr in captured and (attr in restored or attr == "output")
        c.ob("R4", ok, cap, f"pure-snapshot:{attr}", f"{what} is captured into and restored from PureSnapshot" if ok else
             f"PureSnapshot{sorted(slots)} does not carry the interpreter's {attr} ({what}): transition() starts from an interpreter that has "
             f"forgotten it, so history targets resolve differently from both interpreters", cap.node)
    # ---- R5 purity: deep copies, no write to the definition -----------------------------------------
    dc = [x for x in own_nodes(cap.node) if isinstance(x, ast.Call) and norm(x.func) == "copy.deepcopy" and "context" in norm(x.args[0])]
    c.ob("R5", bool(dc), cap, "capture-deepcopies-context", "_capture deep-copies the context" if dc else
         "_capture returns the probe's live context: snapshots returned by the pure API alias each other", cap.node)
    bp = p.func("helpers:_build_probe")
    dc = [x for x in own_nodes(bp.node) if isinstance(x, ast.Call) and norm(x.func) == "copy.deepcopy" and "snapshot.context" in norm(x.args[0])]
    c.ob("R5", bool(dc), bp, "probe-deepcopies-incoming-context", "_build_probe deep-copies the incoming snapshot's context" if dc else
         "_build_probe uses the caller's snapshot context directly: transition() mutates the snapshot passed in", bp.node)
    for f in (cap, bp, tr_f, p.func("helpers:initial_transition")):
        w = [x for x in attr_writes(f) if x.base in ("machine", "snapshot")]
        c.ob("R5", not w, f, "no-write-to-definition-or-snapshot", "no write to the machine definition or the incoming snapshot" if not w else
             f"'{stmt_text(w[0].node)}' writes to the machine definition / incoming snapshot", f.node)
    c.note("C05.R5 observation (unarmed): target resolution assigns transition.target_str = tgt on the shared definition (idempotent: the "
           "re-spelled target resolves to the same state)")


def _describe(name, fa, fs, d):
    if d.kind.startswith("ambient-guard"):
        who = fa.short if d.kind.endswith("-a") else fs.short
        return f"twin '{name}': {who} runs part of the algorithm under the extra condition '{d.op}' that its twin never tests"
    if d.kind == "only-a":
        return (f"twin '{name}': {fa.short} performs {d.a.op}({', '.join(x[:50] for x in d.a.args)}) [guards {list(d.a.guards)[-2:]}] "
                f"but {fs.short} has no counterpart: the engines diverge on this step")
    if d.kind == "only-b":
        return (f"twin '{name}': {fs.short} performs {d.b.op}({', '.join(x[:50] for x in d.b.args)}) [guards {list(d.b.guards)[-2:]}] "
                f"but {fa.short} has no counterpart: the engines diverge on this step")
    if d.kind == "args":
        diffs = [(x, y) for x, y in zip(d.a.args, d.b.args) if x != y]
        if len(d.a.args) != len(d.b.args):
            return (f"twin '{name}': {d.op} is called with {len(d.a.args)} argument(s) in {fa.short} ({[x[:60] for x in d.a.args]}) but "
                    f"{len(d.b.args)} in {fs.short} ({[x[:60] for x in d.b.args]})")
        x, y = diffs[0]
        return f"twin '{name}': argument of {d.op} differs: {fa.short} passes '{x[:90]}', {fs.short} passes '{y[:90]}'"
    if d.kind == "guards":
        ga, gb = set(d.a.guards), set(d.b.guards)
        return (f"twin '{name}': {d.op} runs under different conditions: only in {fa.short}: {sorted(ga - gb)}; only in {fs.short}: {sorted(gb - ga)}")
    return f"twin '{name}': {d.op} sits in a different loop context: {d.a.loops} vs {d.b.loops}"
