"""C15 - actors: structural clauses."""
import ast

from sa.cfg import cfg_of
from sa.effects import attr_writes
from sa.program import dotted, norm, own_nodes, const_str
from sa.util import (assignments_to, cfg_node_of, compare_parts, guards_at, self_calls_in, stmt_text, ancestors)
from . import shared
from .roles import VIEWS, roles


def run(ctx):
    c, p, res = ctx.c, ctx.p, ctx.r
    am = p.module("actions")
    consts = {k: const_str(v) for k, v in am.constants.items() if const_str(v) and const_str(v).startswith("xstate.")}
    c.floor("R1", "built-in action constants", len(consts), 10)
    aliases = am.constants.get("BUILTIN_ACTION_ALIASES")
    c.need(isinstance(aliases, ast.Dict), "actions.BUILTIN_ACTION_ALIASES dict literal")
    c.floor("R1", "built-in aliases", len(aliases.keys), 30)
    for k, v in zip(aliases.keys, aliases.values):
        ok = isinstance(v, ast.Name) and v.id in consts
        c.ob("R1", ok, "actions:BUILTIN_ACTION_ALIASES", f"alias:{const_str(k)}", "alias maps to a defined built-in constant" if ok else
             f"alias {const_str(k)!r} maps to '{norm(v)}' which is not one of the built-in constants", v)
        # the canonical name itself is an alias too
    canon_vals = set(consts.values())
    alias_keys = {const_str(k) for k in aliases.keys}
    for name, val in sorted(consts.items()):
        c.ob("R1", val in alias_keys, "actions:BUILTIN_ACTION_ALIASES", f"canonical-is-alias:{name}", "canonical spelling resolves to itself" if val in alias_keys else
             f"canonical built-in '{val}' is not a key of the alias table: resolve_builtin() would not recognise it", aliases)
    cf = p.method("BaseInterpreter", "_collect_builtin_followups")
    for v in VIEWS:
        b = roles(ctx, v).builtin
        handled = set()
        for f in (cf, b):
            for x in own_nodes(f.node):
                cp = compare_parts(x)
                if cp and isinstance(cp[0], ast.Name) and cp[0].id == "canonical" and isinstance(cp[2], ast.Name):
                    handled.add(cp[2].id)
        for name in sorted(consts):
            ok = name in handled
            c.ob("R1", ok, b, f"{v}:handler:{name}", "built-in has a handler branch" if ok else
                 f"built-in action {name} ({consts[name]}) has no 'canonical == {name}' branch under {v}: it is accepted as built-in and silently does nothing", b.node)
    # user action wins over a built-in of the same name (also C19.R3)
    # ---- R3 service-key derivation only through spawn_service_key ----------------------
    n = 0
    for f in p.all_funcs:
        if f.module.name.startswith("cli"):
            continue
        if f.qualname == "models:spawn_service_key":
            continue
        for x in own_nodes(f.node):
            strip = None
            if isinstance(x, ast.Call) and isinstance(x.func, ast.Attribute) and x.func.attr in ("removeprefix", "replace", "lstrip", "split", "partition") \
                    and x.args and ("spawn_" in norm(x.args[0]) or "SPAWN_" in norm(x.args[0])):
                strip = x
            if isinstance(x, ast.Subscript) and isinstance(x.slice, ast.Slice) and x.slice.lower is not None and \
                    ("spawn" in norm(x.slice.lower).lower() or (isinstance(x.slice.lower, ast.Constant) and x.slice.lower.value in (6, 15) and "type" in norm(x.value))):
                strip = x
            if strip is not None:
                n += 1
                c.ob("R3", False, f, "ad-hoc-spawn-prefix-strip",
                     f"'{stmt_text(strip)}' derives a service key from a spawn_ action name without spawn_service_key(): the two prefixes "
                     f"(spawn_ / spawn_blocking_) are handled in one place only", strip)
    users = [s for f in p.all_funcs for s in res.callsites(f, None) if s.callee_text.endswith("spawn_service_key")]
    c.floor("R3", "callers of spawn_service_key", len(users), 3)
    c.ob("R3", True, "models:spawn_service_key", "single-derivation", f"{len(users)} call sites derive the service key through spawn_service_key; no ad-hoc prefix stripping found", None)
    for v in VIEWS:
        sp = p.method(v, "_spawn_actor")
        ok = bool([s for s in res.callsites(sp, v) if s.callee_text.endswith("spawn_service_key")])
        c.ob("R3", ok, sp, "spawn-uses-service-key", "_spawn_actor derives the services key with spawn_service_key" if ok else
             "_spawn_actor no longer uses spawn_service_key", sp.node)
    # ---- R4 stop-child: unregister before stopping ---------------------------------------
    for v in VIEWS:
        r = roles(ctx, v)
        holder = None
        for f in r.funcs:
            if any(isinstance(x, ast.Call) and isinstance(x.func, ast.Attribute) and x.func.attr == "stop" and dotted(x.func.value) == "actor"
                   for x in own_nodes(f.node)) and f.name in ("_stop_child_actor", "_execute_builtin_action"):
                holder = f
        c.need(holder, f"stop-child implementation ({v})")
        g = cfg_of(holder.node)
        stop_calls = [x for x in own_nodes(holder.node) if isinstance(x, ast.Call) and isinstance(x.func, ast.Attribute) and x.func.attr == "stop"
                      and dotted(x.func.value) == "actor"]
        stop_nodes = [n for x in stop_calls for n in cfg_node_of(holder, x)]
        dels = {}
        for x in own_nodes(holder.node):
            if isinstance(x, ast.Delete):
                for t in x.targets:
                    if isinstance(t, ast.Subscript):
                        dels.setdefault(norm(t.value), []).extend(g.nodes_of(x))
            if isinstance(x, ast.Call) and isinstance(x.func, ast.Attribute) and x.func.attr == "pop" and "_actor_sources" in norm(x.func.value):
                dels.setdefault("self._actor_sources", []).extend(cfg_node_of(holder, x))
        # wrapper-aware: a helper called on the child (or on self) whose own body performs the removal counts as it
        for x in own_nodes(holder.node):
            if not (isinstance(x, ast.Call) and isinstance(x.func, ast.Attribute) and dotted(x.func.value) in ("actor", "self")):
                continue
            try:
                t = p.method(v, x.func.attr)
            except Exception:
                t = None
            if t is None or t is holder:
                continue
            for y in own_nodes(t.node):
                tgt = None
                if isinstance(y, ast.Delete):
                    tgt = next((z.value for z in y.targets if isinstance(z, ast.Subscript)), None)
                elif isinstance(y, ast.Call) and isinstance(y.func, ast.Attribute) and y.func.attr in ("pop", "clear"):
                    tgt = y.func.value
                if tgt is None:
                    continue
                if shared._is_registry_expr(t, tgt):
                    dels.setdefault("registry", []).extend(cfg_node_of(holder, x))
                elif norm(tgt) in ("self._actors", "self._actor_sources") and dotted(x.func.value) == "self":
                    dels.setdefault(norm(tgt), []).extend(cfg_node_of(holder, x))
        for cont in ("self._actors", "self._actor_sources", "registry"):
            nodes = dels.get(cont, [])
            ok = bool(nodes) and not any(g.can_reach(s, d, follow_exc=False) for s in stop_nodes for d in nodes) and \
                all(any(g.can_reach(d, s, follow_exc=False) for d in nodes) for s in stop_nodes)
            c.ob("R4", ok, holder, f"{v}:unregister-before-stop:{cont}", f"the child is removed from {cont} before it is stopped" if ok else
                 f"stopChild does not remove the child from {cont} before stopping it: a stopped child stays addressable / keeps receiving", stop_calls[0])
        # as a fact: every stop of the resolved actor runs only where the target did resolve (guard clause, if/else - either spelling)
        from sa.util import canon_atom as _ca4
        def _not_none(call):
            for a_, pol_ in guards_at(holder, call):
                t_ = _ca4(a_, pol_)
                if t_[0] == "is" and "None" in (t_[1], t_[2]) and t_[3] is False:
                    return True
                if t_[0] == "truthy" and t_[3] is True and t_[1] in ("actor", "child", "target"):
                    return True
            return False
        warn = bool(stop_calls) and all(_not_none(x) for x in stop_calls)
        c.ob("R4", bool(warn), holder, f"{v}:unresolved-target-dropped", "an unresolved stopChild target is dropped" if warn else
             "stopChild no longer returns when its target does not resolve", holder.node)
    # ---- R8 unresolved / ambiguous targets are dropped -------------------------------------
    rt = p.method("BaseInterpreter", "_resolve_actor_target")
    from sa.util import canon_atom
    from sa.cfg import split_atoms
    from sa.util import expand_names as _en
    amb = [(x, canon_atom(_en(rt, x.test))) for x in own_nodes(rt.node) if isinstance(x, ast.If)]
    amb = [(x, t) for x, t in amb if t[0] in (">", ">=") and t[1].startswith("len(")]
    ok = any(t[3] is True and t[2] == ("1" if t[0] == ">" else "2") and
             any(isinstance(s_, ast.Return) and (s_.value is None or (isinstance(s_.value, ast.Constant) and s_.value.value is None)) for s_ in x.body) for x, t in amb)
    c.ob("R8", ok, rt, "ambiguous-target-resolves-to-none", "an address matching several children resolves to no actor (the send is dropped with a warning)" if ok else
         "an ambiguous address no longer resolves to None: the message goes to an arbitrary one of the matching children", rt.node)
    # ---- R11 a delayed send waits out its delay, is then delivered, and only a cancellation prevents that --------
    # ---- R12 a finished delayed send removes its own canceller only (the id may have been re-used) -----------------
    for v in VIEWS:
        d = roles(ctx, v).deliver
        dparam = d.params[3] if len(d.params) > 3 else "delay"
        workers = [n_ for n_ in d.nested.values() if any(isinstance(x, ast.Call) and isinstance(x.func, ast.Attribute) and x.func.attr in ("sleep", "wait")
                                                        and any(dparam in norm(a_) for a_ in x.args) for x in own_nodes(n_.node))]
        if not c.expect("R11", f"delayed-delivery worker in {d.short}", len(workers), 1, d,
                        f"{d.short} has no nested worker that waits for the delay any more: a delayed send is delivered at once (or never)"):
            continue
        w = workers[0]
        g = cfg_of(w.node)
        waits = [x for x in own_nodes(w.node) if isinstance(x, ast.Call) and isinstance(x.func, ast.Attribute) and x.func.attr in ("sleep", "wait")
                 and any(dparam in norm(a_) for a_ in x.args)]
        sends = [x for x in own_nodes(w.node) if isinstance(x, ast.Call) and isinstance(x.func, ast.Attribute) and x.func.attr in ("send", "_send_to_actor")
                 and any(norm(a_) == d.params[2] for a_ in x.args)]
        if c.expect("R11", f"delivery call in {w.short}", len(sends), 1, w, f"{w.short} no longer delivers the event after the delay: a delayed send is silently lost"):
            wn = [i for x in waits for i in cfg_node_of(w, x)]
            ok = all(g.always_before(wn, i, follow_exc=False) for x in sends for i in cfg_node_of(w, x))
            c.ob("R11", ok, w, f"{v}:wait-before-delivery", "the delivery happens only after the wait for the delay" if ok else
                 "the delivery is reachable without waiting for the delay", sends[0])
            for x in sends:
                at = guards_at(w, x)
                consts = [a for a, pol in at if isinstance(a, ast.Constant)]
                cancel_tests = [(a, pol) for a, pol in at if isinstance(a, ast.Call) and isinstance(a.func, ast.Attribute) and a.func.attr == "wait"]
                ok = not consts and all(not pol for a, pol in cancel_tests)
                c.ob("R11", ok, w, f"{v}:delivered-unless-cancelled", "the event is delivered exactly when the wait was not cut short by a cancellation" if ok else
                     f"the delivery is guarded by {[('' if pol else 'not ') + norm(a) for a, pol in at]}: a send that was not cancelled is not delivered "
                     f"(or a cancelled one is)", x)
        started = any(isinstance(x, ast.Call) and ((norm(x.func) in ("asyncio.create_task",) and w.name in norm(x)) or
                                                   (isinstance(x.func, ast.Attribute) and x.func.attr == "start")) for x in own_nodes(d.node)) and \
            any(w.name in norm(x) for x in own_nodes(d.node) if isinstance(x, ast.Call) and (norm(x.func) == "asyncio.create_task" or norm(x.func) == "threading.Thread"))
        c.ob("R11", started, d, f"{v}:worker-started", "the worker is started" if started else
             f"the delayed-delivery worker {w.name} is never started: a delayed send is silently lost", d.node)
        # R12: the registry entry is removed only if it is still this send's canceller
        pops = [x for x in own_nodes(w.node) if isinstance(x, ast.Call) and isinstance(x.func, ast.Attribute) and x.func.attr == "pop" and "_scheduled_sends" in norm(x.func.value)]
        for x in pops:
            at = [canon_atom(a, pol) for a, pol in guards_at(w, x)]
            ident = any(t[0] == "is" and t[3] is True and any("_scheduled_sends.get(" in z for z in (t[1], t[2])) for t in at)
            # (being past the cancellation test is not enough: the id can be re-used between the wait timing out and this clean-up)
            ok = ident
            c.ob("R12", ok, w, f"{v}:own-canceller-only", "a finished send removes the canceller registered under its id only if it is still its own" if ok else
                 f"'{norm(x)}' is not guarded by 'the registered canceller is this send's own' (guards: {at}): a newer send that re-used the id loses its "
                 f"canceller and cancel(id) can no longer prevent it", x)
    # ---- R10 exactly the addressed actor: an actor is handed out only under a positive, simple test of the address ----
    spec = rt.params[1] if len(rt.params) > 1 else "spec"
    n10 = 0
    for r_ in own_nodes(rt.node):
        if not (isinstance(r_, ast.Return) and r_.value is not None) or (isinstance(r_.value, ast.Constant) and r_.value.value is None):
            continue
        if norm(r_.value) == spec:
            continue                                  # the address already is an interpreter
        n10 += 1
        atoms = guards_at(rt, r_)
        simple = [canon_atom(a, pol) for a, pol in atoms if isinstance(a, (ast.Compare, ast.Call, ast.Name, ast.Attribute)) or
                  (isinstance(a, ast.UnaryOp) and isinstance(a.op, ast.Not))]
        consts = [a for a, pol in atoms if isinstance(a, ast.Constant)]
        if isinstance(r_.value, ast.Subscript) and isinstance(r_.value.value, ast.Name) and isinstance(r_.value.slice, ast.Constant):
            ml = r_.value.value.id                # a member of a candidate list, whatever the list is called
            ok = ("==", "1", f"len({ml})", True) in simple or ("==", f"len({ml})", "1", True) in simple
            why = "a member of the candidate list is returned only when the list has exactly one element"
        else:
            ok = any(t[3] is True and t[0] in ("in", "==", "is") and spec in (t[1].split(".")[0], t[2].split(".")[0], t[1], t[2]) for t in simple)
            why = "the returned actor is tied to the address by a positive membership / equality test"
            # or it was looked up under the address itself:  actor = registry.get(spec); if actor is not None: return actor
            if not ok and isinstance(r_.value, ast.Name):
                for a_ in assignments_to(rt, r_.value.id):
                    v_ = getattr(a_, "value", None)
                    keyed = (isinstance(v_, ast.Call) and isinstance(v_.func, ast.Attribute) and v_.func.attr == "get" and v_.args and norm(v_.args[0]) == spec) or \
                        (isinstance(v_, ast.Subscript) and norm(v_.slice) == spec)
                    if keyed and any(t in (("is", "None", r_.value.id, False), ("is", r_.value.id, "None", False), ("truthy", r_.value.id, "", True)) for t in simple):
                        ok = True
                        why = "the returned actor was looked up under the address and is present"
            # or its key was looked up under the address by a helper:  key = self._find_key(spec); if key is not None: return self._actors[key]
            if not ok and isinstance(r_.value, ast.Subscript) and isinstance(r_.value.slice, ast.Name):
                kn = r_.value.slice.id
                for a_ in assignments_to(rt, kn):
                    v_ = getattr(a_, "value", None)
                    if isinstance(v_, ast.Call) and any(norm(z) == spec for z in v_.args) and \
                            any(t in (("is", "None", kn, False), ("is", kn, "None", False)) for t in simple):
                        h_ = None
                        if isinstance(v_.func, ast.Attribute) and dotted(v_.func.value) == "self":
                            try:
                                h_ = p.method("BaseInterpreter", v_.func.attr)
                            except Exception:
                                h_ = None
                        # the helper hands a key back only under an equality with the address it was given
                        if h_ is not None:
                            hp = [q for q in h_.params if q not in ("self", "cls")]
                            rets_h = [x for x in own_nodes(h_.node) if isinstance(x, ast.Return) and x.value is not None and not (isinstance(x.value, ast.Constant) and x.value.value is None)]
                            tied = bool(hp) and bool(rets_h) and all(any((cp_ := compare_parts(g_)) is not None and isinstance(cp_[1], ast.Eq) and pol_ and hp[0] in (norm(cp_[0]), norm(cp_[2]))
                                                                         for g_, pol_ in guards_at(h_, x)) for x in rets_h)
                            if tied:
                                ok = True
                                why = "the actor's key was looked up under the address (by a helper that returns a key only for that address) and is present"
        ok = ok and not consts
        from sa.util import enclosing_loops as _el
        if ok and _el(rt, r_) and isinstance(r_.value, ast.Call) and isinstance(r_.value.func, ast.Attribute) and r_.value.func.attr == "get":
            c.ob("R10", False, rt, f"scan-returns-definite-actor:{norm(r_.value)[:30]}",
                 f"'{stmt_text(r_)}' ends the scan of the candidates at the first entry recorded for the address even when that actor is gone (the lookup yields None): "
                 f"a live actor recorded later for the same address is never found and the event is dropped", r_)
        c.ob("R10", ok, rt, f"actor-returned-for-its-address:{norm(r_.value)[:30]}", why if ok else
             f"'{stmt_text(r_)}' is reachable without a positive simple test that ties the actor to the address '{spec}' (guards: "
             f"{[norm(a) if pol else 'not ' + norm(a) for a, pol in atoms][-3:]}): an event can be delivered to an actor that was not addressed", r_)
    c.expect("R10", "actor-returning statements of the address resolver", n10, 4, rt)
    for v in VIEWS:
        b = roles(ctx, v).builtin
        funcs_ = [b] + [t for s_ in res.callsites(b, v) if s_.recv == "self" for t in s_.targets if t.name in ("_stop_child_actor",)]
        for f_ in funcs_:
            for call in self_calls_in(f_, "_deliver"):
                a0 = call.args[0] if call.args else None
                if isinstance(a0, ast.Name) and a0.id == "actor":
                    ok = any((cp := compare_parts(a)) is not None and isinstance(cp[1], ast.Is) and not pol and norm(cp[0]) == "actor" for a, pol in guards_at(f_, call))
                    c.ob("R8", ok, f_, f"{v}:deliver-only-to-resolved-actor", "delivery happens only when the target resolved" if ok else
                         "a sendTo/forwardTo delivery is not guarded by 'actor is None -> return'", call)
    # ---- R5 registry hygiene on stop() ---------------------------------------------------
    shared.registry_hygiene(ctx, "R5")
    # ---- R9 a child leaves the actor map only together with its stop ---------------------------
    shared.actor_removal_with_stop(ctx, "R9")
    # ---- R6 a re-used send id cancels the previous pending send first ---------------------
    for v in VIEWS:
        d = roles(ctx, v).deliver
        g = cfg_of(d.node)
        stores = [w for w in attr_writes(d) if w.attr == "_scheduled_sends" and w.op == "subscript"]
        if not c.expect("R6", f"scheduled-send store in {d.short}", len(stores), 1, d, f"{d.short} no longer registers a delayed send under its id: cancel(id) cannot prevent its delivery"):
            continue
        prev_calls = []
        for x in own_nodes(d.node):
            if isinstance(x, ast.Call) and isinstance(x.func, ast.Name):
                for a in assignments_to(d, x.func.id):
                    if "_scheduled_sends.get" in norm(getattr(a, "value", a)):
                        prev_calls.append(x)
        for w in stores:
            sn = g.nodes_of(w.node)
            pn = [n for x in prev_calls for n in cfg_node_of(d, x)]
            ok = bool(pn) and all(any(g.can_reach(p_, s_, follow_exc=False) for p_ in pn) for s_ in sn) and \
                not any(g.can_reach(s_, p_, follow_exc=False) for s_ in sn for p_ in pn)
            c.ob("R6", ok, d, "supersede-cancels-previous", "the previous canceller registered under the id is invoked before it is overwritten" if ok else
                 "a send id is overwritten without cancelling the pending send that used it: both are delivered and cancel(id) reaches only the newer", w.node)
        for x in prev_calls:
            pv = x.func.id
            at = [canon_atom(a, pol) for a, pol in guards_at(d, x)]
            mine = [t for t in at if pv in (t[1], t[2])]
            okp = bool(mine) and all(t in (("is", "None", pv, False), ("is", pv, "None", False), ("truthy", pv, "", True)) for t in mine)
            c.ob("R6", okp, d, "previous-canceller-called-when-present", "the previous canceller is invoked exactly when there is one" if okp else
                 f"'{norm(x)}' is guarded by {mine or 'nothing'}: the pending send that used the id is not cancelled when it exists (or None is called when it does not)", x)
    # cancel(id) pops exactly that id
    cs = p.method("BaseInterpreter", "_cancel_scheduled_send")
    pops = [x for x in own_nodes(cs.node) if isinstance(x, ast.Call) and isinstance(x.func, ast.Attribute) and x.func.attr == "pop" and "_scheduled_sends" in norm(x.func.value)]
    ok = bool(pops) and all(norm(x.args[0]) == cs.params[1] for x in pops)
    c.ob("R6", ok, cs, "cancel-pops-only-its-id", "cancel(id) removes and invokes exactly the canceller stored under that id" if ok else
         "cancel(id) does not pop exactly the given id", cs.node)
    # ---- R15 a declared (even empty / falsy) input is handed to the spawned child ------------------------------
    shared.none_is_the_only_absence(ctx, "R15", [("Interpreter", "_spawn_actor", "child_input"), ("SyncInterpreter", "_spawn_actor", "child_input")])
    # ---- R16 spawning reads the service registry, it does not consume it -------------------------------------------------
    shared.definition_is_read_only(ctx, "R16", ("interpreter", "sync_interpreter"),
                                   "the first spawn / send consumes the entry: the second spawn of the same service fails, the second delivery has no target")
    # ---- R13 every child interpreter the engine creates is wired to its parent before it runs ---------------
    # (sendParent / escalate resolve through child.parent; addressing, the registry and the snapshot use child.id)
    n13 = 0
    for v in VIEWS:
        r_ = roles(ctx, v)
        for f_ in r_.funcs:
            if f_.module.name not in ("interpreter", "sync_interpreter"):
                continue
            made = [a for a in own_nodes(f_.node) if isinstance(a, ast.Assign) and isinstance(a.targets[0], ast.Name) and isinstance(a.value, ast.Call)
                    and norm(a.value.func) in ("Interpreter", "SyncInterpreter", "self._interpreter_class", "type(self)", "self.__class__")]
            for a in made:
                ch = a.targets[0].id
                n13 += 1
                g = cfg_of(f_.node)
                starts = [x for h in [f_] + list(f_.nested.values()) for x in own_nodes(h.node)
                          if isinstance(x, ast.Call) and isinstance(x.func, ast.Attribute) and x.func.attr == "start" and norm(x.func.value) == ch]
                for attr, why in (("parent", "sendParent / escalate from the child are dropped and the parent's stop() is not mirrored"),
                                  ("id", "the child keeps the id of its machine: it is not addressable under the id it was registered with and two children of one machine collide")):
                    sets = [x for x in own_nodes(f_.node) if isinstance(x, ast.Assign) and norm(x.targets[0]) == f"{ch}.{attr}"]
                    ok = bool(sets) and all(g.always_before([i for x in sets for i in cfg_node_of(f_, x)], j, follow_exc=False)
                                            for st in starts if st in list(own_nodes(f_.node)) for j in cfg_node_of(f_, st))
                    c.ob("R13", ok, f_, f"{v}:child-wired:{ch}.{attr}", f"'{ch}.{attr}' is set before the child starts" if ok else
                         f"'{ch}.{attr}' is not assigned on every path before the child is started in {f_.short}: {why}", a)
    c.expect("R13", "child interpreter construction sites", n13, 3, p.method("Interpreter", "_spawn_actor"))
    # ---- R14 the async engine waits for a child's stop(): when stopChild / stop() returns the child has stopped --------
    from sa.util import parents as _parents
    n14 = 0
    for f_ in p.funcs_in("interpreter"):
        pm = _parents(f_)
        for x in own_nodes(f_.node):
            if not (isinstance(x, ast.Call) and isinstance(x.func, ast.Attribute) and x.func.attr == "stop" and dotted(x.func.value) not in ("self", "super()")
                    and not norm(x.func.value).startswith("self.")):
                continue
            n14 += 1
            par = pm.get(id(x))
            if isinstance(par, ast.Await):
                c.ob("R14", True, f_, f"stop-awaited:{norm(x.func.value)}", "the child's stop() is awaited", x)
                continue
            # handed to an awaited helper:  await self._maybe_await(actor.stop())
            if isinstance(par, ast.Call) and any(x is a_ for a_ in par.args) and isinstance(pm.get(id(par)), ast.Await):
                c.ob("R14", True, f_, f"stop-awaited:{norm(x.func.value)}", "the result of the child's stop() is handed to an awaited helper", x)
                continue
            var = par.targets[0].id if isinstance(par, ast.Assign) and isinstance(par.targets[0], ast.Name) else None
            aw = [y for y in own_nodes(f_.node) if isinstance(y, ast.Await) and var and norm(y.value) == var]
            ok = False
            for y in aw:
                at = [canon_atom(a, pol) for a, pol in guards_at(f_, y)]
                mine = [t for t in at if var in t[1]]
                if mine and all(t == ("truthy", f"inspect.isawaitable({var})", "", True) for t in mine):
                    ok = True
            c.ob("R14", ok, f_, f"stop-awaited:{norm(x.func.value)}", "the result of the child's stop() is awaited when it is awaitable" if ok else
                 f"'{norm(x)}' in {f_.short} is not awaited (directly, or through 'if inspect.isawaitable(r): await r'): the action returns while the "
                 f"child is still running; it keeps receiving and emitting after stopChild / stop() returned", x)
    c.expect("R14", "stop() calls on other interpreters in the async engine", n14, 3, p.method("Interpreter", "stop"))
    # ---- R7 exactly one registration + start per spawn -----------------------------------
    for v in VIEWS:
        sp = p.method(v, "_spawn_actor")
        g = cfg_of(sp.node)
        # the spawn routine itself plus private helpers it calls on self (a construction helper counts)
        helpers = [sp] + [t for s_ in res.callsites(sp, v) if s_.recv == "self" for t in s_.targets
                          if t.name.startswith("_") and t.name not in ("_register_in_system",) and t.qualname != sp.qualname]
        reg = [w for h in helpers for w in attr_writes(h) if w.attr == "_actors" and w.op == "subscript"]
        starts = [x for h in helpers for x in own_nodes(h.node) if isinstance(x, ast.Call) and isinstance(x.func, ast.Attribute) and x.func.attr == "start"
                  and dotted(x.func.value) in ("child", "child_interpreter")]
        sysreg = [x for h in helpers for x in self_calls_in(h, "_register_in_system")]
        c.ob("R7", len(reg) == 1, sp, "one-children-map-registration", "the child is registered in _actors exactly once" if len(reg) == 1 else
             f"{len(reg)} registrations in _actors per spawn", sp.node)
        c.ob("R7", len(sysreg) == 1, sp, "one-system-registration", "the child is registered under its systemId once" if len(sysreg) == 1 else
             f"{len(sysreg)} system registrations per spawn", sp.node)
        srcs = [w for h in helpers for w in attr_writes(h) if w.attr == "_actor_sources" and w.op == "subscript"]
        c.ob("R7", len(srcs) >= 1, sp, "service-key-recorded", "the service key the child was spawned from is recorded (snapshots and key addressing need it)" if srcs else
             f"{sp.short} no longer records the child's service key in _actor_sources: a snapshot cannot rebuild the actor and sendTo('<service key>') no longer finds it", sp.node)
        c.ob("R7", len(starts) >= 1, sp, "child-started", "the spawned child is started" if starts else "the spawned child is never started", sp.node)
        for st_call in starts:
            # in the sync engine start() appears twice on disjoint paths (blocking / thread)
            pass
        id_asg = [a for a in assignments_to(sp, "actor_id") if getattr(a, "value", None) is not None]
        idok = any("explicit_id" in norm(a.value) and "uuid" in norm(a.value) for a in id_asg)
        if not idok:
            # the same choice written as if / else: the explicit id where one is given, a generated one only where none is
            expl = [a for a in id_asg if "explicit_id" in norm(a.value) and any("explicit_id" in norm(g_) and pol for g_, pol in guards_at(sp, a))]
            gen = [a for a in id_asg if "uuid" in norm(a.value) and any("explicit_id" in norm(g_) and not pol for g_, pol in guards_at(sp, a))]
            idok = bool(expl) and bool(gen)
        c.ob("R7", idok, sp, "id-scheme", "child id is '<parent>:<explicit id>' or '<parent>:<key>:<uuid>'" if idok else
             "the child id scheme no longer distinguishes explicit ids from generated ones", sp.node)



_run_before_iter_rule = run


def run(ctx):
    _run_before_iter_rule(ctx)
    # ---- R17 bookkeeping containers are not resized while they are iterated ------------------------------------
    shared.no_mutation_while_iterating(ctx, "R17", ("base_interpreter", "interpreter", "sync_interpreter", "task_manager"), lambda t: any(k in t for k in ('actor', 'registry', '_system')))


_run_before_r18 = run


def run(ctx):
    _run_before_r18(ctx)
    # ---- R18 the parent link of an actor is set when the child is created or restored, to its owner, and never cut -------------------
    # The actor-system registry lives on the root and every actor finds it by walking .parent upwards (_system_registry); sendParent,
    # escalation and done/error reporting follow the same link.  An actor whose link is cleared or re-pointed while it (or its
    # descendants) still has clean-up to do - unregistering systemIds on stop - does that clean-up against the wrong root.
    from sa.effects import attr_writes as _aw
    c, p = ctx.c, ctx.p
    n = 0
    seen = set()
    for v in VIEWS:
        for f in roles(ctx, v).all_funcs:
            if f.qualname in seen:
                continue
            seen.add(f.qualname)
            for w in _aw(f):
                if w.attr != "parent" or w.base in ("self",) and f.name == "__init__":
                    continue
                if f.cls is None or f.cls.name not in ("BaseInterpreter", "Interpreter", "SyncInterpreter"):
                    continue
                val = getattr(w.node, "value", None)
                n += 1
                to_owner = val is not None and norm(val) in ("self", "interpreter", "cls_instance")
                ok = w.op == "assign" and to_owner
                c.ob("R18", ok, f, f"parent-link:{w.base}", "a child's parent link is set to the interpreter that creates / restores it" if ok else
                     f"'{stmt_text(w.node)}' in {f.short} cuts or re-points an actor's parent link: the actor and its descendants then resolve the actor-system "
                     f"registry, sendParent and escalation against the wrong root (systemIds of stopped descendants stay registered, late reports are lost)", w.node)
    c.floor("R18", "writes of an actor's parent link", n, 3)
