"""C16 - determinism: set-order taint over the engine + no ordering keyed on generated ids."""
import ast

from sa.program import norm, own_nodes
from sa.util import stmt_text
from . import shared


def run(ctx):
    c, p = ctx.c, ctx.p
    shared.set_order(ctx, "R1", ("base_interpreter", "interpreter", "sync_interpreter", "helpers", "task_manager", "models", "resolver"), floor=20)
    # R2: no sort / comparison keyed on a uuid-derived value
    n = 0
    for f in p.funcs_in("base_interpreter", "interpreter", "sync_interpreter", "helpers", "task_manager"):
        uu = [x for x in own_nodes(f.node) if isinstance(x, ast.Call) and "uuid" in norm(x.func)]
        if not uu:
            continue
        n += len(uu)
        sorts = [x for x in own_nodes(f.node) if isinstance(x, ast.Call) and norm(x.func) in ("sorted", "min", "max") or
                 (isinstance(x, ast.Call) and isinstance(x.func, ast.Attribute) and x.func.attr == "sort")]
        bad = [s for s in sorts if any(v in norm(s) for v in ("unique_key", "actor_id", "uuid"))]
        c.ob("R2", not bad, f, "uuid-not-used-for-order", "generated identifiers are used only as keys, never for ordering" if not bad else
             "a generated identifier (uuid) takes part in a sort/min/max: behaviour depends on random ids", f.node)
    c.floor("R2", "uuid generation sites", n, 3)
    # actor ids end in a uuid4: no choice among actors may be made by comparing ids
    from sa.util import assignments_to
    for f in p.funcs_in("base_interpreter", "interpreter", "sync_interpreter"):
        for x in own_nodes(f.node):
            if isinstance(x, ast.Call) and isinstance(x.func, ast.Name) and x.func.id in ("min", "max", "sorted") and x.args:
                src = norm(x.args[0])
                names = [n_.id for n_ in ast.walk(x.args[0]) if isinstance(n_, ast.Name)]
                from_actors = "_actors" in src or any("_actors" in norm(getattr(a, "value", a)) for nm in names for a in assignments_to(f, nm))
                key = next((k.value for k in x.keywords if k.arg == "key"), None)
                by_id = key is not None and ".id" in norm(key) or (key is None and "actor_id" in src)
                if from_actors:
                    c.ob("R2", not by_id, f, f"{x.func.id}-over-actors-by-id",
                         "no choice among actors is made by comparing generated ids" if not by_id else
                         f"'{stmt_text(x)}' picks among child actors by comparing ids; ids of actors spawned without an explicit id end in a "
                         f"uuid4, so which actor is chosen differs from run to run", x)
    # ---- R3 declaration (document) order is kept: mappings / lists that come from the definition, and the registries whose first
    #         match wins, are iterated as they are - never through sorted() / reversed() / set() --------------------------------
    ORDERED = ("states", "on", "after", "invoke", "transitions", "_actors", "_actor_sources", "on_done", "on_error", "entry", "exit", "actions")
    n3 = 0
    ORDER_SENSITIVE = {"_enter_states", "_collect_eligible_transitions", "_matching_descriptors", "_resolve_actor_target", "_persist_actors", "from_snapshot",
                       "_execute_actions", "_select_transitions", "_resolve_history_target"}
    for f in p.funcs_in("models", "base_interpreter", "interpreter", "sync_interpreter", "resolver"):
        if f.module.name != "models" and f.name not in ORDER_SENSITIVE:
            continue        # e.g. the done-ness test or the arming of timers visit every element: their order is not observable
        if f.name.startswith(("to_", "build_")) or (f.parent is not None and f.parent.name.startswith("to_")):
            continue        # diagram export
        for x in own_nodes(f.node):
            it = x.iter if isinstance(x, (ast.For, ast.comprehension)) else None
            if it is None:
                continue
            wrap = [y for y in ast.walk(it) if isinstance(y, ast.Call) and isinstance(y.func, ast.Name) and y.func.id in ("sorted", "reversed", "set", "frozenset")]
            if not wrap:
                continue
            inner = " ".join(norm(a_) for y in wrap for a_ in y.args)
            from_def = any(("." + k + ".") in inner or inner.endswith("." + k) or ("." + k + "[") in inner or ("." + k + ")") in inner or f"raw_{k}" in inner for k in ORDERED)
            if not from_def:
                continue
            n3 += 1
            c.ob("R3", False, f, f"declaration-order-kept:{inner[:40]}",
                 f"'{norm(it)}' in {f.short} iterates a definition-ordered collection through {wrap[0].func.id}(): declaration order decides which candidate is first, "
                 f"in which order regions are entered and which recorded actor an address means - two spellings of the same machine (and the two engines) diverge", x if isinstance(x, ast.For) else it)
    c.ob("R3", True, "engine + front-end", "declaration-order", f"{n3} re-ordered iterations over definition-ordered collections (expected 0)", None, nontrivial=False)
    # R3b: iteration over dict-of-sets in cancel_all is accepted (cancel order is not an observable) -- listed
    c.note("TaskManager.cancel_all flattens a dict of sets: accepted, cancellation order is not among the compared observables")
    # R4: region entry follows document (dict) order: the region list is built from .states.values() without re-sorting through a set
    from .roles import VIEWS, roles
    for v in VIEWS:
        en = roles(ctx, v).enter
        comps = [x for x in own_nodes(en.node) if isinstance(x, ast.ListComp) and "states.values()" in norm(x.generators[0].iter)]
        ok = bool(comps)
        c.ob("R4", ok, en, "regions-in-document-order", "regions are entered in declaration (dict) order" if ok else
             "the region list is no longer built directly from states.values(): region entry order may not be document order", en.node)
