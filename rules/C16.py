"""C16 - determinism: set-order taint over the engine + no ordering keyed on generated ids."""
import ast

from sa.program import norm, own_nodes
from sa.util import stmt_text
from . import shared


def run(ctx):
    c, p = ctx.c, ctx.p
    shared.set_order(ctx, "R1", ("base_interpreter", "interpreter", "sync_interpreter", "helpers", "task_manager", "models", "resolver"), floor=20)
    # R2: no sort / comparison keyed on a uuid-derived value
    n = 0
    for f in p.funcs_in("base_interpreter", "interpreter", "sync_interpreter", "helpers", "task_manager"):
        uu = [x for x in own_nodes(f.node) if isinstance(x, ast.Call) and "uuid" in norm(x.func)]
        if not uu:
            continue
        n += len(uu)
        sorts = [x for x in own_nodes(f.node) if isinstance(x, ast.Call) and norm(x.func) in ("sorted", "min", "max") or
                 (isinstance(x, ast.Call) and isinstance(x.func, ast.Attribute) and x.func.attr == "sort")]
        bad = [s for s in sorts if any(v in norm(s) for v in ("unique_key", "actor_id", "uuid"))]
        c.ob("R2", not bad, f, "uuid-not-used-for-order", "generated identifiers are used only as keys, never for ordering" if not bad else
             "a generated identifier (uuid) takes part in a sort/min/max: behaviour depends on random ids", f.node)
    c.floor("R2", "uuid generation sites", n, 3)
    # actor ids end in a uuid4: no choice among actors may be made by comparing ids
    from sa.util import assignments_to
    for f in p.funcs_in("base_interpreter", "interpreter", "sync_interpreter"):
        for x in own_nodes(f.node):
            if isinstance(x, ast.Call) and isinstance(x.func, ast.Name) and x.func.id in ("min", "max", "sorted") and x.args:
                src = norm(x.args[0])
                names = [n_.id for n_ in ast.walk(x.args[0]) if isinstance(n_, ast.Name)]
                from_actors = "_actors" in src or any("_actors" in norm(getattr(a, "value", a)) for nm in names for a in assignments_to(f, nm))
                key = next((k.value for k in x.keywords if k.arg == "key"), None)
                by_id = key is not None and ".id" in norm(key) or (key is None and "actor_id" in src)
                if from_actors:
                    c.ob("R2", not by_id, f, f"{x.func.id}-over-actors-by-id",
                         "no choice among actors is made by comparing generated ids" if not by_id else
                         f"'{stmt_text(x)}' picks among child actors by comparing ids; ids of actors spawned without an explicit id end in a "
                         f"uuid4, so which actor is chosen differs from run to run", x)
    # R3: iteration over dict-of-sets in cancel_all is accepted (cancel order is not an observable) -- listed
    c.note("TaskManager.cancel_all flattens a dict of sets: accepted, cancellation order is not among the compared observables")
    # R4: region entry follows document (dict) order: the region list is built from .states.values() without re-sorting through a set
    from .roles import VIEWS, roles
    for v in VIEWS:
        en = roles(ctx, v).enter
        comps = [x for x in own_nodes(en.node) if isinstance(x, ast.ListComp) and "states.values()" in norm(x.generators[0].iter)]
        ok = bool(comps)
        c.ob("R4", ok, en, "regions-in-document-order", "regions are entered in declaration (dict) order" if ok else
             "the region list is no longer built directly from states.values(): region entry order may not be document order", en.node)
