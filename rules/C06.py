"""C06 - guards (structural clauses)."""
import ast
import copy

from sa.cfg import cfg_of
from sa.contain import containment, local_container
from sa.program import AnalysisError, const_str, dotted, norm, own_nodes
from sa.util import (ancestors, assignments_to, compare_parts, enclosing_loops, enclosing_try_bodies, guards_at, self_calls_in, stmt_text, names_in)
from . import shared
from .roles import CONFIG_ATTR, VIEWS, roles

CONFIG_WALKER_MODULES = ("models", "base_interpreter", "cli.ir", "cli.extractor", "cli.strategies._shared", "logic_loader")


def key_reads(f, key):
    """(receiver text, node) for .get(key)/[key]/key in x reads inside f."""
    out = []
    # keys held in a local first:  k = "cond" if "cond" in t else "guard";  t[k]
    from sa.util import assignments_to
    for n in own_nodes(f.node):
        keyexpr = recv = None
        if isinstance(n, ast.Call) and isinstance(n.func, ast.Attribute) and n.func.attr == "get" and n.args:
            keyexpr, recv = n.args[0], n.func.value
        elif isinstance(n, ast.Subscript) and isinstance(n.ctx, ast.Load):
            keyexpr, recv = n.slice, n.value
        elif isinstance(n, ast.Compare) and len(n.ops) == 1 and isinstance(n.ops[0], (ast.In, ast.NotIn)):
            keyexpr, recv = n.left, n.comparators[0]
        if isinstance(keyexpr, ast.Name):
            for a in assignments_to(f, keyexpr.id):
                v = getattr(a, "value", None)
                if v is None and isinstance(a, (ast.For, ast.AsyncFor, ast.comprehension)):
                    v = a.iter          # for key in ("cond", "guard"): ... node[key]
                if v is not None and any(const_str(x) == key for x in ast.walk(v)):
                    out.append((norm(recv), n))
                    break
    for n in own_nodes(f.node):
        if isinstance(n, ast.Call) and isinstance(n.func, ast.Attribute) and n.func.attr == "get" and n.args and const_str(n.args[0]) == key:
            out.append((norm(n.func.value), n))
        elif isinstance(n, ast.Subscript) and isinstance(n.ctx, ast.Load) and const_str(n.slice) == key:
            out.append((norm(n.value), n))
        elif isinstance(n, ast.Compare) and len(n.ops) == 1 and isinstance(n.ops[0], (ast.In, ast.NotIn)) and const_str(n.left) == key:
            out.append((norm(n.comparators[0]), n))
    return out


def run(ctx):
    c, p, res = ctx.c, ctx.p, ctx.r
    # ---- R1 'cond' is read wherever 'guard' is ----------------------------------
    n = 0
    for f in p.funcs_in(*CONFIG_WALKER_MODULES):
        reads = [(rv, nd) for rv, nd in key_reads(f, "guard") if "params" not in rv]
        if not reads:
            continue
        conds = {rv for rv, nd in key_reads(f, "cond")}
        for rv, nd in reads:
            n += 1
            ok = rv in conds
            c.ob("R1", ok, f, f"reads-guard-and-cond:{rv}",
                 "the v4 'cond' key is honoured next to 'guard'" if ok else
                 f"'{stmt_text(nd)}' reads 'guard' from '{rv}' but never 'cond': a transition guarded with the v4 key would be "
                 f"treated as unguarded here", nd)
    c.floor("R1", "readers of the 'guard' key in config walkers", n, 5)
    # ---- R2 containment of guard implementations and params callables ----------
    ev = p.method("BaseInterpreter", "_is_guard_satisfied")
    for v in VIEWS:
        if p.method(v, "_is_guard_satisfied").qualname != ev.qualname:
            raise AnalysisError("an engine overrides _is_guard_satisfied; C06 rules must be re-derived")
    clo = res.closure([ev], "Interpreter", include_closures=True)
    universe = [f for f, _ in clo.values()]
    nsites = 0
    for q, (f, par) in sorted(clo.items()):
        for s in res.callsites(f, "Interpreter"):
            if s.kind != "dynamic":
                continue
            nsites += 1
            outs = containment(res, "Interpreter", f, s.call, universe, depth=6, stop_at={ev.qualname})
            for o in outs:
                if o.kind == "contained":
                    yields_false = _handler_yields_false(o.handler)
                    c.ob("R2", yields_false, f, f"user-call:{s.callee_text}@{'<'.join(o.chain)}",
                         f"a raise in {s.callee_text}() is caught in {o.func.short} and counts as False" if yields_false else
                         f"handler in {o.func.short} catches a raising {s.callee_text}() but does not turn it into False", s.call,
                         path=list(o.chain))
                else:
                    c.ob("R2", False, f, f"user-call:{s.callee_text}@{'<'.join(o.chain)}",
                         f"an exception from {s.callee_text}() (user-supplied callable) escapes guard evaluation through "
                         f"{' <- '.join(o.chain)}: the guard does not count as false, later candidates are not considered and "
                         f"send() raises", s.call, path=list(o.chain))
    c.floor("R2", "user-code call sites under guard evaluation", nsites, 3)
    # ---- R3 missing guard is an error, never a verdict --------------------------
    raises = [x for x in own_nodes(ev.node) if isinstance(x, ast.Raise) and x.exc is not None and "ImplementationMissingError" in norm(x.exc)]
    c.expect("R3", "raise ImplementationMissingError in the evaluator", len(raises), 1, ev, "a guard that is named but not implemented no longer raises ImplementationMissingError: it is silently decided one way")
    for r_ in raises:
        h = local_container(ev, r_, catches={"XStateMachineError", "ImplementationMissingError"})
        c.ob("R3", h is None, ev, "missing-guard-raise", "the missing-implementation error is not converted into a verdict" if h is None else
             "ImplementationMissingError for a missing guard is raised inside a try that swallows it: a missing guard would be decided as False", r_)
    for call in self_calls_in(ev, "_is_guard_satisfied"):
        h = local_container(ev, call, catches={"XStateMachineError", "ImplementationMissingError"})
        c.ob("R3", h is None, ev, "recursive-eval-not-swallowed",
             "nested evaluation propagates a missing-implementation error" if h is None else
             "nested guard evaluation runs inside a swallowing try: a missing nested guard would be decided as False", call)
    # ---- R4 composite guard types are exhaustively dispatched -------------------
    mods = p.module("models")
    cg = mods.constants.get("COMPOSITE_GUARD_TYPES")
    c.need(cg is not None, "models.COMPOSITE_GUARD_TYPES")
    members = {const_str(x) for x in ast.walk(cg) if const_str(x) is not None}
    compared = set()
    comp_tests = [x for x in own_nodes(ev.node) if isinstance(x, ast.If) and
                  any(isinstance(y, ast.Attribute) and y.attr == "is_composite" for y in ast.walk(x.test))]
    c.need(comp_tests, "composite branch of the evaluator")
    for x in ast.walk(comp_tests[0]):
        cp = compare_parts(x)
        if cp and isinstance(cp[0], ast.Attribute) and cp[0].attr == "type" and const_str(cp[2]) is not None:
            compared.add(const_str(cp[2]))
    rest = members - compared
    ok = compared <= members and len(rest) <= 1
    c.ob("R4", ok, ev, "composite-dispatch", f"composites {sorted(members)}: {sorted(compared)} tested, fall-through handles {sorted(rest)}" if ok else
         f"composite guard types {sorted(members)} vs evaluator branches {sorted(compared)}: {sorted(rest)} would all take the "
         f"fall-through branch (evaluated as 'not')", comp_tests[0])
    # the 'not' arity is enforced at construction (exactly one child) -- keeps children[0] total
    gd = p.cls("GuardDefinition").methods["__init__"]
    arity = [x for x in own_nodes(gd.node) if isinstance(x, ast.If) and "'not'" in norm(x.test) and "len(" in norm(x.test)]
    c.ob("R4", bool(arity), gd, "not-arity", "'not' requires exactly one operand at construction" if arity else
         "GuardDefinition no longer enforces exactly one operand for 'not'", gd.node)
    # ---- R5 the three 'is this state active' predicates agree -------------------
    preds = [p.method("BaseInterpreter", "matches"), p.method("BaseInterpreter", "_is_state_in"),
             p.cls("PureSnapshot").methods["matches"]]
    forms = []
    for f in preds:
        form = _active_predicate_form(f)
        forms.append(form)
        c.ob("R5", form is not None, f, "active-predicate", f"predicate form: {form}" if form else
             f"{f.short}: could not find 'id == t or id.endswith(\".\" + t)' with '#'-stripping", f.node)
    if all(forms):
        same = len(set(forms)) == 1
        c.ob("R5", same, preds[1], "active-predicates-agree", "matches(), stateIn and PureSnapshot.matches() use one predicate" if same else
             f"the 'state is active' predicates differ: {forms}", preds[1].node)
    shared.eligible_bucket_rules(ctx, "R11", "guard")
    shared.none_is_the_only_absence(ctx, "R12", [("BaseInterpreter", "_call_with_optional_params", "params")])
    # ---- R12 declared params are withheld from a guard only when there are none, or the guard cannot take them ----
    from sa.util import canon_atom as _ca, in_handler as _inh
    cw = p.method("BaseInterpreter", "_call_with_optional_params")
    fnp, prm = cw.params[0], cw.params[-1]
    two = [x for x in own_nodes(cw.node) if isinstance(x, ast.Call) and norm(x.func) == fnp and len(x.args) == 2 and not x.keywords]
    three = [x for x in own_nodes(cw.node) if isinstance(x, ast.Call) and norm(x.func) == fnp and len(x.args) == 3 and norm(x.args[2]) == prm]
    c.expect("R12", "call of the guard with its params", len(three), 1, cw, "_call_with_optional_params never passes the params to the guard any more")
    for x in two:
        at = [_ca(a, pol) for a, pol in guards_at(cw, x)]
        mine = [t for t in at if prm in (t[1], t[2]) or t[1] == prm]
        none_only = any(t in (("is", "None", prm, True), ("is", prm, "None", True)) for t in mine)
        arity = any(("accepts" in t[1] or "varargs" in t[1] or "accepts" in t[2]) for t in at) or _inh(cw, x) is not None
        other = [t for t in mine if t[0] == "truthy" and t[3] is False or (t[0] in ("==", "in") and t[3] is True)]
        ok = (none_only or arity) and not other
        c.ob("R12", ok, cw, "params-withheld-only-when-none", "the guard is called without params only when there are none (None) or it cannot accept a third argument" if ok else
             f"'{norm(x)}' is reached under {mine}: params that are present but falsy (0, {{}}, [], '') are withheld from a parameterised guard - a three-argument guard "
             f"then raises TypeError, which counts as 'guard false', and a true guard is decided false", x)
    # ---- R10 stateIn is true exactly when the named state is active ---------------------------------
    si = p.method("BaseInterpreter", "_is_state_in")
    rets = [x for x in own_nodes(si.node) if isinstance(x, ast.Return)]
    pos = [x for x in rets if isinstance(x.value, ast.Constant) and x.value.value is True]
    def _any_over_active(v_):
        return isinstance(v_, ast.Call) and isinstance(v_.func, ast.Name) and v_.func.id == "any" and v_.args and isinstance(v_.args[0], ast.GeneratorExp) and \
            "_active_state_nodes" in norm(v_.args[0].generators[0].iter) and ".id" in norm(v_.args[0].elt)
    anyrets = [x for x in rets if _any_over_active(x.value)]
    other = [x for x in rets if x not in pos and x not in anyrets and not (x.value is None or (isinstance(x.value, ast.Constant) and not x.value.value))]
    c.ob("R10", not other, si, "only-true-or-false", "every verdict of stateIn is the constant True or a falsy constant" if not other else
         f"'{stmt_text(other[0])}' in _is_state_in is neither the positive verdict nor a falsy constant", (other or [si.node])[0])
    okp = False
    for x in pos:
        lp = [l for l in enclosing_loops(si, x) if isinstance(l, ast.For) and "_active_state_nodes" in norm(l.iter)]
        at = guards_at(si, x)
        idtest = any(isinstance(a, ast.BoolOp) and isinstance(a.op, ast.Or) and pol and all(".id" in norm(v_) for v_ in a.values) for a, pol in at) or \
            any(isinstance(a, ast.Compare) and pol and ".id" in norm(a) and isinstance(a.ops[0], ast.Eq) for a, pol in at)
        if lp and idtest and not any(isinstance(a, ast.Constant) for a, pol in at):
            okp = True
    okp = okp or bool(anyrets)
    c.ob("R10", okp, si, "true-iff-an-active-id-matches", "stateIn answers True exactly for an active node whose id is (or ends with) the named state" if okp else
         "_is_state_in has no 'return True' left that is reached from the scan of the active configuration under the id test: stateIn is never "
         "(or unconditionally) true", si.node)
    # ---- R6 user implementation wins over built-in stateIn ----------------------
    calls = self_calls_in(ev, "_is_state_in")
    c.expect("R6", "built-in stateIn dispatch", len(calls), 1, ev, "the evaluator no longer dispatches the built-in stateIn guard")
    for call in calls:
        ok = False
        for a, pol in guards_at(ev, call):
            cp = compare_parts(a)
            if cp and isinstance(cp[1], ast.NotIn) and pol and "guards" in norm(cp[2]):
                ok = True
        c.ob("R6", ok, ev, "user-impl-wins", "built-in stateIn only when the user registered no guard of that name" if ok else
             "the built-in stateIn branch is not guarded by 'type not in logic.guards': a user guard named stateIn is ignored", call)
    # ---- R8 parameterised guards receive their resolved params --------------------------
    gcalls = [x for x in own_nodes(ev.node) if isinstance(x, ast.Call) and norm(x.func).endswith("_call_with_optional_params")]
    c.expect("R8", "guard implementation call", len(gcalls), 1, ev, "the evaluator no longer calls the user guard implementation through _call_with_optional_params")
    for x in gcalls:
        last = x.args[-1] if x.args else None
        ok = last is not None and any("_resolve_params" in norm(getattr(a, "value", a)) and "params" in norm(getattr(a, "value", a))
                                      for a in assignments_to(ev, norm(last))) if isinstance(last, ast.Name) else (last is not None and "_resolve_params" in norm(last))
        c.ob("R8", bool(ok), ev, "guard-gets-resolved-params", "the guard implementation is called with guard.params resolved through _resolve_params" if ok else
             "the guard implementation is not handed the (possibly computed) params of the guard", x)
    # ---- R9 a cache on the interpreter keyed by id(x) must keep x alive ---------------------------
    # (CPython re-uses the address of a freed object: a config dict built inside a callback and freed after
    # the call gives its id to the next one, which then hits the previous entry and is decided by the wrong guard)
    from sa.effects import attr_writes
    n9 = 0
    for f in p.funcs_in("base_interpreter", "interpreter", "sync_interpreter"):
        for w in attr_writes(f):
            if w.op != "subscript" or w.base != "self" or not isinstance(w.node, ast.Assign):
                continue
            key = w.node.targets[0].slice
            kexprs = [key]
            if isinstance(key, ast.Name):
                kexprs += [getattr(a, "value", key) for a in assignments_to(f, key.id) if getattr(a, "value", None) is not None]
            ids = [y for e in kexprs for y in ast.walk(e) if isinstance(y, ast.Call) and isinstance(y.func, ast.Name) and y.func.id == "id" and y.args]
            if not ids:
                continue
            n9 += 1
            vexprs = [w.node.value]
            if isinstance(w.node.value, ast.Name):
                vexprs += [a.value for a in assignments_to(f, w.node.value.id) if getattr(a, "value", None) is not None]
            pinned = all(any(isinstance(z, ast.Name) and norm(z) == norm(i.args[0]) for ve in vexprs for z in ast.walk(ve)
                             if not (isinstance(z, ast.Name) and any(z is a0 for c0 in ast.walk(ve) if isinstance(c0, ast.Call) for a0 in c0.args)))
                         for i in ids)
            c.ob("R9", pinned, f, f"id-keyed-cache:{w.attr}",
                 f"self.{w.attr} is keyed by id(x) and stores x itself, so the address cannot be re-used while the entry lives" if pinned else
                 f"'{stmt_text(w.node)}' caches under id(...) on the interpreter without keeping the keyed object alive: once that object is freed "
                 f"its address is re-used by the next one, which is then answered from the stale entry (a different guard's verdict / definition)", w.node)
    c.ob("R9", True, ev, "id-keyed-caches", f"{n9} interpreter-level caches keyed by id() examined", ev.node, nontrivial=False)
    # ---- R7 choose / enqueueActions.check use the same evaluator ----------------
    cb = p.method("BaseInterpreter", "_collect_builtin_followups")
    n7 = 0
    for x in own_nodes(cb.node):
        if isinstance(x, ast.Return) and x.value is not None and "chosen" in names_in(x.value) | {norm(x.value)[:6]}:
            n7 += 1
            ok = any(any(isinstance(y, ast.Call) and isinstance(y.func, ast.Attribute) and y.func.attr == "_is_guard_satisfied"
                         for y in ast.walk(a)) and pol for a, pol in guards_at(cb, x))
            c.ob("R7", ok, cb, "choose-branch-guarded", "a choose branch is taken only when the shared evaluator passes (or it is unguarded)" if ok else
                 "a choose branch's actions are returned without consulting _is_guard_satisfied", x)
    c.expect("R7", "choose branch returns", n7, 1, cb, "the choose branch no longer returns the chosen actions")
    for rv, nd in key_reads(cb, "guard"):
        pass


def _handler_yields_false(h):
    if h is None:
        return False
    for s in h.body:
        if isinstance(s, ast.Return) and isinstance(s.value, ast.Constant) and s.value.value is False:
            return True
        if isinstance(s, ast.Assign) and isinstance(s.value, ast.Constant) and s.value.value is False:
            return True
    return False


def _active_predicate_form(f):
    strip = None
    for x in own_nodes(f.node):
        if isinstance(x, ast.IfExp) and isinstance(x.test, ast.Call) and isinstance(x.test.func, ast.Attribute) and \
                x.test.func.attr == "startswith" and x.test.args and const_str(x.test.args[0]) == "#" and \
                isinstance(x.body, ast.Subscript) and norm(x.body.slice) == "1:":
            strip = "strip#"
    from sa.util import expand_names as _en
    for x0 in own_nodes(f.node):
        x = _en(f, x0) if isinstance(x0, ast.BoolOp) else x0
        if isinstance(x, ast.BoolOp) and isinstance(x.op, ast.Or) and len(x.values) == 2:
            a, b = x.values
            cp = compare_parts(a)
            if cp and isinstance(cp[1], ast.Eq) and isinstance(b, ast.Call) and isinstance(b.func, ast.Attribute) and b.func.attr == "endswith":
                idexpr, tgt = norm(cp[0]), norm(cp[2])
                arg = b.args[0] if b.args else None
                if norm(b.func.value) == idexpr and isinstance(arg, ast.BinOp) and isinstance(arg.op, ast.Add) and \
                        const_str(arg.left) == "." and norm(arg.right) == tgt:
                    return f"{strip or 'no-strip'};ID == T or ID.endswith('.' + T)"
    return None
