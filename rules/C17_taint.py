"""C17.R7 (thorough tier): template taint over the code generator.

Every interpolation ``{expr}`` of an f-string that contributes to emitted source is classified by the
syntactic context the surrounding template text puts it in (code, '...' literal, "..." literal, docstring,
comment) and by the *kind* of the interpolated value:

  CLEAN    generator-controlled text (constants, flags, indentation, sanitised upstream)
  IDENT    result of to_identifier / IdentifierAllocator.allocate / camel_to_snake  ([A-Za-z0-9_] only)
  LITERAL  result of literal() / repr() / json.dumps() / !r                       (a complete Python literal)
  DOCSAFE  result of docstring_safe()              (no quotes-of-the-docstring, backslashes or line breaks)
  ESCAPED  result of escape_for_string()           (quotes and backslashes escaped, line breaks NOT)
  CODE     a fragment already composed from safely interpolated parts
  RAW      a string that comes from the machine JSON unchanged (names, ids, event types, targets ...)

A value is safe in a context only per SAFE below.  Kinds are propagated through local assignments, loops,
str methods, joins and - to a fixpoint - into parameters over the CLI call graph.  This decides the clause
"arbitrary strings in the JSON reach generated files only as data, never as code" as far as it is visible in
the templates; it does not decide what the verifier would refuse at run time.
"""
from __future__ import annotations

import ast
from typing import Dict, List, Optional, Set, Tuple

from sa.program import FuncInfo, dotted, norm, own_nodes
from sa.util import ancestors, assignments_to, parents

EMITTER_MODULES = ("cli.generator", "cli.builders", "cli.emit", "cli.strategies._shared", "cli.strategies.class_json",
                   "cli.strategies.function_json", "cli.strategies.pythonic_builder", "cli.strategies.pythonic_class",
                   "cli.strategies.pythonic_functional")
ORDER = ["CLEAN", "IDENT", "LITERAL", "CODE", "DOCSAFE", "ESCAPED", "RAW"]
SAFE = {
    "code": {"CLEAN", "IDENT", "LITERAL", "CODE"},
    "sq": {"CLEAN", "IDENT"},
    "dq": {"CLEAN", "IDENT", "DOCSAFE"},
    "doc": {"CLEAN", "IDENT", "DOCSAFE"},
    "comment": {"CLEAN", "IDENT", "DOCSAFE", "LITERAL", "CODE"},
}
SANITISERS = {"literal": "LITERAL", "repr": "LITERAL", "dumps": "LITERAL", "to_identifier": "IDENT", "allocate": "IDENT",
              "camel_to_snake": "IDENT", "_snake": "IDENT", "safe_identifier": "IDENT", "docstring_safe": "DOCSAFE",
              "escape_for_string": "ESCAPED", "len": "CLEAN", "str": None, "int": "CLEAN", "bool": "CLEAN", "type": "CLEAN"}
# attributes that hold strings copied from the machine JSON
RAW_ATTRS = {"key", "dotted", "type", "src", "target", "event", "initial", "custom_id", "delay", "history_kind", "machine_id",
             "machine_ids", "actions", "guards", "services", "tags", "meta", "params", "context", "path"}
RAW_ATTRS_BY_RECV = {"id"}          # machine.id / inv.id are raw; ctx has no 'id'
CLEAN_ATTRS = {"machine_name", "machine_names", "json_filenames", "file_count", "is_async", "log", "sleep", "sleep_time", "loader",
               "style", "hierarchy", "kind", "reenter", "internal", "is_leaf", "is_composite", "is_parallel", "children", "states",
               "transitions", "after", "always", "invoke", "on_done", "on_error", "entry", "exit", "guard", "root", "configs"}
MESSAGE_CALLS = {"debug", "info", "warning", "error", "exception", "critical", "print", "_safe_print", "append_problem"}
PASS_METHODS = {"upper", "lower", "title", "capitalize", "strip", "lstrip", "rstrip"}


def worst(*ks):
    ks = [k for k in ks if k]
    return max(ks, key=ORDER.index) if ks else "CLEAN"


class Taint:
    def __init__(self, ctx):
        self.ctx = ctx
        self.p = ctx.p
        res = ctx.r
        logic_roots = [f for f in self.p.all_funcs if f.module.name.startswith("cli.strategies.") and f.name == "generate_logic" and f.cls is not None and f.cls.name != "GenerationStrategy"]
        runner_roots = [f for f in self.p.all_funcs if f.module.name.startswith("cli.strategies.") and f.name == "generate_runner" and f.cls is not None and f.cls.name != "GenerationStrategy"]
        self.logic = {q for q, (f, _) in res.closure(logic_roots, None).items() if f.module.name.startswith("cli")}
        self.runner = {q for q, (f, _) in res.closure(runner_roots, None).items() if f.module.name.startswith("cli")}
        self.funcs = [f for f in self.p.all_funcs if f.qualname in (self.logic | self.runner) and f.module.name in EMITTER_MODULES]
        self.n_roots = (len(logic_roots), len(runner_roots))
        self.byname: Dict[str, List[FuncInfo]] = {}
        for f in self.funcs:
            self.byname.setdefault(f.name, []).append(f)
        self.param_kind: Dict[Tuple[str, str], str] = {}
        self.ret_kind: Dict[str, str] = {}
        self._seed_params()

    def _seed_params(self):
        for f in self.funcs:
            for a in f.node.args.args + f.node.args.kwonlyargs:
                ann = norm(a.annotation) if a.annotation is not None else ""
                k = "CLEAN"
                if a.arg in ("items", "actions", "guards", "services", "events") and "Set[str]" in ann or a.arg == "events":
                    k = "RAW"
                if a.arg in ("original", "raw_name", "event_name"):
                    k = "RAW"
                self.param_kind[(f.qualname, a.arg)] = k

    # -------------------------------------------------------------- kinds
    def kind(self, f: FuncInfo, e: ast.AST, env: Dict[str, str], depth=0) -> str:
        if e is None or depth > 6:
            return "CLEAN"
        if isinstance(e, ast.Constant):
            return "CLEAN"
        if isinstance(e, ast.Name):
            if e.id in env:
                return env[e.id]
            return self.param_kind.get((f.qualname, e.id), self.param_kind.get((f.outermost.qualname, e.id), "CLEAN"))
        if isinstance(e, ast.JoinedStr):
            return "CODE"          # interpolations are judged at their own site
        if isinstance(e, ast.FormattedValue):
            return self.kind(f, e.value, env, depth + 1)
        if isinstance(e, ast.Attribute):
            base = dotted(e.value) or ""
            if e.attr in CLEAN_ATTRS:
                return "CLEAN"
            if e.attr in RAW_ATTRS:
                return "RAW"
            if e.attr in RAW_ATTRS_BY_RECV and base not in ("self", "ctx"):
                return "RAW"
            return self.kind(f, e.value, env, depth + 1) if not isinstance(e.value, ast.Name) or e.value.id not in ("self", "ctx", "cls") else "CLEAN"
        if isinstance(e, ast.Subscript):
            return self.kind(f, e.value, env, depth + 1)
        if isinstance(e, ast.Call):
            fn = e.func
            name = fn.id if isinstance(fn, ast.Name) else (fn.attr if isinstance(fn, ast.Attribute) else "")
            if name in SANITISERS and SANITISERS[name]:
                ak = worst(*[self.kind(f, a, env, depth + 1) for a in e.args]) if e.args else "RAW"
                if name in ("escape_for_string", "docstring_safe") and ak in ("CLEAN", "IDENT"):
                    return ak           # escaping an identifier leaves an identifier
                return SANITISERS[name]
            if name == "str" and e.args:
                return self.kind(f, e.args[0], env, depth + 1)
            if isinstance(fn, ast.Attribute):
                recv_k = self.kind(f, fn.value, env, depth + 1)
                if name == "join":
                    return worst(recv_k, *[self.kind(f, a, env, depth + 1) for a in e.args])
                if name in PASS_METHODS:
                    return recv_k
                if name in ("replace", "format", "split", "removeprefix", "removesuffix", "ljust", "rjust"):
                    ak = worst(*[self.kind(f, a, env, depth + 1) for a in e.args])
                    if recv_k == "IDENT" and ak == "CLEAN":
                        return "DOCSAFE"
                    return worst(recv_k, ak)
                if name in ("get", "items", "values", "keys", "copy", "pop"):
                    return recv_k
                if name in ("leaf_names",):
                    return "RAW"
            if name in ("sorted", "list", "set", "tuple", "reversed", "enumerate", "zip", "filter", "iter", "next", "max", "min"):
                return worst(*[self.kind(f, a, env, depth + 1) for a in e.args])
            if name in ("extract_events", "demo_events", "reachable_event_sequence"):
                return "RAW"
            if name in ("allocate_bindings",):
                return "IDENT"
            if name in self.byname:
                return worst(*[self.ret_kind.get(g.qualname, "CODE") for g in self.byname[name]])
            ak = worst(*[self.kind(f, a, env, depth + 1) for a in e.args] + [self.kind(f, k.value, env, depth + 1) for k in e.keywords])
            return "RAW" if ak == "RAW" else ("CLEAN" if ak == "CLEAN" else ak)
        if isinstance(e, ast.BinOp):
            return worst(self.kind(f, e.left, env, depth + 1), self.kind(f, e.right, env, depth + 1))
        if isinstance(e, ast.IfExp):
            return worst(self.kind(f, e.body, env, depth + 1), self.kind(f, e.orelse, env, depth + 1))
        if isinstance(e, ast.BoolOp):
            return worst(*[self.kind(f, v, env, depth + 1) for v in e.values])
        if isinstance(e, (ast.List, ast.Tuple, ast.Set)):
            return worst(*[self.kind(f, x, env, depth + 1) for x in e.elts])
        if isinstance(e, ast.Starred):
            return self.kind(f, e.value, env, depth + 1)
        if isinstance(e, (ast.ListComp, ast.GeneratorExp, ast.SetComp)):
            env2 = dict(env)
            for g in e.generators:
                self._bind(f, g.target, self.kind(f, g.iter, env2, depth + 1), env2)
            return self.kind(f, e.elt, env2, depth + 1)
        if isinstance(e, ast.Dict):
            return worst(*[self.kind(f, v, env, depth + 1) for v in e.values])
        return "CLEAN"

    def _bind(self, f, target, k, env):
        for t in ast.walk(target):
            if isinstance(t, ast.Name):
                env[t.id] = k

    def env_of(self, f: FuncInfo) -> Dict[str, str]:
        """flow-insensitive local kinds: worst over all assignments (2 passes)."""
        env: Dict[str, str] = {}
        if f.parent is not None:
            env.update(self.env_of(f.parent))
        for _ in range(3):
            for n in own_nodes(f.node):
                if isinstance(n, ast.Assign):
                    k = self.kind(f, n.value, env)
                    for t in n.targets:
                        if isinstance(t, (ast.Tuple, ast.List)) and isinstance(n.value, (ast.Tuple, ast.List)) and len(t.elts) == len(n.value.elts):
                            for tt, vv in zip(t.elts, n.value.elts):
                                self._bind_worst(f, tt, self.kind(f, vv, env), env)
                        else:
                            self._bind_worst(f, t, k, env)
                elif isinstance(n, ast.AnnAssign) and n.value is not None:
                    self._bind_worst(f, n.target, self.kind(f, n.value, env), env)
                elif isinstance(n, (ast.For, ast.AsyncFor)):
                    self._bind_worst(f, n.target, self.kind(f, n.iter, env), env)
                elif isinstance(n, ast.comprehension):
                    self._bind_worst(f, n.target, self.kind(f, n.iter, env), env)
                elif isinstance(n, ast.Call) and isinstance(n.func, ast.Attribute) and n.func.attr in ("append", "extend", "add", "insert") and isinstance(n.func.value, ast.Name):
                    k = worst(*[self.kind(f, a, env) for a in n.args])
                    env[n.func.value.id] = worst(env.get(n.func.value.id, "CLEAN"), k)
        return env

    def _bind_worst(self, f, target, k, env):
        for t in ast.walk(target):
            if isinstance(t, ast.Name) and isinstance(t.ctx, ast.Store):
                env[t.id] = worst(env.get(t.id, "CLEAN"), k) if t.id in env else k

    # ------------------------------------------------------------ fixpoint
    def solve(self):
        res = self.ctx.r
        for _ in range(6):
            changed = False
            for f in self.funcs:
                env = self.env_of(f)
                # returns
                rk = "CLEAN"
                for n in own_nodes(f.node):
                    if isinstance(n, ast.Return) and n.value is not None:
                        rk = worst(rk, self.kind(f, n.value, env))
                if self.ret_kind.get(f.qualname) != rk:
                    self.ret_kind[f.qualname] = rk
                    changed = True
                # calls into other emitters: propagate argument kinds
                for s in res.callsites(f, None):
                    for t in s.targets:
                        if t.module.name not in EMITTER_MODULES or t.qualname not in (self.logic | self.runner):
                            continue
                        params = [a.arg for a in t.node.args.args if a.arg not in ("self", "cls")]
                        for pn, a in zip(params, s.call.args):
                            k = self.kind(f, a, env)
                            old = self.param_kind.get((t.qualname, pn), "CLEAN")
                            if ORDER.index(k) > ORDER.index(old):
                                self.param_kind[(t.qualname, pn)] = k
                                changed = True
                        for kw in s.call.keywords:
                            if kw.arg:
                                k = self.kind(f, kw.value, env)
                                old = self.param_kind.get((t.qualname, kw.arg), "CLEAN")
                                if ORDER.index(k) > ORDER.index(old):
                                    self.param_kind[(t.qualname, kw.arg)] = k
                                    changed = True
            if not changed:
                break


def template_context(js: ast.JoinedStr, idx: int) -> str:
    """Syntactic context the template text puts interpolation *idx* in."""
    text = ""
    for v in js.values[:idx]:
        if isinstance(v, ast.Constant):
            text += str(v.value)
        else:
            text += "X"
    line = text.split("\n")[-1]
    i = 0
    state = "code"
    while i < len(line):
        c = line[i]
        if state == "code":
            if line.startswith('"""', i) or line.startswith("'''", i):
                state = "doc"
                i += 3
                continue
            if c == "#":
                return "comment"
            if c == "'":
                state = "sq"
            elif c == '"':
                state = "dq"
        elif state == "doc":
            if line.startswith('"""', i) or line.startswith("'''", i):
                state = "code"
                i += 3
                continue
        elif state in ("sq", "dq"):
            if c == "\\":
                i += 2
                continue
            if (state == "sq" and c == "'") or (state == "dq" and c == '"'):
                state = "code"
        i += 1
    return state


def is_message(f: FuncInfo, node: ast.AST) -> bool:
    for a in ancestors(f, node):
        if isinstance(a, ast.Raise):
            return True
        if isinstance(a, ast.Call):
            fn = a.func
            nm = fn.id if isinstance(fn, ast.Name) else (fn.attr if isinstance(fn, ast.Attribute) else "")
            if nm in MESSAGE_CALLS or (isinstance(fn, ast.Attribute) and dotted(fn.value) in ("logger", "logging", "parser")):
                return True
        if isinstance(a, (ast.FunctionDef, ast.AsyncFunctionDef)):
            break
    return False


# functions whose f-strings build *docstring text* (their result is placed between triple quotes by the caller)
DOC_BUILDERS = {"generate_action_docstring": "returns the body of a docstring; callers emit it between triple quotes"}
# functions whose f-strings build a *data string* that callers pass through literal()
DATA_BUILDERS = {"_target_expression": "re-spelled transition target; render_transition_value wraps it in literal()",
                 "_delay_key": "delay key rendered through literal() by render_after_map"}


def run(ctx):
    c = ctx.c
    t = Taint(ctx)
    c.floor("R7", "strategy roots (generate_logic / generate_runner)", min(t.n_roots), 5)
    t.solve()
    from .C17 import runner_is_parsed
    runner_parsed = runner_is_parsed(ctx.p)
    c.note(f"the runner text is {'parsed' if runner_parsed else 'NOT parsed'} by the verifier before it is written")
    n = 0
    by_kind = {}
    from sa.util import guards_at
    for f in t.funcs:
        env = None
        if f.name in DATA_BUILDERS:
            c.ob("R7", True, f, "data-builder", f"accepted: {DATA_BUILDERS[f.name]}", f.node, nontrivial=False)
            continue
        unverified = f.qualname in t.runner and f.qualname not in t.logic and not runner_parsed
        for js in own_nodes(f.node):
            if not isinstance(js, ast.JoinedStr) or is_message(f, js):
                continue
            # nested f-strings inside a format spec / another interpolation are visited on their own
            for i, v in enumerate(js.values):
                if not isinstance(v, ast.FormattedValue):
                    continue
                if env is None:
                    env = t.env_of(f)
                k = "LITERAL" if v.conversion == ord("r") else t.kind(f, v.value, env)
                cx = template_context(js, i)
                if f.name in DOC_BUILDERS and cx == "code":
                    cx = "doc"
                # X.isidentifier() guard makes a raw name an identifier
                if k == "RAW" and isinstance(v.value, ast.Name):
                    for a, pol in guards_at(f, js):
                        for y in ast.walk(a):
                            if isinstance(y, ast.Call) and isinstance(y.func, ast.Attribute) and y.func.attr == "isidentifier" and \
                                    norm(y.func.value) == v.value.id and pol:
                                k = "IDENT"
                # the result of a doc builder split into lines is docstring text
                if k == "CODE" and cx == "doc":
                    k = "DOCSAFE" if _from_doc_builder(f, v.value) else k
                n += 1
                by_kind[(k, cx)] = by_kind.get((k, cx), 0) + 1
                ok = k in SAFE[cx]
                if not ok and k == "ESCAPED" and cx in ("sq", "dq") and not unverified:
                    # a line break inside a one-line quoted literal can only make the file unparsable; this file is
                    # syntax-checked before it is written (C17.R2), so the outcome is a refusal, not a wrong file
                    c.ob("R7", True, f, f"interp:{cx}:{k}:{norm(v.value)[:40]}",
                         "escape_for_string() value in a one-line literal of a file that is syntax-verified before writing", v)
                    continue
                if not ok and cx == "comment" and k in ("RAW", "ESCAPED") and not unverified:
                    # a value can leave a comment only through a line break; the same value is also interpolated by this function into a
                    # one-line quoted literal of the same (parsed) file, where a line break is a syntax error: the outcome is a refusal
                    vnames = {y.id for y in ast.walk(v.value) if isinstance(y, ast.Name)}
                    quoted = set()
                    from sa.util import ancestors as _anc, enclosing_loops as _el
                    my_loops = _el(f, js)
                    for js2 in own_nodes(f.node):
                        if isinstance(js2, ast.JoinedStr) and not is_message(f, js2):
                            l2 = _el(f, js2)
                            if (my_loops[:1] != l2[:1]) or not my_loops:
                                continue        # emitted in another loop (another list of names) or outside any
                            conditional = False
                            for up in _anc(f, js2):
                                if up is my_loops[0]:
                                    break
                                if isinstance(up, (ast.If, ast.IfExp, ast.Try, ast.While)):
                                    conditional = True
                            if conditional:
                                continue
                            for i2, v2 in enumerate(js2.values):
                                if isinstance(v2, ast.FormattedValue) and template_context(js2, i2) in ("sq", "dq"):
                                    quoted |= {y.id for y in ast.walk(v2.value) if isinstance(y, ast.Name)}
                    if vnames and vnames <= quoted:
                        c.ob("R7", True, f, f"interp:{cx}:{k}:{norm(v.value)[:40]}",
                             "a value in a comment that the same emitter also places in a one-line quoted literal of a file that is parsed before writing: "
                             "a line break (the only way out of a comment) makes the file unparsable, which is a refusal", v)
                        continue
                if ok:
                    if k != "CLEAN":
                        c.ob("R7", True, f, f"interp:{cx}:{k}:{norm(v.value)[:40]}", f"{k} value in {cx} context", v)
                    continue
                why = {"RAW": "comes from the machine JSON unchanged",
                       "ESCAPED": "went through escape_for_string(), which escapes quotes and backslashes but not line breaks",
                       "DOCSAFE": "docstring_safe() does not make a value safe inside a single-quoted literal / as code",
                       "LITERAL": "is a complete literal placed inside another quoted literal",
                       "CODE": "is a composed code fragment placed inside a quoted literal"}.get(k, k)
                where = "the runner file, which is written without being parsed" if unverified else "generated source"
                c.ob("R7", False, f, f"interp:{cx}:{k}:{norm(v.value)[:40]}",
                     f"'{{{norm(v.value)[:60]}}}' is interpolated into {where} in {cx} context but {why}: a name containing a quote, "
                     f"backslash or line break changes the structure of the generated file (data becomes code, or the file stops parsing)", v)
    c.floor("R7", "interpolations in emitting f-strings", n, 150)
    c.extra["template_taint"] = {"interpolations": n, "by_kind_and_context": {f"{k}@{cx}": v for (k, cx), v in sorted(by_kind.items())}}


def _from_doc_builder(f, expr) -> bool:
    names = {n_.id for n_ in ast.walk(expr) if isinstance(n_, ast.Name)}
    seen = set()
    work = list(names)
    while work:
        nm = work.pop()
        if nm in seen:
            continue
        seen.add(nm)
        for a in assignments_to(f, nm):
            src = a.iter if isinstance(a, (ast.For, ast.AsyncFor)) else getattr(a, "value", None)
            if src is None:
                continue
            for y in ast.walk(src):
                if isinstance(y, ast.Call) and (isinstance(y.func, ast.Name) and y.func.id in DOC_BUILDERS):
                    return True
                if isinstance(y, ast.Name):
                    work.append(y.id)
    return False
