"""C17.R7 (thorough tier): template taint. Implemented in a later step; until then it only records that it did not run."""


def run(ctx):
    ctx.c.note("C17.R7 template taint: not run in this revision")
