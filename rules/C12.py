"""C12 - snapshots: structural clauses."""
import ast

from sa.cfg import cfg_of
from sa.contain import local_container
from sa.effects import attr_writes, uses_attr
from sa.program import dotted, norm, own_nodes, const_str
from sa.util import (ancestors, assignments_to, cfg_node_of, compare_parts, enclosing_try_bodies, guards_at, in_finally, stmt_text)
from . import shared
from .roles import CONFIG_ATTR, VIEWS, roles

# Appendix A of DESIGN.md: attributes that are deliberately not persisted, each with the reason.
NOT_PERSISTED = {
    "_scheduled_sends": "documented exception: pending delayed sends are not part of a snapshot",
    "_pending_send_cancels": "documented exception: pending delayed sends",
    "task_manager": "documented exception: pending timers / in-flight services",
    "_after_events": "documented exception: pending timers",
    "_after_threads": "documented exception: pending timers",
    "_event_queue": "quiescence: a snapshot is defined at quiescent points (empty queue)",
    "_event_loop_task": "runtime handle of the consumer task, recreated by start()",
    "_raise_depth": "macrostep-transient counter, reset by the run loop after every externally triggered event",
    "_subscribers": "observers are not part of the machine's state",
    "_emit_listeners": "observers are not part of the machine's state",
    "_plugins": "observers are not part of the machine's state",
    "machine": "the definition is supplied again to from_snapshot",
    "input": "only consumed by the context factory at construction",
    "_interpreter_class": "constant after construction",
    "id": "children: restored by the parent's from_snapshot (child.id = actor_id); root: machine.id",
    "parent": "children: restored by the parent's from_snapshot (child.parent = interpreter)",
}
FRESH_CALLS = {"sorted", "str", "dict", "list", "set", "tuple", "int", "float", "bool", "repr", "len"}


def _dict_literal_keys(f):
    out = {}
    for x in own_nodes(f.node):
        if isinstance(x, ast.Dict) and len(x.keys) >= 3:
            for k, v in zip(x.keys, x.values):
                if k is not None and const_str(k) is not None:
                    out[const_str(k)] = v
    return out


def _keys_read(f, var):
    out = {}
    for x in own_nodes(f.node):
        if isinstance(x, ast.Subscript) and isinstance(x.ctx, ast.Load) and isinstance(x.value, ast.Name) and x.value.id == var and const_str(x.slice):
            out.setdefault(const_str(x.slice), []).append(x)
        elif isinstance(x, ast.Call) and isinstance(x.func, ast.Attribute) and x.func.attr == "get" and isinstance(x.func.value, ast.Name) \
                and x.func.value.id == var and x.args and const_str(x.args[0]):
            out.setdefault(const_str(x.args[0]), []).append(x)
    return out


def run(ctx):
    c, p, res = ctx.c, ctx.p, ctx.r
    gp = p.method("BaseInterpreter", "get_persisted_snapshot")
    pa = p.method("BaseInterpreter", "_persist_actors")
    fs = p.method("BaseInterpreter", "from_snapshot")
    # ---- R1 writer / reader key agreement ---------------------------------------------
    written = _dict_literal_keys(gp)
    c.floor("R1", "keys written by get_persisted_snapshot", len(written), 8)
    read = _keys_read(fs, "snapshot")
    c.floor("R1", "keys read by from_snapshot", len(read), 8)
    for k in sorted(written):
        ok = k in read
        c.ob("R1", ok, gp, f"key:{k}", f"snapshot key '{k}' is written and read back" if ok else
             f"get_persisted_snapshot writes '{k}' but from_snapshot never reads it: that part of the state is lost on restore", written[k])
    for k in sorted(read):
        ok = k in written
        c.ob("R1", ok, fs, f"key-read:{k}", f"key '{k}' read by from_snapshot is produced by the writer" if ok else
             f"from_snapshot reads '{k}' which get_persisted_snapshot never writes", read[k][0])
    rec_w = _dict_literal_keys(pa)
    rec_r = _keys_read(fs, "record")
    for k in sorted(rec_w):
        ok = k in rec_r or k == "machine_id"
        c.ob("R1", ok, pa, f"actor-record:{k}", ("actor record key read back" if k in rec_r else "accepted extra: machine_id is informational") if ok else
             f"actor record key '{k}' is written but never read on restore", rec_w[k])
    for k in sorted(rec_r):
        c.ob("R1", k in rec_w, fs, f"actor-record-read:{k}", "actor record key is produced by the writer" if k in rec_w else
             f"from_snapshot reads actor record key '{k}' that _persist_actors never writes", rec_r[k][0])
    # ---- R2 state coverage -----------------------------------------------------------------
    persisted_attrs = {a.attr for f in (gp, pa) for a in own_nodes(f.node) if isinstance(a, ast.Attribute) and dotted(a.value) == "self"}
    # current_state_ids is a property over the configuration set
    restored_attrs = {w.attr for w in attr_writes(fs) if w.base in ("interpreter", "child")}
    n_attrs = 0
    for v in VIEWS:
        r = roles(ctx, v)
        inits = [cl.methods["__init__"] for cl in r.cls.mro() if "__init__" in cl.methods]
        init_attrs = {}
        for i in inits:
            for w in attr_writes(i):
                if w.base == "self" and w.op == "assign":
                    init_attrs.setdefault(w.attr, w)
        proc = res.self_closure([r.process_event, r.settle, r.send, r.start, r.stop], v)
        for attr, w0 in sorted(init_attrs.items()):
            n_attrs += 1
            writers = [w for f in r.funcs if f.name != "__init__" for w in attr_writes(f) if w.attr == attr and w.base == "self"]
            readers = [f for f in proc.values() if any(isinstance(a, ast.Attribute) and a.attr == attr and dotted(a.value) == "self" for a in own_nodes(f.node))]
            construct = f"{v}:{attr}"
            if attr in persisted_attrs and attr in restored_attrs:
                c.ob("R2", True, w0.func, construct, "persisted and restored", w0.node)
            elif attr in NOT_PERSISTED:
                c.ob("R2", True, w0.func, construct, f"not persisted: {NOT_PERSISTED[attr]}", w0.node, nontrivial=False)
            elif not writers:
                c.ob("R2", True, w0.func, construct, "constant after construction (no writer outside __init__)", w0.node, nontrivial=False)
            elif _macrostep_transient(r, attr, writers):
                c.ob("R2", True, w0.func, construct, "macrostep-transient: every non-constructor write is paired with a reset in a finally", w0.node)
            elif not readers:
                c.ob("R2", True, w0.func, construct, "never read during event processing", w0.node, nontrivial=False)
            elif _reset_before_use(r, attr, writers, readers):
                c.ob("R2", True, w0.func, construct, "dead at quiescence: re-initialised (under a test that holds whenever no macrostep is in flight) "
                     "before every read", w0.node)
            else:
                half = "persisted but not restored" if attr in persisted_attrs else ("restored but not persisted" if attr in restored_attrs else "neither persisted nor restored")
                c.ob("R2", False, w0.func, construct,
                     f"attribute '{attr}' is written during a run ({writers[0].func.short}), read by event processing ({readers[0].short}) and is {half}: "
                     f"a restored interpreter behaves differently from the one that was snapshotted", w0.node)
    c.floor("R2", "interpreter attributes classified", n_attrs, 40)
    # ---- R3 values placed in the snapshot are fresh ---------------------------------------
    for k, vexpr in sorted(written.items()):
        ok, why = _fresh(vexpr)
        if k == "output" and not ok:
            c.ob("R3", True, gp, f"fresh:{k}", "accepted live reference: output is set once at completion and never mutated by the engine", vexpr, nontrivial=False)
            continue
        c.ob("R3", ok, gp, f"fresh:{k}", why if ok else
             f"snapshot value for '{k}' ('{stmt_text(vexpr, 60)}') is a live reference: later execution of the interpreter changes a snapshot already taken", vexpr)
    # ---- R6 persisted collections are complete (no filtering comprehension) ---------------------
    for k in ("configuration", "history", "actors", "system"):
        vexpr = written.get(k)
        if vexpr is None:
            continue
        filt = [norm(cnd) for y in ast.walk(vexpr) if isinstance(y, (ast.ListComp, ast.GeneratorExp, ast.DictComp, ast.SetComp)) for g_ in y.generators for cnd in g_.ifs]
        c.ob("R6", not filt, gp, f"complete:{k}", f"every element of the interpreter's {k} is persisted" if not filt else
             f"snapshot value for '{k}' drops elements ({filt}): the restored interpreter has less {k} than the one that was snapshotted "
             f"(e.g. shallow history restored from leaf-only records behaves like deep history)", vexpr)
    # ---- R4 shape guard on the decoded snapshot --------------------------------------------
    n_sub = 0
    for var in ("snapshot", "record"):
        for x in own_nodes(fs.node):
            if isinstance(x, ast.Subscript) and isinstance(x.ctx, ast.Load) and isinstance(x.value, ast.Name) and x.value.id == var:
                n_sub += 1
                key = const_str(x.slice) or norm(x.slice)
                guarded = False
                for a, pol in guards_at(fs, x):
                    cp = compare_parts(a)
                    if cp and isinstance(cp[1], ast.In) and pol and const_str(cp[0]) == key:
                        guarded = True
                    if isinstance(a, ast.Call) and isinstance(a.func, ast.Attribute) and a.func.attr == "get" and \
                            dotted(a.func.value) == var and a.args and const_str(a.args[0]) == key and pol:
                        guarded = True
                guarded = guarded or _validated_before(fs, x, var, key)
                h = local_container(fs, x, catches={"KeyError", "TypeError", "LookupError"})
                converts = h is not None and any(isinstance(s, ast.Raise) and s.exc is not None and "Error" in norm(s.exc) and
                                                 "KeyError" not in norm(s.exc) for s in ast.walk(h))
                ok = guarded or converts
                c.ob("R4", ok, fs, f"subscript:{var}[{key}]", "access is guarded or converted into a library error" if ok else
                     f"'{var}[{key!r}]' on the decoded snapshot is unguarded: a snapshot without that key is rejected with a raw KeyError "
                     f"instead of a library error", x)
            elif isinstance(x, ast.Call) and isinstance(x.func, ast.Attribute) and x.func.attr == "get" and isinstance(x.func.value, ast.Name) \
                    and x.func.value.id == "record":
                n_sub += 1
                guarded = any(isinstance(a, ast.Call) and norm(a.func) == "isinstance" and norm(a.args[0]) == "record" for a, pol in guards_at(fs, x))
                c.ob("R4", guarded, fs, "attr:record.get", "actor record shape is checked before use" if guarded else
                     "'record.get(...)' assumes every persisted actor record is an object: a corrupt 'actors' entry raises a raw AttributeError", x)
    c.floor("R4", "shape-dependent uses of the decoded snapshot", n_sub, 5)
    tops = [x for x in own_nodes(fs.node) if isinstance(x, ast.Raise) and "InvalidConfigError" in norm(x.exc)]
    c.ob("R4", len(tops) >= 2, fs, "json-and-type-validation", "invalid JSON and non-object snapshots raise InvalidConfigError" if len(tops) >= 2 else
         "from_snapshot no longer converts invalid JSON / non-object snapshots into InvalidConfigError", fs.node)
    unknown = [x for x in own_nodes(fs.node) if isinstance(x, ast.Raise) and "StateNotFoundError" in norm(x.exc)]
    c.ob("R4", bool(unknown), fs, "unknown-state-rejected", "a snapshot naming a state the machine lacks raises StateNotFoundError" if unknown else
         "a snapshot naming an unknown state is accepted silently", fs.node)
    # ---- R11 a restored attribute is the persisted value, not a merge with the fresh interpreter's default -----------------
    # (context keys the run deleted would come back with their initial values: the restored run diverges from the uninterrupted one)
    n11 = 0
    for asg in [x for x in own_nodes(fs.node) if isinstance(x, ast.Assign) and len(x.targets) == 1 and isinstance(x.targets[0], ast.Attribute)
                and dotted(x.targets[0].value) in ("interpreter", "child")]:
        recv, attr = dotted(asg.targets[0].value), asg.targets[0].attr
        n11 += 1
        seen_n, work, exprs = set(), [asg.value], []
        while work:
            e = work.pop()
            exprs.append(e)
            for y in ast.walk(e):
                if isinstance(y, ast.Name) and isinstance(y.ctx, ast.Load) and y.id not in seen_n and y.id not in fs.params:
                    seen_n.add(y.id)
                    work.extend(getattr(a_, "value", None) for a_ in assignments_to(fs, y.id) if getattr(a_, "value", None) is not None)
        merged = [y for e in exprs for y in ast.walk(e) if isinstance(y, ast.Attribute) and isinstance(y.ctx, ast.Load) and y.attr == attr and dotted(y.value) == recv]
        c.ob("R11", not merged, fs, f"restore-replaces:{attr}", f"'{recv}.{attr}' is set from the snapshot alone" if not merged else
             f"the value restored into '{recv}.{attr}' is computed from '{recv}.{attr}' itself (the freshly constructed default): persisted state is merged with the "
             f"machine's initial state instead of replacing it - e.g. a context key the run had deleted reappears with its initial value, and the restored run "
             f"diverges from the uninterrupted one", asg)
    c.expect("R11", "attributes restored by assignment in from_snapshot", n11, 3, fs, "from_snapshot no longer restores context / status / output by assignment")
    # ---- R7 every persisted configuration id is restored (or rejected) ----------------------------
    shared.restore_every_id(ctx, "R7")
    # ---- R10 actor records are persisted in the interpreter's own (spawn) order ---------------------------------
    # (restore rebuilds _actors / _actor_sources in record order, and addressing by service key scans them in that order)
    for x in own_nodes(pa.node):
        it = x.iter if isinstance(x, (ast.For, ast.comprehension)) else None
        if it is None or "_actors" not in norm(it):
            continue
        reordered = any(isinstance(y, ast.Call) and isinstance(y.func, ast.Name) and y.func.id in ("sorted", "reversed", "set", "frozenset") for y in ast.walk(it))
        c.ob("R10", not reordered, pa, "actors-persisted-in-own-order", "actor records are written in the order of the actor map" if not reordered else
             f"'{norm(it)}' re-orders the actor map while persisting it: the restored interpreter registers its children in a different order than the one that was "
             f"snapshotted, and sendTo / stopChild by service key (first recorded match) reach a different child", x if not isinstance(x, ast.comprehension) else it)
    for x in own_nodes(fs.node):
        if isinstance(x, ast.For) and "snapshot" in norm(x.iter) and any(k in norm(x.iter) for k in ("'actors'", '"actors"', "'system'", '"system"', "'history'", '"history"')):
            reordered = any(isinstance(y, ast.Call) and isinstance(y.func, ast.Name) and y.func.id in ("sorted", "reversed", "set", "frozenset") for y in ast.walk(x.iter))
            c.ob("R10", not reordered, fs, f"restored-in-persisted-order:{norm(x.iter)[:40]}", "the persisted records are restored in the order they were written" if not reordered else
                 f"'{norm(x.iter)}' re-orders the persisted records while restoring them: the restored interpreter's registries are in a different order than the "
                 f"snapshotted one's (addressing by service key takes the first recorded match)", x)
    # ---- R8 every persisted actor is restored and wired to its parent ------------------------------
    al = [l for l in own_nodes(fs.node) if isinstance(l, ast.For) and "'actors'" in norm(l.iter).replace('"', "'")]
    if c.expect("R8", "restore loop over the persisted actors", len(al), 1, fs, "from_snapshot no longer restores the persisted child actors"):
        l = al[0]
        early = [y for st_ in l.body for y in ast.walk(st_) if isinstance(y, (ast.Break, ast.Return))]
        c.ob("R8", not early, fs, "actor-loop-complete", "an actor that cannot be restored is skipped with 'continue'; the others are still restored" if not early else
             f"'{stmt_text(early[0])}' leaves the actor restore loop early: the actors persisted after the first unrestorable one are lost", (early or [l])[0])
        made = [a for st_ in l.body for a in ast.walk(st_) if isinstance(a, ast.Assign) and isinstance(a.targets[0], ast.Name) and isinstance(a.value, ast.Call)
                and norm(a.value.func).endswith("from_snapshot")]
        if c.expect("R8", "recursive restore of the child", len(made), 1, fs, "the actor restore loop no longer rebuilds the child from its persisted snapshot", l):
            ch = made[0].targets[0].id
            stores = {norm(t) for st_ in l.body for a in ast.walk(st_) if isinstance(a, ast.Assign) for t in a.targets}
            key = norm(l.target.elts[0]) if isinstance(l.target, ast.Tuple) else "?"
            for want, why in ((f"{ch}.parent", "the restored child has no parent: sendParent / escalate from it are dropped"),
                              (f"{ch}.id", "the restored child keeps a freshly generated id: it is no longer addressable under the id it was persisted with"),
                              (f"interpreter._actors[{key}]", "the restored child is not put back into the parent's actor map: stop() and sendTo cannot reach it")):
                c.ob("R8", want in stores, fs, f"restored-child:{want.split('.')[-1][:12]}", f"'{want}' is re-established on restore" if want in stores else
                     f"the actor restore loop no longer assigns '{want}': {why}", l)
    # ---- R9 resuming a restored asynchronous interpreter brings its consumer and its children back ---------------
    from sa.util import canon_atom
    ast_ = p.method("Interpreter", "start")
    resume = [x for x in own_nodes(ast_.node) if isinstance(x, ast.If) and any(canon_atom(a, pol) in (("is", "None", "self._event_loop_task", True), ("is", "self._event_loop_task", "None", True))
                                                                            for a, pol in __import__("sa.cfg", fromlist=["split_atoms"]).split_atoms(x.test, True))]
    if c.expect("R9", "resume branch of Interpreter.start", len(resume), 1, ast_,
                "Interpreter.start() no longer recognises a restored interpreter (live status, no consumer task): it is never resumed and processes no event"):
        rb = resume[0]
        tasks = [y for st_ in rb.body for y in ast.walk(st_) if isinstance(y, ast.Call) and norm(y.func) == "asyncio.create_task" and "_run_event_loop" in norm(y)]
        c.ob("R9", bool(tasks), ast_, "resume-creates-consumer", "resuming attaches a consumer task" if tasks else
             "the resume branch no longer creates the run-loop task: a restored interpreter queues every event and processes none", rb)
        from sa.util import with_helpers
        hn = with_helpers(p, ast_, rb.body)
        loops = [(hf, y) for hf, y in hn if isinstance(y, ast.For) and "_actors" in norm(y.iter)]
        okc = False
        for hf, l in loops:
            lv = norm(l.target)
            for y in [z for st_ in l.body for z in ast.walk(st_) if isinstance(z, ast.Call) and isinstance(z.func, ast.Attribute) and z.func.attr == "start" and norm(z.func.value) == lv]:
                par = __import__("sa.util", fromlist=["parents"]).parents(hf).get(id(y))
                if isinstance(par, ast.Await):
                    okc = True
                elif isinstance(par, ast.Assign) and isinstance(par.targets[0], ast.Name):
                    var = par.targets[0].id
                    for aw in [z for st_ in l.body for z in ast.walk(st_) if isinstance(z, ast.Await) and norm(z.value) == var]:
                        mine = [canon_atom(a, pol) for a, pol in guards_at(hf, aw) if var in norm(a)]
                        if mine and all(t == ("truthy", f"inspect.isawaitable({var})", "", True) for t in mine):
                            okc = True
        c.ob("R9", okc, ast_, "resume-starts-children", "resuming starts (and waits for) every restored child actor" if okc else
             "the resume branch no longer starts every restored child actor and waits for it: the restored hierarchy comes back with dead children "
             "(events sent to them are queued and never processed)", rb)
    # ---- R5 ancestor closure on restore ----------------------------------------------------
    shared.snapshot_ancestor_closure(ctx, "R5")


def _macrostep_transient(r, attr, writers) -> bool:
    """every non-constructor write is a constant/counter update that is reset in a finally of the same function."""
    for w in writers:
        f = w.func
        resets = [x for x in attr_writes(f) if x.attr == attr and in_finally(f, x.node) is not None]
        if not resets:
            return False
    return True


def _reset_before_use(r, attr, writers, readers) -> bool:
    """All accesses sit in one function, which re-initialises the attribute to a constant under ``X == 0`` where X is a
    macrostep-transient counter (0 whenever no macrostep is in flight), and that test precedes every read: the value the
    attribute holds at a quiescent point is never observed, so it need not be persisted."""
    funcs = {w.func.qualname: w.func for w in writers}
    for f in readers:
        funcs[f.qualname] = f
    if len(funcs) != 1:
        return False
    f = next(iter(funcs.values()))
    g = cfg_of(f.node)
    for x in own_nodes(f.node):
        if not isinstance(x, ast.If):
            continue
        test_core, in_else = x.test, False
        while isinstance(test_core, ast.UnaryOp) and isinstance(test_core.op, ast.Not):
            test_core, in_else = test_core.operand, not in_else          # if not X == 0: ... else: <reset>
        cp = compare_parts(test_core)
        if cp is not None and isinstance(cp[1], ast.NotEq):
            cp, in_else = (cp[0], ast.Eq(), cp[2]), not in_else
        if cp is None or not isinstance(cp[1], ast.Eq) or not (isinstance(cp[2], ast.Constant) and cp[2].value == 0):
            continue
        srcs = [cp[0]]
        if isinstance(cp[0], ast.Name):
            srcs += [a.value for a in assignments_to(f, cp[0].id) if getattr(a, "value", None) is not None]
        tattrs = {y.attr for e in srcs for y in ast.walk(e) if isinstance(y, ast.Attribute) and dotted(y.value) == "self"} | \
                 {y.value for e in srcs for y in ast.walk(e) if isinstance(y, ast.Constant) and isinstance(y.value, str) and y.value.startswith("_")}
        if not any(_macrostep_transient(r, t, [w for fn in r.funcs if fn.name != "__init__" for w in attr_writes(fn) if w.attr == t and w.base == "self"])
                   and any(w.attr == t for fn in r.funcs if fn.name != "__init__" for w in attr_writes(fn)) for t in tattrs):
            continue
        resets = [y for st in (x.orelse if in_else else x.body) for y in ast.walk(st) if isinstance(y, ast.Assign) and isinstance(y.targets[0], ast.Attribute)
                  and y.targets[0].attr == attr and dotted(y.targets[0].value) == "self" and isinstance(y.value, ast.Constant)]
        if not resets:
            continue
        tn = g.nodes_of(x.test)
        reads = [y for y in own_nodes(f.node) if isinstance(y, ast.Attribute) and y.attr == attr and dotted(y.value) == "self" and isinstance(y.ctx, ast.Load)]
        if all(all(g.always_before(tn, n_, follow_exc=False) for n_ in cfg_node_of(f, y)) for y in reads):
            return True
    return False


def _fresh(e):
    if isinstance(e, ast.Constant):
        return True, "constant"
    if isinstance(e, (ast.DictComp, ast.ListComp, ast.SetComp, ast.Dict, ast.List)):
        return True, "built by a comprehension / literal in the snapshot call"
    if isinstance(e, ast.Call):
        fn = norm(e.func)
        if fn in ("copy.deepcopy", "deepcopy") or fn in FRESH_CALLS:
            return True, f"{fn}(...) returns a fresh value"
        if fn.startswith("self._persist_") or fn.startswith("self.get_persisted"):
            return True, "fresh structure built by the persistence helper"
        return False, ""
    if isinstance(e, ast.IfExp):
        a, _ = _fresh(e.body)
        b, _ = _fresh(e.orelse)
        return a and b, "both branches fresh"
    if isinstance(e, ast.Attribute) and e.attr == "status":
        return True, "immutable string"
    return False, ""


def _validated_before(f, use, var, key) -> bool:
    """An earlier statement that dominates *use* raises a library error when *key* is absent from *var*:
    an ``if`` whose body raises an XStateMachineError subclass and whose condition depends (through
    local assignments) on an expression mentioning both the variable and the key constant."""
    g = cfg_of(f.node)
    use_nodes = cfg_node_of(f, use)
    for x in own_nodes(f.node):
        if not isinstance(x, ast.If):
            continue
        if not any(isinstance(s_, ast.Raise) and s_.exc is not None and "Error" in norm(s_.exc) and "KeyError" not in norm(s_.exc) for s_ in x.body):
            continue
        tn = g.nodes_of(x.test)
        if not tn or not all(g.always_before(tn, u, follow_exc=False) for u in use_nodes):
            continue
        # expressions the condition depends on
        exprs = [x.test]
        seen = set()
        work = list(names_in_expr(x.test))
        while work:
            nm = work.pop()
            if nm in seen:
                continue
            seen.add(nm)
            for a in assignments_to(f, nm):
                v = getattr(a, "value", None)
                if v is not None:
                    exprs.append(v)
                    work.extend(names_in_expr(v))
            # augmenting calls:  missing.append("configuration") under a test on the variable
            for y in own_nodes(f.node):
                if isinstance(y, ast.Call) and isinstance(y.func, ast.Attribute) and dotted(y.func.value) == nm and y.func.attr in ("append", "add", "extend"):
                    exprs.extend(y.args)
                    for at, pol in guards_at(f, y):
                        exprs.append(at)
        mentions_var = any(isinstance(n_, ast.Name) and n_.id == var for e in exprs for n_ in ast.walk(e))
        mentions_key = any(const_str(n_) == key for e in exprs for n_ in ast.walk(e))
        if mentions_var and mentions_key:
            return True
    return False


def names_in_expr(e):
    return {n_.id for n_ in ast.walk(e) if isinstance(n_, ast.Name)}


_run_before_r12 = run


def run(ctx):
    _run_before_r12(ctx)
    # ---- R12 start() resumes the restored children of an interpreter restored in any live-or-terminal status ---------------------------
    # A snapshot can be taken while a 'done' / 'error' actor still owns running children (completion does not stop them; only stop()
    # does).  from_snapshot rebuilds those children without consumer tasks; Interpreter.start() on the restored root is what brings
    # them back.  The loop that restarts the children must therefore be reachable for 'running', 'done' and 'error'.
    from sa.typestate import status_flow
    from sa.cfg import cfg_of as _cfg
    from sa.util import cfg_node_of as _cn, enclosing_loops as _el
    c, p = ctx.c, ctx.p
    st = p.method("Interpreter", "start")
    resumes = [x for x in own_nodes(st.node) if isinstance(x, ast.Call) and isinstance(x.func, ast.Attribute) and x.func.attr == "start"
               and any(isinstance(l, ast.For) and "_actors" in norm(l.iter) for l in _el(st, x))]
    if c.expect("R12", "child-resume loop in Interpreter.start", len(resumes), 1, st,
                "Interpreter.start no longer restarts the restored child actors: a restored hierarchy comes back with dead children"):
        g = _cfg(st.node)
        for s0 in ("running", "done", "error"):
            flow = status_flow(st, frozenset({s0}))
            ok = all(any(flow.get(i) for i in _cn(st, x)) for x in resumes)
            c.ob("R12", ok, st, f"children-resumed-when-{s0}", f"start() on an interpreter restored as '{s0}' restarts its restored children" if ok else
                 f"start() on an interpreter restored with status '{s0}' never reaches the loop that restarts its restored child actors: they keep their "
                 f"persisted 'running' status but have no consumer task, so every event sent to them is queued and never processed", resumes[0])
