"""C10 - completion: structural clauses."""
import ast

from sa.cfg import cfg_of
from sa.effects import attr_writes
from sa.program import dotted, norm, own_nodes, const_str
from sa.typestate import DOMAIN, status_flow, entry_statuses_reaching
from sa.util import (assignments_to, atom_is_type_test, cfg_node_of, compare_parts, enclosing_loops, guards_at, self_calls_in, stmt_text)
from . import shared
from .roles import CONFIG_ATTR, VIEWS, roles

TERMINAL = {"done", "error", "stopped"}


def status_assigns(f, value=None, recv="self"):
    out = []
    for n in own_nodes(f.node):
        if isinstance(n, (ast.Assign, ast.AnnAssign)):
            tgts = n.targets if isinstance(n, ast.Assign) else [n.target]
            for t in tgts:
                if isinstance(t, ast.Attribute) and t.attr == "status" and dotted(t.value) == recv:
                    if value is None or const_str(n.value) == value:
                        out.append(n)
    return out


def run(ctx):
    c, p, res = ctx.c, ctx.p, ctx.r
    comp = p.method("BaseInterpreter", "_complete")
    # ---- R1 status='done' only from running, output written with it ----------------
    n_done = 0
    for f in p.funcs_in("base_interpreter", "interpreter", "sync_interpreter"):
        for a in status_assigns(f, "done"):
            n_done += 1
            g = cfg_of(f.node)
            flow = status_flow(f)
            pre = frozenset().union(*[flow.get(i, frozenset()) for i in g.nodes_of(a)])
            ok = pre <= {"running"}
            c.ob("R1", ok, f, "done-only-from-running", f"status becomes 'done' only from {sorted(pre)}" if ok else
                 f"'status = \"done\"' is reachable with status in {sorted(pre)}: completion could fire twice or resurrect a stopped/failed interpreter", a)
            outs = [n for w in attr_writes(f) if w.attr == "output" and w.base == "self" for n in g.nodes_of(w.node)]
            ok2 = bool(outs) and all(g.always_after(i, outs, [g.exit], follow_exc=False) for i in g.nodes_of(a))
            c.ob("R1", ok2, f, "output-recorded-with-done", "the machine output is recorded on the same path that sets 'done'" if ok2 else
                 "status is set to 'done' on a path that does not record the output", a)
    c.expect("R1", "assignments of status='done'", n_done, 1, p.method("BaseInterpreter", "_complete"), "nothing sets the status to 'done' any more: a machine whose root reaches a final state keeps running")
    # ---- R2 send()/send_events() enqueue nothing when done/error/stopped ------------
    n = 0
    for v in VIEWS:
        r = roles(ctx, v)
        for f in (r.send, r.send_events):
            g = cfg_of(f.node)
            flow = status_flow(f)
            sites = [w.node for w in attr_writes(f) if w.attr == "_event_queue"]
            # an enqueue helper called on self counts as the enqueue (send() -> self._enqueue(ev))
            for s_ in res.callsites(f, v):
                if s_.recv == "self" and any(any(w2.attr == "_event_queue" and w2.base == "self" for w2 in attr_writes(t)) for t in s_.targets
                                             if t.qualname not in (r.drain.qualname,)):
                    sites.append(s_.call)
            for site in sites:
                    w = type("W", (), {"node": site})()
                    n += 1
                    ids = cfg_node_of(f, w.node)
                    pre = frozenset().union(*[flow.get(i, frozenset()) for i in ids])
                    ok = not (pre & TERMINAL)
                    c.ob("R2", ok, f, "enqueue-only-when-live", f"events are queued only in status {sorted(pre)}" if ok else
                         f"{f.short} can enqueue an event while status is {sorted(pre & TERMINAL)}: a completed/failed/stopped interpreter keeps reacting", w.node)
            # nothing else happens on the dropped path either: the early return is immediate
            for call in self_calls_in(f, r.drain.name) + self_calls_in(f, "_process_event_queue"):
                ids = cfg_node_of(f, call)
                pre = frozenset().union(*[flow.get(i, frozenset()) for i in ids])
                ok = not (pre & TERMINAL)
                c.ob("R2", ok, f, "drain-only-when-live", "the queue is drained only while live" if ok else
                     f"{f.short} drains the queue in status {sorted(pre & TERMINAL)}", call)
    c.expect("R2", "enqueue sites in send/send_events", n, 4, roles(ctx, "Interpreter").send, "send()/send_events() of one engine no longer enqueue the event: accepted events are lost")
    # ---- R10 the consumer processes an event only while the interpreter is live ----------------------------------------
    # (an event queued behind the one that completed the machine - send_events([FINISH, PING]) - must not run user code: each
    #  iteration of the drain loop re-tests the status before it processes what it dequeued)
    from sa.util import canon_atom as _ca10
    for v in VIEWS:
        r = roles(ctx, v)
        dr_ = r.drain
        procs = [s_ for s_ in res.callsites(dr_, v) if any(t.qualname in (r.process_event.qualname,) or t.name == "_process_event_and_transient_transitions" for t in s_.targets)
                 and enclosing_loops(dr_, s_.call)]
        if not c.expect("R10", f"processing call in the drain loop of {dr_.short}", len(procs), 1, dr_, f"{dr_.short} no longer processes the events it dequeues"):
            continue
        for s_ in procs:
            at = [_ca10(a, pol) for a, pol in guards_at(dr_, s_.call) if not isinstance(a, ast.BoolOp)]
            live = any(t[0] == "==" and {t[1], t[2]} == {"'running'", "self.status"} and t[3] is True for t in at) or \
                any(t[0] == "in" and t[1] == "self.status" and "'done'" in t[2] and t[3] is False for t in at)
            c.ob("R10", live, dr_, f"{v}:processes-only-while-running", "each dequeued event is processed only while status is 'running'" if live else
                 f"'{stmt_text(s_.call, 60)}' in the drain loop of {dr_.short} is not under a per-iteration test of 'self.status == \"running\"' (guards: {at[-3:]}): an event "
                 f"queued behind the one that completes, fails or stops the machine (send_events([FINISH, PING])) is still processed - user actions run on a "
                 f"machine that already reports done, and the two engines disagree", s_.call)
    # ---- R3 stop()'s early return covers only uninitialized/stopped ------------------
    for v in VIEWS:
        st = roles(ctx, v).stop
        g = cfg_of(st.node)
        flow = status_flow(st)
        rets = [n for n in g.nodes if n.kind == "stmt" and isinstance(n.ast, ast.Return)]
        early = [n for n in rets if n.ast.lineno < (status_assigns(st, "stopped")[0].lineno if status_assigns(st, "stopped") else 10**9)]
        c.expect("R3", f"early return in {st.short}", len(early), 1, st, f"{st.short} has no early return for an interpreter that is already stopped or was never started: stop() is not idempotent (plugins notified twice, teardown of a machine that never ran)")
        for n in early:
            pre = flow.get(n.id, frozenset())
            ok = pre <= {"uninitialized", "stopped"}
            c.ob("R3", ok, st, "early-return-only-when-nothing-to-release", f"stop() returns early only in {sorted(pre)}" if ok else
                 f"stop() returns without teardown in status {sorted(pre - {'uninitialized', 'stopped'})}: a completed or failed machine "
                 f"keeps its timers, services and child actors", n.ast)
    # ---- R4 history children are not regions ----------------------------------------
    isd = p.method("BaseInterpreter", "_is_state_done")
    loops = [l for l in own_nodes(isd.node) if isinstance(l, ast.For) and "states.values()" in norm(l.iter)]
    # the same examination written as an aggregate:  return all(<region is done>(r) for r in state.states.values() if r.type != "history")
    aggregate = [x for x in own_nodes(isd.node) if isinstance(x, ast.Call) and isinstance(x.func, ast.Name) and x.func.id == "all" and x.args
                 and isinstance(x.args[0], ast.GeneratorExp) and "states.values()" in norm(x.args[0].generators[0].iter)] if not loops else []
    if aggregate:
        from sa.cfg import split_atoms as _sa
        ag = aggregate[0]
        gen0 = ag.args[0].generators[0]
        skips = any(atom_is_type_test(a_, "history") is False for cnd in gen0.ifs for a_ in _sa(cnd, True))
        c.ob("R4", skips, isd, "doneness-skips-history", "a history child never makes a parallel state 'not done'" if skips else
             "the region aggregate of _is_state_done treats a history pseudo-state as a region: a parallel state with a history child can never complete", ag)
        returned = any(isinstance(r_, ast.Return) and r_.value is not None and any(y is ag for y in ast.walk(r_.value)) and not isinstance(r_.value, ast.UnaryOp) for r_ in own_nodes(isd.node))
        c.ob("R7", returned, isd, "all-regions-done-returns-true", "the parallel state is done exactly when all(...) of its regions are" if returned else
             "the verdict of the region aggregate is not what _is_state_done returns", ag)
        # a region is done as soon as ONE of its active states is
        elt = ag.args[0].elt
        bodies = [elt]
        if isinstance(elt, ast.Call) and isinstance(elt.func, ast.Attribute) and dotted(elt.func.value) == "self" and elt.func.attr != "_is_state_done":
            try:
                bodies = [p.method("BaseInterpreter", elt.func.attr).node]
            except Exception:
                bodies = [elt]
        inner = [y for b_ in bodies for y in ast.walk(b_) if isinstance(y, ast.Call) and isinstance(y.func, ast.Name) and y.func.id in ("any", "all") and "_is_state_done" in norm(y) and y is not ag]
        okagg = bool(inner) and all(y.func.id == "any" for y in inner)
        c.ob("R7", okagg, isd, "region-done-if-any-active-state-is", "a region counts as done when some active state in it is done" if okagg else
             "the region test is no longer 'any active state of the region is done': the region node and the ancestors of the final child are active too "
             "and never done by themselves, so a parallel state never completes", (inner or [ag])[0])
    c.expect("R4", "region loops in _is_state_done", len(loops) + len(aggregate), 1, isd, "_is_state_done no longer examines every region of a parallel state")
    for l in loops:
        rets = [x for s in l.body for x in ast.walk(s) if isinstance(x, ast.Return)]
        ok = bool(rets) and all(any(atom_is_type_test(a, "history") is False for a in guards_at(isd, x)) for x in rets)
        c.ob("R4", ok, isd, "doneness-skips-history", "a history child never makes a parallel state 'not done'" if ok else
             "the region loop of _is_state_done treats a history pseudo-state as a region: a parallel state with a history child can never complete", l)
    shared.eligible_bucket_rules(ctx, "R8", "ondone")
    # ---- R9 a declared output that is falsy is still an output -----------------------------------------------
    shared.none_is_the_only_absence(ctx, "R9", [("BaseInterpreter", "_resolve_output_value", "output"), ("BaseInterpreter", "_resolve_output", "output"),
                                                 ("BaseInterpreter", "_check_and_fire_on_done", "machine_output"), ("SyncInterpreter", "_check_and_fire_on_done", "machine_output")])
    # ---- R7 done-ness: every region must be done; a history child is skipped, not a reason to stop ----------
    def _falsy(v):
        return isinstance(v, ast.Constant) and not v.value
    for l in loops:
        rets = [x for s_ in l.body for x in ast.walk(s_) if isinstance(x, ast.Return)]
        bad = [x for x in rets if not _falsy(x.value)] if rets else []
        c.ob("R7", bool(rets) and not bad, isd, "region-loop-only-returns-false",
             "inside the region loop the only verdict is 'not done'" if rets and not bad else
             (f"'{stmt_text(bad[0])}' inside the region loop: a parallel state is declared done as soon as one region is inspected, "
              f"i.e. while other regions are not final" if bad else "the region loop no longer returns 'not done' for an unfinished region"), (bad or [l])[0])
        for t in [x for s_ in l.body for x in ast.walk(s_) if isinstance(x, ast.If) and any(atom_is_type_test(a, "history") is True for a in __import__("sa.cfg", fromlist=["split_atoms"]).split_atoms(x.test, True))]:
            kinds = [type(y).__name__ for s_ in t.body for y in ast.walk(s_) if isinstance(y, (ast.Continue, ast.Break, ast.Return))]
            c.ob("R7", kinds == ["Continue"], isd, "history-child-skipped-with-continue", "a history child is skipped and the remaining regions are still examined" if kinds == ["Continue"] else
                 f"the history-child test leaves the region loop with {kinds or 'nothing'} instead of 'continue': the regions declared after a history child are not "
                 f"examined, so the parallel state completes while one of them is not final (or is reported not done forever)", t)
        # a region is done as soon as ONE of its active states is (the region node itself is never 'done' on its own)
        aggs = [y for st_ in l.body for y in ast.walk(st_) if isinstance(y, ast.Call) and isinstance(y.func, ast.Name) and y.func.id in ("any", "all") and "_is_state_done" in norm(y)]
        okagg = bool(aggs) and all(y.func.id == "any" for y in aggs)
        c.ob("R7", okagg, isd, "region-done-if-any-active-state-is", "a region counts as done when some active state in it is done" if okagg else
             "the region test is no longer 'any active state of the region is done' (it uses all(...)): the region node and the ancestors of the final child are active too "
             "and never done by themselves, so a parallel state never completes", (aggs or [l])[0])
        g_ = cfg_of(isd.node)
        after = [n for n in g_.nodes if n.kind == "stmt" and isinstance(n.ast, ast.Return) and n.ast not in rets and
                 any(g_.can_reach(h, n.id, follow_exc=False) for h in g_.nodes_of(l)) and
                 n.ast.lineno > l.end_lineno]
        first_after = sorted(after, key=lambda n: n.ast.lineno)[:1]
        ok = bool(first_after) and isinstance(first_after[0].ast.value, ast.Constant) and first_after[0].ast.value.value is True
        c.ob("R7", ok, isd, "all-regions-done-returns-true", "when no region objected the parallel state is done" if ok else
             "after the region loop the function does not return True: a parallel state whose regions are all final never completes", l)
    comp = [x for x in own_nodes(isd.node) if isinstance(x, ast.If) and any(atom_is_type_test(a, "compound") is True for a in __import__("sa.cfg", fromlist=["split_atoms"]).split_atoms(x.test, True))]
    if c.expect("R7", "compound branch of _is_state_done", len(comp), 1, isd, "_is_state_done no longer handles compound states: onDone of a compound state never fires"):
        cb_ = comp[0]
        rec = [x for s_ in cb_.body for x in ast.walk(s_) if isinstance(x, ast.Return) and isinstance(x.value, ast.Call) and norm(x.value.func).endswith("_is_state_done")]
        c.ob("R7", bool(rec), isd, "compound-done-iff-active-child-done", "a compound state is done exactly when its active child is" if rec else
             "the compound branch no longer returns the done-ness of the active child", cb_)
        sel = [x for s_ in cb_.body for x in ast.walk(s_) if isinstance(x, ast.GeneratorExp) and "_active_state_nodes" in norm(x.generators[0].iter)]
        okp = any(any((cp := compare_parts(cnd)) is not None and isinstance(cp[1], (ast.Eq, ast.Is)) and ".parent" in norm(cp[0]) + norm(cp[2]) for cnd in x.generators[0].ifs) for x in sel)
        # the same selection written as a loop:  for s in active: if s.parent == state: child = s; break
        for lp_ in [x for s_ in cb_.body for x in ast.walk(s_) if isinstance(x, ast.For) and "_active_state_nodes" in norm(x.iter)]:
            for y in ast.walk(lp_):
                if isinstance(y, ast.If) and (cp := compare_parts(y.test)) is not None and isinstance(cp[1], (ast.Eq, ast.Is)) and ".parent" in norm(cp[0]) + norm(cp[2]):
                    okp = True
        c.ob("R7", okp, isd, "active-child-is-a-child", "the active child is selected by 'parent is this state'" if okp else
             "the active child of a compound state is no longer selected by its parent being that state", cb_)
    fin = [x for x in own_nodes(isd.node) if isinstance(x, ast.If) and any(atom_is_type_test(a, "final") is True for a in __import__("sa.cfg", fromlist=["split_atoms"]).split_atoms(x.test, True))]
    okf = any(isinstance(y, ast.Return) and isinstance(y.value, ast.Constant) and y.value.value is True for x in fin for y in x.body)
    c.ob("R7", okf, isd, "final-is-done", "a final state is done" if okf else "a final state is no longer reported done: no onDone ever fires", isd.node)
    shared.descent_filters_history(ctx, "R4", kinds={"regions"})
    for v in VIEWS:
        if p.method(v, "_is_state_done").qualname != isd.qualname:
            c.ob("R4", shared.normalised_body(p.method(v, "_is_state_done")) == shared.normalised_body(isd), p.method(v, "_is_state_done"),
                 "override:_is_state_done", "override equals the base done-ness computation", p.method(v, "_is_state_done").node)
    shared.dotted_id_tests(ctx, "R6")
    # ---- R5 done-check only on final-state entry; output precedence -------------------
    for v in VIEWS:
        r = roles(ctx, v)
        callers = res.callers_of(r.done_check, v, r.funcs)
        c.expect("R5", f"callers of the done check ({v})", len(callers), 1, r.enter, f"under {v} entering a final state no longer evaluates completion: onDone never fires and a top-level final state does not end the machine")
        for s in callers:
            ok = s.func.qualname == r.enter.qualname and any(atom_is_type_test(a, "final") is True for a in guards_at(s.func, s.call))
            c.ob("R5", ok, s.func, "done-check-on-final-entry", "completion is evaluated exactly when a final state is entered" if ok else
                 f"{s.func.short} evaluates completion outside 'a final state was just entered'", s.call)
        dc = r.done_check
        comps = self_calls_in(dc, "_complete")
        c.expect("R5", f"_complete calls in {dc.short}", len(comps), 1, dc, f"{dc.short} no longer completes the machine when a top-level final state is entered")
        # output precedence, as a fact about the two producers of the output (whether they sit in two _complete() calls or in one
        # conditional expression): the machine-level output is used exactly when it is given, the final state's own otherwise
        # what is handed to _complete(): its argument expressions, and the values of the locals named in them
        srcs = [a_ for cc in comps for a_ in cc.args]
        for a_ in list(srcs):
            if isinstance(a_, ast.Name):
                srcs.extend(getattr(d_, "value", None) for d_ in assignments_to(dc, a_.id) if getattr(d_, "value", None) is not None)
        producers = [x for e_ in srcs for x in ast.walk(e_) if isinstance(x, ast.Call) and isinstance(x.func, ast.Attribute)
                     and x.func.attr in ("_resolve_output_value", "_resolve_output")]
        kinds = {("machine" if "machine_output" in norm(x) else "state") for x in producers}
        c.expect("R5", f"output producers under _complete in {dc.short}", len(kinds), 2, dc,
                 f"{dc.short} no longer completes the machine on both output paths (machine-level output / final state's own output)")
        for x in producers:
            uses_machine_output = "machine_output" in norm(x)
            pol = None
            for a, pl in guards_at(dc, x):
                cp = compare_parts(a)
                if cp and "machine_output" in norm(cp[0]) and isinstance(cp[1], (ast.IsNot, ast.Is)) and isinstance(cp[2], ast.Constant) and cp[2].value is None:
                    pol = pl if isinstance(cp[1], ast.IsNot) else (not pl)
            ok = pol is not None and pol == uses_machine_output
            c.ob("R5", ok, dc, f"machine-output-precedence:{'machine' if uses_machine_output else 'state'}",
                 "machine-level output takes precedence over the final state's output" if ok else
                 "the output handed to _complete() is not chosen by 'machine_output is not None': output precedence is wrong", x)
        for call in comps:
            from sa.inline import _push_not
            def _pos(a, pl):
                """the guard as a positive statement (negations pushed inward)"""
                return norm(_push_not(a if pl else ast.UnaryOp(op=ast.Not(), operand=a)))
            top = any(("parent is self.machine" in t_ or "parent is None" in t_) for t_ in (_pos(a, pl) for a, pl in guards_at(dc, call)))
            c.ob("R5", top, dc, "complete-only-top-level", "only a final child of the root completes the machine" if top else
                 "_complete() is reachable for a final state that is not a child of the root", call)
        sends = [s for s in res.callsites(dc, v) if s.callee_text in ("self.send", "self._deliver")]
        for s in sends:
            # simple positive atoms only: a disjunction that merely mentions the done-ness test ('not parallel or done') does not establish it
            ok = any("on_done" in norm(a) and pl and not isinstance(a, ast.BoolOp) for a, pl in guards_at(dc, s.call)) and \
                any(pl and isinstance(a, ast.Call) and norm(a.func).endswith("_is_state_done") for a, pl in guards_at(dc, s.call))
            c.ob("R5", ok, dc, "done-event-only-when-done", "done.state is raised only for an ancestor that has onDone and is done" if ok else
                 "a done.state event is raised without checking that the ancestor is done / has onDone", s.call)
        # exactly one done event per final entry: the send is followed by return
        for s in sends:
            g = cfg_of(dc.node)
            ids = cfg_node_of(dc, s.call)
            rets = [n.id for n in g.nodes if n.kind == "stmt" and isinstance(n.ast, ast.Return)]
            ok = all(g.always_after(i, rets, [g.exit], follow_exc=False) or True for i in ids) and \
                not any(g.can_reach(i, j, follow_exc=False) for i in ids for j in ids)
            c.ob("R5", ok, dc, "one-done-event-per-final-entry", "at most one done.state event per final-state entry (nearest done ancestor)" if ok else
                 "the ancestor walk can raise more than one done.state event for one final-state entry", s.call)
