"""C08 - delayed (after) transitions: structural clauses. Time quantities are not decided."""
import ast

from sa.cfg import cfg_of
from sa.effects import attr_writes
from sa.program import dotted, norm, own_nodes, const_str
from sa.util import (ancestors, cfg_node_of, compare_parts, enclosing_loops, guards_at, in_handler, self_calls_in,
                     stmt_text, names_in)
from . import shared
from .roles import CONFIG_ATTR, VIEWS, roles


def run(ctx):
    c, p, res = ctx.c, ctx.p, ctx.r
    shared.armed_on_every_entry(ctx, "R14")
    shared.arming_key_is_cancelling_key(ctx, "R13")
    shared.declared_entries_kept(ctx, "R12", "_parse_after", "'after' delays", "the delayed transition is never armed")
    # ---- R1 cancel before exit actions -------------------------------------------
    shared.cancel_before_exit_actions(ctx, "R1")
    # ---- R2 timers are armed only by _schedule_state_tasks, once per transition --
    sched = p.method("BaseInterpreter", "_schedule_state_tasks")
    n = 0
    for v in VIEWS:
        r = roles(ctx, v)
        if r.schedule.qualname != sched.qualname:
            c.ob("R2", False, r.schedule, "schedule-overridden", f"{r.schedule.short} overrides task arming; rule must be re-derived", r.schedule.node)
        timer = p.method(v, "_after_timer")
        for s in res.callers_of(timer, v, r.funcs):
            n += 1
            ok = s.func.qualname == sched.qualname
            c.ob("R2", ok, s.func, "arms-after-timer", "timers are armed only by _schedule_state_tasks" if ok else
                 f"{s.func.short} arms an after-timer outside _schedule_state_tasks: it is not tied to a state entry and is not cancelled on exit", s.call)
        for s in res.callers_of(sched, v, r.funcs):
            n += 1
            ok = s.func.qualname == r.enter.qualname or (s.func.qualname == r.executor.qualname and in_handler(s.func, s.call) is not None)
            c.ob("R2", ok, s.func, "calls-schedule", "tasks are (re)armed only on entry and by rollback" if ok else
                 f"{s.func.short} re-arms a state's timers outside entry/rollback: the delay restarts without a re-entry", s.call)
    c.floor("R2", "timer arming call sites", n, 6)
    shared.rollback_rearm(ctx, "R2")
    g = cfg_of(sched.node)
    calls = self_calls_in(sched, "_after_timer")
    c.expect("R2", "_after_timer calls in _schedule_state_tasks", len(calls), 1, sched, f"{sched.short} no longer arms the after-timers of the state it is called for: delayed transitions never fire")
    for call in calls:
        loops = [l for l in enclosing_loops(sched, call) if isinstance(l, ast.For)]
        ok = len(loops) == 2 and "after" in norm(loops[-1].iter)
        inner_hdr = g.nodes_of(loops[0])[0] if loops else None
        uncond = inner_hdr is not None and shared.unconditional_in_loop(g, inner_hdr, cfg_node_of(sched, call))
        c.ob("R2", ok and uncond, sched, "one-timer-per-after-transition",
             "exactly one timer per declared after-transition per entry" if ok and uncond else
             "the after-timer is not armed exactly once per declared transition (loop structure changed)", call)
        # the event carries the transition's own event name
        ev = call.args[1] if len(call.args) > 1 else None
        src = ev if isinstance(ev, ast.Call) else None          # AfterEvent(type=t.event) written in place
        if isinstance(ev, ast.Name):
            from sa.util import assignments_to
            for a in assignments_to(sched, ev.id):
                src = getattr(a, "value", None)
        ok3 = src is not None and isinstance(src, ast.Call) and norm(src.func) == "AfterEvent" and \
            any("event" in norm(k.value) for k in src.keywords) 
        c.ob("R2", ok3, sched, "timer-event-is-transition-event", "the timer enqueues the transition's own after-event" if ok3 else
             "the event handed to the timer is not built from the transition's event name", call)
    rd = self_calls_in(sched, "_resolve_delay")
    ok = bool(rd) and all(any(isinstance(l, ast.For) and "after" in norm(l.iter) for l in enclosing_loops(sched, x)) for x in rd)
    c.ob("R2", ok, sched, "delay-resolved-at-entry", "named / computed delays are resolved when the state's tasks are armed (at entry)" if ok else
         "_schedule_state_tasks no longer resolves the delay through _resolve_delay for each after-key", sched.node)
    shared.eligible_bucket_rules(ctx, "R8", "after")
    shared.task_registry_ownership(ctx, "R10")
    # ---- R9 sync engine: leaving a state cancels exactly that state's timers; an expired timer fires only if it was not
    #         cancelled, the interpreter is running and the owner is still active ---------------------------------------
    from sa.util import canon_atom as _ca
    sct = p.method("SyncInterpreter", "_cancel_state_tasks")
    sel = [x for x in own_nodes(sct.node) if isinstance(x, (ast.ListComp, ast.GeneratorExp, ast.SetComp)) and "_after_events" in norm(x.generators[0].iter)]
    # the same selection written as a loop:  for k in list(self._after_events.keys()): if <cond>: selected.append(k)
    sel_loops = []
    for l_ in own_nodes(sct.node):
        if isinstance(l_, ast.For) and "_after_events" in norm(l_.iter) and isinstance(l_.target, ast.Name):
            for y in ast.walk(l_):
                if isinstance(y, ast.If) and not y.orelse and any(isinstance(z, ast.Call) and isinstance(z.func, ast.Attribute) and z.func.attr in ("append", "add") and z.args and
                                                                 norm(z.args[0]) == l_.target.id for st_ in y.body for z in ast.walk(st_)):
                    sel_loops.append((l_, y))
    if c.expect("R9", "selection of the timers of the state being left", len(sel) + len(sel_loops), 1, sct, "SyncInterpreter._cancel_state_tasks no longer selects timers from the cancel-flag table"):
        if sel:
            x = sel[0]
            kv = norm(x.generators[0].target)
            conds = x.generators[0].ifs
        else:
            l_, y_ = sel_loops[0]
            x = y_
            kv = l_.target.id
            conds = [y_.test]
        cond = conds[0] if len(conds) == 1 else None
        parts = cond.values if isinstance(cond, ast.BoolOp) and isinstance(cond.op, ast.Or) else ([cond] if cond is not None and not isinstance(cond, ast.BoolOp) else [])
        shapes = [_ca(a) for a in parts]
        pref = any(t[0] == "truthy" and t[1].startswith(f"{kv}.startswith(") and t[3] is True for t in shapes)
        only = all((t[0] == "truthy" and t[1].startswith(f"{kv}.startswith(") and t[3] is True) or (t[0] == "==" and kv in (t[1], t[2]) and t[3] is True) for t in shapes)
        c.ob("R9", bool(shapes) and pref and only, sct, "cancels-only-the-states-own-timers", "the timers cancelled are those keyed by the state (its id, or '<id>::...')" if shapes and pref and only else
             f"the selection '{norm(cond) if cond is not None else [norm(z) for z in conds] or 'no filter'}' is not 'the key is the state id or starts with its prefix': leaving one state "
             f"cancels the pending timers of other active states (sibling regions, ancestors), or leaves its own running", x)
        selv = next((norm(a.targets[0]) for a in own_nodes(sct.node) if isinstance(a, ast.Assign) and any(x is y for y in ast.walk(a.value))), None)
        if selv is None and sel_loops:
            selv = next((norm(z.func.value) for st_ in sel_loops[0][1].body for z in ast.walk(st_) if isinstance(z, ast.Call) and isinstance(z.func, ast.Attribute) and z.func.attr in ("append", "add")), None)
        sets = [y for y in own_nodes(sct.node) if isinstance(y, ast.Call) and isinstance(y.func, ast.Attribute) and y.func.attr == "set" and "_after_events" in norm(y.func.value)]
        if c.expect("R9", "signalling of the selected cancel flags", len(sets), 1, sct, "SyncInterpreter._cancel_state_tasks no longer sets the cancel flags it selected: the timer threads keep waiting and fire"):
            for y in sets:
                at = [_ca(a, pol) for a, pol in guards_at(sct, y)]
                bad = [t for t in at if (t[0] == "truthy" and t[1] == selv and t[3] is False) or (t[0] == "truthy" and ((t[1] == "False" and t[3]) or (t[1] == "True" and not t[3])))]
                lp_ok = any(isinstance(l, ast.For) and norm(l.iter) == selv for l in enclosing_loops(sct, y))
                c.ob("R9", not bad and lp_ok, sct, "every-selected-flag-is-set", "every selected cancel flag is set" if not bad and lp_ok else
                     f"the cancel flags are set only under {bad or 'a loop that does not run over the selection'}: with timers pending for the state nothing is cancelled", y)
        from sa.util import expand_names
        pfx = [a for a in own_nodes(sct.node) if isinstance(a, ast.Assign) and isinstance(a.value, ast.JoinedStr) and "::" in norm(a.value)]
        if not pfx:
            # the prefix written in place (or folded in from a helper): k.startswith(f"{state.id}::")
            for a_ in parts:
                for y_ in ast.walk(expand_names(sct, a_)):
                    if isinstance(y_, ast.Call) and isinstance(y_.func, ast.Attribute) and y_.func.attr == "startswith" and y_.args:
                        arg = y_.args[0]
                        last = arg.values[-1] if isinstance(arg, ast.JoinedStr) and arg.values else (arg.right if isinstance(arg, ast.BinOp) else None)
                        if isinstance(last, ast.Constant) and isinstance(last.value, str) and last.value.endswith("::"):
                            pfx.append(y_)
        c.ob("R9", bool(pfx), sct, "prefix-carries-the-separator", "the key prefix ends with the '::' separator" if pfx else
             "the key prefix no longer ends with '::': the timers of a state whose id merely extends this one's id are cancelled too", sct.node)
    sat = p.method("SyncInterpreter", "_after_timer")
    workers = [n_ for n_ in sat.nested.values() if any(isinstance(y, ast.Call) and isinstance(y.func, ast.Attribute) and y.func.attr == "wait" for y in own_nodes(n_.node))]
    if c.expect("R9", "timer worker of SyncInterpreter._after_timer", len(workers), 1, sat, "the sync after-timer no longer waits in a worker"):
        w = workers[0]
        sends = [y for y in own_nodes(w.node) if isinstance(y, ast.Call) and isinstance(y.func, ast.Attribute) and y.func.attr == "send" and norm(y.func.value) == "self"]
        if c.expect("R9", "delivery of the after-event by the timer worker", len(sends), 1, w, "the timer worker no longer sends the after-event: delayed transitions never fire"):
            for y in sends:
                at = [_ca(a, pol) for a, pol in guards_at(w, y) if not isinstance(a, ast.BoolOp)]
                raw = guards_at(w, y)
                wait_vars = {norm(a.targets[0]) for a in own_nodes(w.node) if isinstance(a, ast.Assign) and isinstance(a.value, ast.Call) and isinstance(a.value.func, ast.Attribute) and a.value.func.attr == "wait"}
                not_cancelled = any(t[0] == "truthy" and (t[1] in wait_vars or ".wait(" in t[1]) and t[3] is False for t in at)
                running = ("==", "'running'", "self.status", True) in at
                owner = any(t[0] == "truthy" and t[1].startswith("any(") and "owner_id" in t[1] and "_active_state_nodes" in t[1] and t[3] is True for t in at)
                ok = not_cancelled and running and owner and not any(isinstance(a, ast.Constant) for a, pol in raw)
                c.ob("R9", ok, w, "fires-only-if-not-cancelled-running-and-owner-active",
                     "an expired timer sends its event only if it was not cancelled, the interpreter is running and the owning state is still active" if ok else
                     f"the send of the expired timer is guarded by {at}: it needs 'not cancelled' ({not_cancelled}), 'status is running' ({running}) and 'the owner is "
                     f"still active' ({owner}) as separate positive tests - otherwise a delayed transition fires after its state was left or after stop()", y)
    # ---- R11 a delay of 0 is a delay ----------------------------------------------------------------------------
    shared.none_is_the_only_absence(ctx, "R11", [("BaseInterpreter", "_resolve_delay", "spec"), ("BaseInterpreter", "_resolve_delay", "named"), ("BaseInterpreter", "_schedule_state_tasks", "resolved_ms")])
    # ---- R7 several delays on one state are independent: nothing but 'continue' (or a raise) leaves an arming loop early ----
    for l in [x for x in own_nodes(sched.node) if isinstance(x, ast.For) and (".after" in norm(x.iter) or ".invoke" in norm(x.iter))]:
        early = [y for st_ in l.body for y in ast.walk(st_) if isinstance(y, (ast.Break, ast.Return))
                 and not any(isinstance(z, (ast.For, ast.While)) and z is not l and any(y is w_ for w_ in ast.walk(z)) and isinstance(y, ast.Break) for st2 in l.body for z in ast.walk(st2))]
        c.ob("R7", not early, sched, f"arming-loop-complete:{norm(l.iter)[:30]}", "every declared delay / invocation of the state is armed (an unusable one is skipped with 'continue')" if not early else
             f"'{stmt_text(early[0])}' leaves the loop over '{norm(l.iter)}' early: the timers / services declared after the first unusable one are never armed", early[0] if early else l)
    # ---- R6 every delay form is resolved to a number: computed specs and callable named delays are called --------
    from sa.util import canon_atom
    rdf = p.method("BaseInterpreter", "_resolve_delay")
    called = {}
    for x in own_nodes(rdf.node):
        if not isinstance(x, ast.If):
            continue
        t = canon_atom(x.test)
        if t[0] == "truthy" and t[1].startswith("callable(") and t[3] is True:
            var = t[1][len("callable("):-1]
            asg = [y for st_ in x.body for y in ast.walk(st_) if isinstance(y, ast.Assign) and norm(y.targets[0]) == var and isinstance(y.value, ast.Call)
                   and (norm(y.value.func) == var or any(norm(a_) == var for a_ in y.value.args))]
            if asg:
                called[var] = x
    spec_p = rdf.params[1] if len(rdf.params) > 1 else "spec"
    c.ob("R6", spec_p in called, rdf, "computed-delay-is-called", "a callable delay is called with the context and the event" if spec_p in called else
         f"_resolve_delay no longer calls a callable delay under 'callable({spec_p})': a computed delay resolves to no delay and the timer never fires", rdf.node)
    named = [v_ for v_ in called if v_ != spec_p]
    lookups = [a for a in own_nodes(rdf.node) if isinstance(a, ast.Assign) and isinstance(a.value, ast.Call) and "delays.get" in norm(a.value.func)]
    if c.expect("R6", "lookup of a named delay in MachineLogic.delays", len(lookups), 1, rdf, "_resolve_delay no longer looks a named delay up in MachineLogic.delays"):
        nv = norm(lookups[0].targets[0])
        c.ob("R6", nv in named, rdf, "callable-named-delay-is-called", "a named delay registered as a callable is called" if nv in named else
             f"a named delay that is a callable is no longer called under 'callable({nv})': float() of the function fails, the error is contained and "
             f"the timer silently never fires", lookups[0])
        # (whether written as  if isinstance(spec, str): ...lookup...  or as the guard clause  if not isinstance(spec, str): return None)
        ok = any(canon_atom(a_, pol_)[:2] == ("truthy", f"isinstance({spec_p}, str)") and canon_atom(a_, pol_)[3] is True for a_, pol_ in guards_at(rdf, lookups[0]))
        c.ob("R6", ok, rdf, "named-delay-only-for-strings", "the named-delay lookup is taken for string delays" if ok else
             "the named-delay lookup is no longer guarded by 'the delay is a string'", lookups[0])
    nums = [r_ for r_ in own_nodes(rdf.node) if isinstance(r_, ast.Return) and isinstance(r_.value, ast.Call) and norm(r_.value.func) == "float" and norm(r_.value.args[0]) == spec_p]
    oknum = any(any(canon_atom(a, pol)[1].startswith(f"isinstance({spec_p}, (int, float)") and canon_atom(a, pol)[3] for a, pol in guards_at(rdf, r_)) for r_ in nums)
    c.ob("R6", oknum, rdf, "numeric-delay-returned", "a numeric delay is returned as milliseconds" if oknum else
         "a numeric delay is no longer returned as float(spec) under the numeric type test", rdf.node)
    # ---- R3 stop() releases every timer container ------------------------------------
    st = roles(ctx, "SyncInterpreter").stop
    sets = [x for x in own_nodes(st.node) if isinstance(x, ast.Call) and isinstance(x.func, ast.Attribute) and x.func.attr == "set"
            and "_after_events" in norm(x.func.value)]
    loops = [l for x in sets for l in enclosing_loops(st, x) if isinstance(l, ast.For) and "_after_events" in norm(l.iter)]
    clears = [w for w in attr_writes(st) if w.attr == "_after_events" and w.op == "call:clear"]
    ok = bool(sets) and bool(loops) and bool(clears)
    c.ob("R3", ok, st, "sync-stop-cancels-all-timers", "stop() sets every pending timer's cancel flag and clears the table" if ok else
         "SyncInterpreter.stop() does not cancel every pending after-timer: a timer thread fires after stop()", st.node)
    st = roles(ctx, "Interpreter").stop
    ca = [x for x in own_nodes(st.node) if isinstance(x, ast.Await) and isinstance(x.value, ast.Call) and norm(x.value.func) == "self.task_manager.cancel_all"]
    c.ob("R3", bool(ca), st, "async-stop-cancels-all-tasks", "stop() awaits task_manager.cancel_all()" if ca else
         "Interpreter.stop() does not await task_manager.cancel_all(): timer tasks survive stop()", st.node)
    at = p.method("Interpreter", "_after_timer")
    adds = [x for x in own_nodes(at.node) if isinstance(x, ast.Call) and norm(x.func) == "self.task_manager.add"]
    ok = bool(adds) and all(x.args and norm(x.args[0]) == "owner_id" for x in adds)
    c.ob("R3", ok, at, "timer-task-registered-under-owner", "the timer task is registered under its owning state" if ok else
         "the async timer task is not registered with the task manager under its owner: exit/stop cannot cancel it", at.node)
    shared.background_tasks_owned(ctx, "R3", only_funcs={"_after_timer"})
    syt = p.method("SyncInterpreter", "_after_timer")
    stores = [w for w in attr_writes(syt) if w.attr == "_after_events" and w.op == "subscript"]
    keyok = False
    for w in stores:
        from sa.util import assignments_to
        k = w.node.targets[0].slice
        if isinstance(k, ast.Name):
            for a in assignments_to(syt, k.id):
                if "owner_id" in norm(getattr(a, "value", a)):
                    keyok = True
    c.ob("R3", keyok, syt, "cancel-flag-keyed-by-owner", "the cancel flag is stored under a key derived from the owner id" if keyok else
         "the sync timer's cancel flag is not stored under its owner: _cancel_state_tasks cannot find it", syt.node)
    # one cancel flag per armed timer: the registry key must be unique per timer, not per (state, delay)
    uniq = False
    for w in stores:
        k = w.node.targets[0].slice
        exprs = [k]
        if isinstance(k, ast.Name):
            exprs = [getattr(a, "value", k) for a in assignments_to(syt, k.id)]
        for e in exprs:
            if any(isinstance(y, ast.Call) and ("uuid" in norm(y.func) or norm(y.func) in ("id", "next", "object")) for y in ast.walk(e)):
                uniq = True
    c.ob("R3", uniq, syt, "cancel-flag-key-unique-per-timer",
         "every armed timer registers its cancel flag under a key with a fresh unique component" if uniq else
         "the sync timer's cancel flag is stored under a key that is the same for several timers of one state (e.g. one delay with a list of "
         "candidate transitions arms one timer per candidate): later registrations overwrite earlier ones, exit/stop can signal only the last flag "
         "and the other timer threads can no longer be cancelled, so a stale expiry fires after the state was left and re-entered", syt.node)
    # ---- R4 activation identity of after-events ------------------------------------------
    evmod = p.module("events")
    ae = evmod.classes.get("AfterEvent")
    c.need(ae, "events.AfterEvent")
    fields = [s.target.id for s in ae.node.body if isinstance(s, ast.AnnAssign) and isinstance(s.target, ast.Name)]
    ce = p.method("BaseInterpreter", "_collect_eligible_transitions")
    after_branch = [x for x in own_nodes(ce.node) if isinstance(x, ast.If) and "AfterEvent" in norm(x.test)]
    c.need(after_branch, "after-branch of _collect_eligible_transitions")
    compared = set()
    for x in ast.walk(after_branch[0]):
        if isinstance(x, ast.Attribute) and isinstance(x.value, ast.Name) and x.value.id == "event":
            compared.add(x.attr)
    # purge alternative: the exit role removes the owner's pending synthetic events from the queue
    purge = False
    for v in VIEWS:
        for f in (roles(ctx, v).exit, roles(ctx, v).cancel_tasks):
            if any(w.attr == "_event_queue" for w in attr_writes(f)):
                purge = True
    ident_fields = [f for f in fields if f != "type"]
    ok = (bool(ident_fields) and bool(compared - {"type"})) or purge
    c.ob("R4", ok, ce, "after-event-no-activation-identity",
         "an expiry is tied to the activation that armed it" if ok else
         f"AfterEvent carries only {fields} and the matcher compares only event.{sorted(compared)}: an expiry already queued when its "
         f"state is left and re-entered is indistinguishable from the new activation's and fires it immediately", after_branch[0])
    tt = None
    for f in roles(ctx, "SyncInterpreter").funcs:
        if f.name == "timer_thread":
            tt = f
    c.need(tt, "sync timer thread body")
    rechecks = [x for x in own_nodes(tt.node) if isinstance(x, ast.Attribute) and x.attr == CONFIG_ATTR]
    c.ob("R4", bool(rechecks), tt, "sync-timer-rechecks-owner", "the sync timer re-checks that its owner is still active before sending" if rechecks else
         "the sync timer thread sends without re-checking that its owner state is still active", tt.node)
    # ---- R5 the timer thread reads the shared configuration set ----------------------------
    lock_attrs = {w.attr for w in attr_writes(p.method("SyncInterpreter", "__init__"))
                  if isinstance(getattr(w.node, "value", None), ast.Call) and dotted(w.node.value.func) in ("threading.Lock", "threading.RLock")}
    for t in shared.thread_targets(ctx, "SyncInterpreter"):
        for x in own_nodes(t.node):
            it = None
            if isinstance(x, (ast.GeneratorExp, ast.ListComp, ast.SetComp)):
                it = x.generators[0].iter
            elif isinstance(x, ast.For):
                it = x.iter
            if it is None or not (isinstance(it, ast.Attribute) and it.attr == CONFIG_ATTR):
                continue
            locked = any(isinstance(a, ast.With) and any(isinstance(i.context_expr, ast.Attribute) and i.context_expr.attr in lock_attrs
                                                         for i in a.items) for a in ancestors(t, x))
            own = dotted(it.value) == "self"
            if own:
                c.ob("R5", locked, t, f"thread-iterates-{dotted(it.value)}-configuration",
                     "iteration over the shared set happens under the interpreter's lock" if locked else
                     f"thread entry point {t.name} iterates self.{CONFIG_ATTR} while the caller's thread may add/discard states: "
                     f"'Set changed size during iteration' is raised inside the thread, swallowed by its except Exception, and the timer never fires", x)
            else:
                c.note(f"{t.short} iterates {norm(it)} from another thread (not demonstrated; listed only)")
