"""C11 - history: structural clauses."""
import ast

from sa.cfg import cfg_of
from sa.program import norm, own_nodes, const_str
from sa.util import cfg_node_of, enclosing_loops, self_calls_in
from . import shared
from .roles import CONFIG_ATTR, VIEWS, roles


def run(ctx):
    c, p = ctx.c, ctx.p
    # ---- R1 history recorded before anything is discarded -----------------------------
    for v in VIEWS:
        xt = roles(ctx, v).exit
        g = cfg_of(xt.node)
        rec = self_calls_in(xt, "_record_history")
        if not rec:
            c.ob("R1", False, xt, "record-before-discard",
                 f"{xt.short} never calls _record_history: leaving a state that owns a history child forgets where it was", xt.node)
            continue
        recn = [n for call in rec for n in cfg_node_of(xt, call)]
        discards = shared.config_op_nodes(ctx, v, xt, {"call:discard", "call:remove"})
        acts = [n for call in self_calls_in(xt, "_execute_actions") for n in cfg_node_of(xt, call)]
        ok = all(g.always_before(recn, d, follow_exc=False) for d in discards + acts) and not any(enclosing_loops(xt, call) for call in rec)
        c.ob("R1", ok, xt, "record-before-discard", "history is recorded once, before any exit action or discard" if ok else
             "a state can be discarded (or an exit action run) before the history of its ancestors was recorded: the remembered configuration is incomplete", rec[0])
        arg_ok = all(call.args and norm(call.args[0]) == xt.params[1] for call in rec)
        c.ob("R1", arg_ok, xt, "record-gets-full-exit-set", "the whole exit set is handed to _record_history" if arg_ok else
             "_record_history is not given the complete list of exiting states", rec[0])
    # ---- R2 / R3 ---------------------------------------------------------------------
    shared.history_target_nonempty(ctx, "R2")
    shared.single_history_entry(ctx, "R3")
    shared.history_path_killed(ctx, "R3b")
    # ---- R4 the remembered list must be order-stable ---------------------------------------
    shared.set_order(ctx, "R4", ("base_interpreter",), only_funcs={"BaseInterpreter._record_history", "BaseInterpreter._resolve_history_target"})
    # ---- R5 history persisted and restored under one key -------------------------------------
    gp = p.method("BaseInterpreter", "get_persisted_snapshot")
    fs = p.method("BaseInterpreter", "from_snapshot")
    written = None
    for x in own_nodes(gp.node):
        if isinstance(x, ast.Dict):
            for k, v in zip(x.keys, x.values):
                if k is not None and "_history" in norm(v):
                    written = const_str(k)
    c.need(written, "snapshot key under which _history is persisted")
    reads = [x for x in own_nodes(fs.node) if isinstance(x, ast.Call) and isinstance(x.func, ast.Attribute) and x.func.attr == "get"
             and x.args and const_str(x.args[0]) == written]
    restores = [x for x in own_nodes(fs.node) if isinstance(x, ast.Assign) and "_history" in norm(x.targets[0])]
    ok = bool(reads) and bool(restores)
    c.ob("R5", ok, fs, f"history-key:{written}", f"history is written and read under the key '{written}' and restored into _history" if ok else
         f"get_persisted_snapshot writes history under '{written}' but from_snapshot does not restore it: a restored interpreter forgets where it left off", fs.node)
    # restored nodes are resolved against the machine (ids -> nodes), unknown ids dropped
    ok = any("get_state_by_id" in norm(x) for r_ in restores for x in ast.walk(r_)) or any("get_state_by_id" in norm(a) for a in own_nodes(fs.node) if isinstance(a, ast.ListComp))
    c.ob("R5", ok, fs, "history-ids-resolved", "persisted history ids are resolved back to state nodes" if ok else
         "restored history holds raw ids instead of state nodes", fs.node)
