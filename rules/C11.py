"""C11 - history: structural clauses."""
import ast

from sa.cfg import cfg_of
from sa.program import norm, own_nodes, const_str
from sa.util import assignments_to, cfg_node_of, derives_from, enclosing_loops, guards_at, self_calls_in
from . import shared
from .roles import CONFIG_ATTR, VIEWS, roles


def run(ctx):
    c, p = ctx.c, ctx.p
    # ---- R1 history recorded before anything is discarded -----------------------------
    for v in VIEWS:
        xt = roles(ctx, v).exit
        g = cfg_of(xt.node)
        rec = self_calls_in(xt, "_record_history")
        if not rec:
            c.ob("R1", False, xt, "record-before-discard",
                 f"{xt.short} never calls _record_history: leaving a state that owns a history child forgets where it was", xt.node)
            continue
        recn = [n for call in rec for n in cfg_node_of(xt, call)]
        discards = shared.config_op_nodes(ctx, v, xt, {"call:discard", "call:remove"})
        acts = [n for call in self_calls_in(xt, "_execute_actions") for n in cfg_node_of(xt, call)]
        ok = all(g.always_before(recn, d, follow_exc=False) for d in discards + acts) and not any(enclosing_loops(xt, call) for call in rec)
        c.ob("R1", ok, xt, "record-before-discard", "history is recorded once, before any exit action or discard" if ok else
             "a state can be discarded (or an exit action run) before the history of its ancestors was recorded: the remembered configuration is incomplete", rec[0])
        arg_ok = all(call.args and norm(call.args[0]) == xt.params[1] for call in rec)
        c.ob("R1", arg_ok, xt, "record-gets-full-exit-set", "the whole exit set is handed to _record_history" if arg_ok else
             "_record_history is not given the complete list of exiting states", rec[0])
    # ---- R6 the history target is resolved before the exit phase overwrites the record ------
    for v in VIEWS:
        ex = roles(ctx, v).executor
        g = cfg_of(ex.node)
        rn = [n for call in self_calls_in(ex, "_resolve_history_target") for n in cfg_node_of(ex, call)]
        xn = [n for call in self_calls_in(ex, "_exit_states") for n in cfg_node_of(ex, call)]
        c.expect("R6", f"history resolution sites in {ex.short}", len(rn), 1, ex, f"{ex.short} no longer resolves a history target through _resolve_history_target: a transition to a history state enters the pseudo-state itself or nothing")
        if not xn:
            continue
        late = [r_ for r_ in rn if any(g.can_reach(x_, r_, follow_exc=False) for x_ in xn)]
        c.ob("R6", not late, ex, "resolve-history-before-exit",
             "the remembered configuration is read before _exit_states (which re-records history) runs" if not late else
             "_resolve_history_target is reachable after _exit_states: the exit phase has just re-recorded the parent's history, so a history "
             "transition taken from inside the parent restores the child it is leaving instead of the remembered one", g.nodes[late[0]].ast if late else ex.node)
    # ---- R10 each restored state is entered once: the combined entry path holds no state twice -----------
    from sa.util import canon_atom
    for v in VIEWS:
        ex = roles(ctx, v).executor
        apps = [x for x in own_nodes(ex.node) if isinstance(x, ast.Call) and isinstance(x.func, ast.Attribute) and x.func.attr == "append"
                and len(enclosing_loops(ex, x)) >= 2 and any("_get_path_to_state" in norm(l.iter) for l in enclosing_loops(ex, x) if isinstance(l, ast.For))]
        if not c.expect("R10", f"appends to the combined history entry path in {ex.short}", len(apps), 1, ex,
                        f"{ex.short} no longer builds one combined entry path for the restored states"):
            continue
        for x in apps:
            lst, item = norm(x.func.value), norm(x.args[0]) if x.args else "?"
            ok = any(canon_atom(a, pol) == ("in", item, lst, False) for a, pol in guards_at(ex, x))
            c.ob("R10", ok, ex, "combined-path-has-no-duplicates", "a step is appended to the combined path only if it is not in it yet" if ok else
                 f"'{norm(x)}' is not guarded by '{item} not in {lst}': ancestors shared by several restored leaves are entered once per leaf "
                 f"(their entry actions run twice, their timers and services are armed twice)", x)
    # ---- R7 shallow / deep selection structure -------------------------------------------------
    rh = p.method("BaseInterpreter", "_resolve_history_target")
    deep_tests = [x for x in own_nodes(rh.node) if isinstance(x, ast.If) and "history" in norm(x.test) and "'deep'" in norm(x.test)]
    c.ob("R7", bool(deep_tests), rh, "deep-branch", "deep and shallow history are distinguished by the history kind" if deep_tests else
         "_resolve_history_target no longer branches on history == 'deep': both kinds restore the same thing", rh.node)
    if deep_tests:
        dt = deep_tests[0]
        from sa.util import canon_atom as _cad
        def _under_deep(x):
            for a, pol in guards_at(rh, x):
                t = _cad(a, pol)
                if t[0] == "==" and "'deep'" in (t[1], t[2]) and t[3] is True:
                    return True
            return False
        leaves = [x for x in own_nodes(rh.node) if isinstance(x, ast.ListComp) and ("is_atomic" in norm(x) or ".states" in norm(x) or "is_final" in norm(x)) and _under_deep(x)]
        c.ob("R7", bool(leaves), rh, "deep-restores-leaves", "deep history restores the remembered leaves" if leaves else
             "the deep-history branch no longer selects the remembered leaf states", dt)
        from sa.util import canon_atom as _ca7
        for lf in leaves:
            var7 = norm(lf.generators[0].target)
            conds = lf.generators[0].ifs
            cond = conds[0] if len(conds) == 1 else None
            parts = cond.values if isinstance(cond, ast.BoolOp) and isinstance(cond.op, ast.Or) else ([cond] if cond is not None and not isinstance(cond, ast.BoolOp) else [])
            sh = {_ca7(x_) for x_ in parts}
            covers = ("truthy", f"{var7}.states", "", False) in sh or {("truthy", f"{var7}.is_atomic", "", True), ("truthy", f"{var7}.is_final", "", True)} <= sh
            c.ob("R7", covers, rh, "deep-leaf-test-covers-final-states", "every remembered state without children counts as a leaf (atomic and final alike)" if covers else
                 f"the leaf test '{norm(cond) if cond is not None else conds}' of the deep-history branch does not cover every childless state: 'is_atomic' is "
                 f"type == \"atomic\", so a remembered *final* leaf is dropped and its region falls back to the initial child", lf)
    hparam = rh.params[1]
    shallow = [x for x in own_nodes(rh.node) if isinstance(x, ast.ListComp) and any(
        isinstance(y, ast.Compare) and isinstance(y.ops[0], (ast.Is, ast.Eq)) and ".parent" in norm(y.left) for cnd in x.generators[0].ifs for y in [cnd])]
    ok = False
    for x in shallow:
        cnd = x.generators[0].ifs[0]
        rhs = cnd.comparators[0]
        if derives_from(rh, rhs, {hparam}):
            ok = True
    c.ob("R7", ok, rh, "shallow-restores-direct-child", "shallow history restores the remembered direct child of the history node's parent" if ok else
         "the shallow-history branch no longer filters the remembered states to direct children of the history node's parent", rh.node)
    # the filtered list is what the shallow branch returns (its first choice): computing it and returning the whole record is deep history
    for x in shallow:
        par_ = __import__("sa.util", fromlist=["parents"]).parents(rh).get(id(x))
        name = par_.targets[0].id if isinstance(par_, ast.Assign) and isinstance(par_.targets[0], ast.Name) else None
        rets = [r_ for r_ in own_nodes(rh.node) if isinstance(r_, ast.Return) and r_.value is not None and name and name in {n_.id for n_ in ast.walk(r_.value) if isinstance(n_, ast.Name)}]
        first = [r_ for r_ in rets if (isinstance(r_.value, ast.Name) and r_.value.id == name) or
                 (isinstance(r_.value, ast.BoolOp) and isinstance(r_.value.op, ast.Or) and isinstance(r_.value.values[0], ast.Name) and r_.value.values[0].id == name)]
        if isinstance(par_, ast.Return):
            first = [par_]
        c.ob("R7", bool(first), rh, "shallow-returns-the-filtered-list", "the shallow branch returns the direct children it selected" if first else
             f"the list of remembered direct children ('{name}') is computed but is not what the shallow branch returns: shallow history restores the whole "
             f"remembered sub-configuration, i.e. behaves like deep history", x)
    # ---- R9 an unvisited history state uses its declared default target first --------------------
    dflt = [a for a in own_nodes(rh.node) if isinstance(a, ast.Assign) and isinstance(a.targets[0], ast.Name) and norm(a.value) == f"{hparam}.target_str"]
    if c.expect("R9", "read of the history state's default target", len(dflt), 1, rh,
                "_resolve_history_target no longer reads the history state's declared default target: an unvisited history state ignores it"):
        dv = dflt[0].targets[0].id
        res_vars = {a.targets[0].id for a in own_nodes(rh.node) if isinstance(a, ast.Assign) and isinstance(a.targets[0], ast.Name)
                    and isinstance(a.value, ast.Call) and "_resolve_state_by_target" in norm(a.value.func) and dv in {n_.id for n_ in ast.walk(a.value) if isinstance(n_, ast.Name)}}
        ok = False
        for r_ in own_nodes(rh.node):
            if isinstance(r_, ast.Return) and r_.value is not None and res_vars & {n_.id for n_ in ast.walk(r_.value) if isinstance(n_, ast.Name)}:
                at = guards_at(rh, r_)
                if any(isinstance(a, ast.Name) and a.id == dv and pol for a, pol in at) and not any(isinstance(a, ast.Constant) for a, pol in at):
                    ok = True
        c.ob("R9", ok, rh, "default-target-honoured", "an unvisited history state with a declared target enters that target" if ok else
             "no return of the resolved default target remains reachable under 'the history state declares a target': an unvisited history state "
             "falls through to the parent's initial child and the declared default is ignored", dflt[0])
    # ---- R8 the record keeps every active descendant (shallow AND deep need it) -----------------
    rec_f = p.method("BaseInterpreter", "_record_history")
    stores = [x for x in own_nodes(rec_f.node) if isinstance(x, ast.Assign) and isinstance(x.targets[0], ast.Subscript) and "_history" in norm(x.targets[0].value)]
    c.expect("R8", "stores into _history", len(stores), 1, rec_f, "_record_history no longer stores anything: history states always fall back to their default")
    for x in stores:
        val = x.value
        if isinstance(val, ast.Name):
            from sa.util import assignments_to
            defs = [a for a in assignments_to(rec_f, val.id) if isinstance(a, ast.Assign) and any(isinstance(t_, ast.Name) and t_.id == val.id for t_ in a.targets)]
            comps = [y for a in defs for y in ast.walk(a.value) if isinstance(y, (ast.ListComp, ast.GeneratorExp))]
        else:
            comps = [y for y in ast.walk(val) if isinstance(y, (ast.ListComp, ast.GeneratorExp))]
        extra = []
        n_assign = len(defs) if isinstance(val, ast.Name) else 1
        for y in comps:
            for cnd in y.generators[0].ifs:
                for a, pol in __import__("sa.cfg", fromlist=["split_atoms"]).split_atoms(cnd, True):
                    t = norm(a)
                    if "_is_descendant" in t or " is not " in t or " is " in t and "state" in t:
                        continue
                    extra.append(t)
        # ... and nothing but descendants: the comprehension over the configuration carries a positive descendant test
        from sa.util import canon_atom as _ca
        for y in comps:
            if "_active_state_nodes" not in norm(y.generators[0].iter):
                continue
            var_ = norm(y.generators[0].target)
            pos = [a for cnd in y.generators[0].ifs for a, pol in __import__("sa.cfg", fromlist=["split_atoms"]).split_atoms(cnd, True)
                   if pol and isinstance(a, ast.Call) and norm(a.func).endswith("_is_descendant") and a.args and norm(a.args[0]) == var_]
            c.ob("R8", bool(pos), rec_f, "record-holds-only-descendants", "only active descendants of the history owner are remembered" if pos else
                 f"the remembered configuration is no longer restricted by a positive '_is_descendant({var_}, <owner>)' test: states of other branches "
                 f"(sibling regions, the owner's ancestors) are remembered and re-entered by a later history transition", y)
        ok = not extra and n_assign == 1
        c.ob("R8", ok, rec_f, "record-keeps-all-descendants",
             "the remembered configuration is every active descendant of the history owner" if ok else
             f"the remembered configuration is filtered / rebuilt at record time ({extra or 'several assignments'}): shallow history needs the owner's "
             f"immediate child and deep history the leaves, so a record trimmed for one kind makes the other restore the wrong states", x)
    # ---- R2 / R3 ---------------------------------------------------------------------
    shared.history_target_nonempty(ctx, "R2")
    shared.single_history_entry(ctx, "R3")
    shared.history_path_killed(ctx, "R3b")
    # ---- R4 the remembered list must be order-stable ---------------------------------------
    shared.set_order(ctx, "R4", ("base_interpreter",), only_funcs={"BaseInterpreter._record_history", "BaseInterpreter._resolve_history_target"})
    # ---- R5 history persisted and restored under one key -------------------------------------
    gp = p.method("BaseInterpreter", "get_persisted_snapshot")
    fs = p.method("BaseInterpreter", "from_snapshot")
    written = None
    for x in own_nodes(gp.node):
        if isinstance(x, ast.Dict):
            for k, v in zip(x.keys, x.values):
                if k is not None and "_history" in norm(v):
                    written = const_str(k)
    c.need(written, "snapshot key under which _history is persisted")
    reads = [x for x in own_nodes(fs.node) if isinstance(x, ast.Call) and isinstance(x.func, ast.Attribute) and x.func.attr == "get"
             and x.args and const_str(x.args[0]) == written]
    restores = [x for x in own_nodes(fs.node) if isinstance(x, ast.Assign) and "_history" in norm(x.targets[0])]
    ok = bool(reads) and bool(restores)
    c.ob("R5", ok, fs, f"history-key:{written}", f"history is written and read under the key '{written}' and restored into _history" if ok else
         f"get_persisted_snapshot writes history under '{written}' but from_snapshot does not restore it: a restored interpreter forgets where it left off", fs.node)
    # restored nodes are resolved against the machine (ids -> nodes), unknown ids dropped
    ok = any("get_state_by_id" in norm(x) for r_ in restores for x in ast.walk(r_)) or any("get_state_by_id" in norm(a) for a in own_nodes(fs.node) if isinstance(a, ast.ListComp))
    c.ob("R5", ok, fs, "history-ids-resolved", "persisted history ids are resolved back to state nodes" if ok else
         "restored history holds raw ids instead of state nodes", fs.node)
    # ---- R12 the default target of a history state is resolved relative to the history state itself -----------------------------
    # resolve_target_state(target, reference) reads a relative spelling ('.c2', a bare key) from the node that *declares* the target;
    # for a history default that is the history pseudo-state (a child of the owner), the same way a transition's target is read from
    # its source.  The reference must therefore arrive at the resolver unchanged: the history node the target string was read from.
    from sa.util import expand_names as _en12
    rh12 = p.method("BaseInterpreter", "_resolve_history_target")
    hn = rh12.params[1] if len(rh12.params) > 1 else None
    sites = []           # (function holding the resolver call, resolver call, name of the history node there or None)
    for x in own_nodes(rh12.node):
        if isinstance(x, ast.Call) and norm(x.func).endswith("resolve_target_state"):
            sites.append((rh12, x, hn, x))
    for call in [x for x in own_nodes(rh12.node) if isinstance(x, ast.Call) and isinstance(x.func, ast.Attribute) and norm(x.func.value) == "self"]:
        h = p.cls("BaseInterpreter").methods.get(call.func.attr)
        if h is None or h.qualname == rh12.qualname:
            continue
        inner = [y for y in own_nodes(h.node) if isinstance(y, ast.Call) and norm(y.func).endswith("resolve_target_state")]
        if not inner:
            continue
        # which parameter of the helper receives the history node
        passed = None
        for i, a in enumerate(call.args):
            if isinstance(_en12(rh12, a), ast.Name) and _en12(rh12, a).id == hn and i + 1 < len(h.params):
                passed = h.params[i + 1]
        for k in call.keywords:
            if k.arg and isinstance(_en12(rh12, k.value), ast.Name) and _en12(rh12, k.value).id == hn:
                passed = k.arg
        for y in inner:
            sites.append((h, y, passed, call))
    if c.expect("R12", "resolutions of a history state's default target", len(sites), 1, rh12,
                "_resolve_history_target no longer resolves the declared default target of an unvisited history state: the default is ignored"):
        for fn12, y, node_name, site in sites:
            ref = y.args[1] if len(y.args) > 1 else next((k.value for k in y.keywords if k.arg in ("reference", "reference_state", "source")), None)
            ref_e = _en12(fn12, ref) if ref is not None else None
            reass = [a_ for a_ in assignments_to(fn12, node_name)] if node_name else []
            ok = node_name is not None and isinstance(ref_e, ast.Name) and ref_e.id == node_name and not reass
            c.ob("R12", ok, fn12, "history-default-resolved-from-history-node",
                 "the default target is resolved with the history pseudo-state as the reference node" if ok else
                 f"'{norm(y)}' resolves a history state's default target from '{norm(ref) if ref is not None else '?'}' instead of the history node that declares it: "
                 f"a relative spelling ('.child', a sibling key) is looked up one level off and the default is ignored or lands in an unrelated state", y)
        tgt_ok = any("target_str" in norm(_en12(rh12, (s_[3].args[0] if s_[3].args else s_[3]))) and (hn or "") in norm(_en12(rh12, s_[3].args[0] if s_[3].args else s_[3])) for s_ in sites)
        c.ob("R12", tgt_ok, rh12, "history-default-read-from-history-node", "the default target string is the history node's own target" if tgt_ok else
             "the string resolved as the default target is no longer the history node's declared target", rh12.node)
