"""Role table: anchors are located by semantic role on the current tree.

A role that cannot be located raises AnalysisError (exit 2), never a pass.
"""
from __future__ import annotations

import ast
from typing import Dict, List, Optional

from sa.program import AnalysisError, FuncInfo, dotted, own_nodes
from sa.util import calls_in, self_calls_in

VIEWS = ("Interpreter", "SyncInterpreter")
ENGINE_MODULES = ("base_interpreter", "interpreter", "sync_interpreter", "helpers", "task_manager")
CONFIG_ATTR = "_active_state_nodes"


def view_funcs(ctx, view: str) -> List[FuncInfo]:
    """Methods visible in *view* (MRO-resolved, overridden ones dropped) with their closures."""
    vc = ctx.p.cls(view)
    seen: Dict[str, FuncInfo] = {}
    for c in vc.mro():
        for name, f in c.methods.items():
            if name not in seen:
                seen[name] = f
    out: List[FuncInfo] = []

    def add(f: FuncInfo):
        out.append(f)
        for g in f.nested.values():
            add(g)
        for nc in f.nested_classes.values():
            for m in nc.methods.values():
                add(m)
    for f in seen.values():
        add(f)
    return out


class Roles:
    def __init__(self, ctx, view: str):
        self.view = view
        p = ctx.p
        self.cls = p.cls(view)
        self.all_funcs = view_funcs(ctx, view)
        sync = not p.method(view, "_process_event").is_async
        # under a synchronous view every ``async def`` inherited from the base class is dead code
        self.funcs = [f for f in self.all_funcs if not (sync and f.is_async)]
        self.enter = p.method(view, "_enter_states")
        self.exit = p.method(view, "_exit_states")
        self.process_event = p.method(view, "_process_event")
        self.select = p.method(view, "_select_transitions")
        self.execute_actions = p.method(view, "_execute_actions")
        self.start = p.method(view, "start")
        self.stop = p.method(view, "stop")
        self.send = p.method(view, "send")
        self.send_events = p.method(view, "send_events")
        self.schedule = p.method(view, "_schedule_state_tasks")
        self.cancel_tasks = p.method(view, "_cancel_state_tasks")
        self.done_check = p.method(view, "_check_and_fire_on_done")
        self.record_history = p.method(view, "_record_history")
        self.deliver = p.method(view, "_deliver")
        self.builtin = p.method(view, "_execute_builtin_action")
        # executor: performs exit + enter for one external transition
        reach = ctx.r.closure([self.process_event], view, include_closures=False)
        ex = [f for f in self.funcs if f.cls is not None and f.qualname in reach and
              self_calls_in(f, "_exit_states") and self_calls_in(f, "_enter_states")]
        self.defects = []          # (kind, function, message): a role located by fallback because its defining construct is gone
        if not ex:
            # no function performs both halves any more: fall back to the one that still performs one of them and holds
            # the transaction (a try whose handler restores the configuration); the missing half is a violation (C03.R1)
            same = ctx.r.self_closure([self.process_event], view)
            half = [f for f in self.funcs if f.cls is not None and f.qualname in same and f.name not in ("_enter_states", "_exit_states") and
                    (self_calls_in(f, "_exit_states") or self_calls_in(f, "_enter_states")) and
                    any(isinstance(n, ast.Try) and n.handlers for n in own_nodes(f.node))]
            if len(half) == 1:
                ex = half
                missing = "_exit_states" if not self_calls_in(half[0], "_exit_states") else "_enter_states"
                self.defects.append(("executor-half", half[0],
                                     f"{half[0].short} no longer calls {missing}: an external transition "
                                     + ("activates its target without leaving the source (two active children in one region)" if missing == "_exit_states"
                                        else "leaves the source without entering the target (no active leaf)")))
        if len(ex) != 1:
            raise AnalysisError(f"view {view}: expected exactly one transition executor (exit+enter), found {[f.short for f in ex]}")
        self.executor = ex[0]
        # dispatcher: function that handles targetless/internal transitions; it is the one
        # _process_event calls per transition
        cands = []
        for s in ctx.r.callsites(self.process_event, view):
            for t in s.targets:
                if t.cls is not None and t.name not in ("_select_transitions",) and t.qualname != self.process_event.qualname:
                    cands.append(t)
        cands = [t for t in cands if any(isinstance(n, ast.Attribute) and n.attr == "target_str" for n in own_nodes(t.node))]
        if len(cands) != 1:
            raise AnalysisError(f"view {view}: transition dispatcher not located from _process_event: {[t.short for t in cands]}")
        self.dispatch = cands[0]
        # settle loop: calls selection and _process_event with the eventless event
        st = [f for f in self.funcs if f.cls is not None and f.qualname != self.process_event.qualname and
              f.is_async == self.process_event.is_async and
              self_calls_in(f, "_select_transitions") and self_calls_in(f, "_process_event")]
        if len(st) != 1:
            raise AnalysisError(f"view {view}: settle loop not located: {[f.short for f in st]}")
        self.settle = st[0]
        # drain loop: the function that dequeues from _event_queue
        dr = []
        for f in self.funcs:
            for n in own_nodes(f.node):
                if isinstance(n, ast.Call) and isinstance(n.func, ast.Attribute) and \
                        n.func.attr in ("popleft", "get", "get_nowait") and \
                        dotted(n.func.value) == "self._event_queue":
                    dr.append(f)
        dr = list({f.qualname: f for f in dr}.values())
        if len(dr) > 1:
            # the consumer is the one that dequeues inside a loop; any other remover is C04.R2's subject
            looped = [f for f in dr if any(isinstance(n, (ast.While, ast.For)) for n in own_nodes(f.node))]
            if len(looped) == 1:
                dr = looped
        if len(dr) != 1:
            raise AnalysisError(f"view {view}: drain loop (dequeue from _event_queue) not unique: {[f.short for f in dr]}")
        self.drain = dr[0]
        # re-entrancy flag: the boolean self attribute the drain loop sets True and resets in a finally
        self.flag = None
        for n in own_nodes(self.drain.node):
            if isinstance(n, ast.Assign) and isinstance(n.value, ast.Constant) and n.value.value is True:
                for t in n.targets:
                    if isinstance(t, ast.Attribute) and dotted(t.value) == "self":
                        self.flag = t.attr
        if self.flag is None:
            raise AnalysisError(f"view {view}: re-entrancy flag of the drain loop not located")
        # target resolver used by the dispatcher
        self.processing = {f.qualname: f for f in (self.enter, self.exit, self.process_event, self.settle,
                                                  self.executor, self.dispatch, self.done_check)}

    def is_processing(self, f: FuncInfo) -> bool:
        return f.qualname in self.processing


_ROLE_CACHE: Dict[str, Roles] = {}


def roles(ctx, view: str) -> Roles:
    k = view
    if k not in _ROLE_CACHE:
        _ROLE_CACHE[k] = Roles(ctx, view)
    return _ROLE_CACHE[k]
