import asyncio
from xstate_statemachine import create_machine, Interpreter, MachineLogic

class Boom(BaseException):
    pass

def boom(i, c, e, a):
    raise Boom("fatal")

cfg = {"id": "m", "initial": "a",
       "states": {"a": {"after": {"300": "b"}, "on": {"GO": {"actions": "boom"}}}, "b": {}}}
logic = MachineLogic(actions={"boom": boom})

async def main():
    it = Interpreter(create_machine(cfg, logic=logic))
    await it.start()
    await it.send("GO")
    await asyncio.sleep(0.05)
    print("status after fatal loop error:", it.status)
    await it.stop()
    live = {k: len([t for t in v if not t.done()]) for k, v in it.task_manager._tasks_by_owner.items()}
    live = {k: v for k, v in live.items() if v}
    print("live tasks after stop():", live)
    try:
        if it._event_loop_task: it._event_loop_task.exception()
    except BaseException: pass
    return 1 if live else 0
raise SystemExit(asyncio.run(main()))
