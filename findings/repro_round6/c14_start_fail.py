import asyncio
from xstate_statemachine import create_machine, Interpreter, MachineLogic

fired = []
cfg = {
    "id": "m", "type": "parallel",
    "states": {
        "r1": {"initial": "a", "states": {"a": {"after": {"200": {"target": "b", "actions": "tick"}}}, "b": {}}},
        "r2": {"initial": "x", "states": {"x": {"entry": "missing_action"}}},
    },
}
logic = MachineLogic(actions={"tick": lambda i, c, e, a: fired.append("tick")})

async def main():
    it = Interpreter(create_machine(cfg, logic=logic))
    try:
        await it.start()
    except Exception as e:
        print("start raised", type(e).__name__)
    print("status after failed start:", it.status)
    await it.stop()
    print("status after stop:", it.status)
    owners = {k: [t for t in v if not t.done()] for k, v in it.task_manager._tasks_by_owner.items()}
    live = {k: v for k, v in owners.items() if v}
    print("live tasks after stop():", {k: len(v) for k, v in live.items()})
    await asyncio.sleep(0.4)
    print("fired after stop:", fired, "active:", it.current_state_ids)
    return 1 if live else 0

raise SystemExit(asyncio.run(main()))
