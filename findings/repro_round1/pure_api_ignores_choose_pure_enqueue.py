import logging; logging.disable(logging.CRITICAL)
from xstate_statemachine import create_machine, SyncInterpreter, MachineLogic
from xstate_statemachine import assign, choose, pure, enqueue_actions
from xstate_statemachine.helpers import initial_transition, transition
def mk(act):
    return create_machine({"id":"p","initial":"a","context":{"n":0},"states":{"a":{"on":{"GO":{"actions":[act]}}}}}, logic=MachineLogic())
acts={"choose":choose([{"actions":[assign({"n":1})]}]),
      "pure":pure(lambda a:[assign({"n":1})]),
      "enqueueActions":enqueue_actions(lambda a: a["enqueue"].assign({"n":1}))}
for name,act in acts.items():
    m=mk(act)
    s=SyncInterpreter(m).start(); s.send("GO")
    snap,_=initial_transition(m); snap2,rec=transition(m,snap,"GO")
    print(name,"sync n=",s.context["n"],"pure n=",snap2.context["n"],"recorded",[r.type for r in rec])
