from xstate_statemachine import create_machine
cfg={"id":"m","initial":"a","states":{"a":{"on":{"GO":{"target":"b","guard":{"type":"and","children":5}}}},"b":{}}}
try:
    create_machine(cfg)
    print("accepted")
except Exception as e:
    print(type(e).__mro__[:3], e)
