import logging; logging.disable(logging.CRITICAL)
from xstate_statemachine import create_machine, SyncInterpreter, MachineLogic, assign
from xstate_statemachine.helpers import initial_transition, transition
def boom(a): raise RuntimeError("assign failed")
m=create_machine({"id":"p","initial":"a","context":{"n":0},"states":{"a":{"on":{"GO":{"target":"b","actions":[assign(boom)]}}},"b":{}}}, logic=MachineLogic())
s=SyncInterpreter(m).start(); s.send("GO"); print("sync:", sorted(s.current_state_ids))
snap,_=initial_transition(m)
try:
    snap2,rec=transition(m,snap,"GO"); print("pure:", sorted(snap2.state_ids))
except Exception as e: print("pure: raised", type(e).__name__, e)
