import asyncio, logging
logging.disable(logging.CRITICAL)
from xstate_statemachine import create_machine, Interpreter, MachineLogic, SyncInterpreter
n=[0]
def count(i,c,e,a):
    n[0]+=1
def guard_lt(c,e): return n[0] < 2000
cfg={"id":"m","initial":"a","maxIterations":20,"states":{"a":{"on":{
  "PING":{"guard":"lt","actions":["count",{"type":"xstate.raise","params":{"event":"NOTE"}},{"type":"xstate.raise","params":{"event":"PING"}}]},
  "NOTE":{"actions":[]}}}}}
async def main():
    m=create_machine(cfg, logic=MachineLogic(actions={"count":count},guards={"lt":guard_lt}))
    it=Interpreter(m); await it.start()
    beats=[0]
    async def heart():
        while True:
            await asyncio.sleep(0.001); beats[0]+=1
    h=asyncio.create_task(heart())
    await it.send("PING")
    await asyncio.sleep(0.5)
    print("async: PING macrosteps", n[0], "(maxIterations 20); heartbeats while chain ran:", beats[0])
    h.cancel(); await it.stop()
asyncio.run(main())
n[0]=0
m=create_machine(cfg, logic=MachineLogic(actions={"count":count},guards={"lt":guard_lt}))
s=SyncInterpreter(m).start(); s.send("PING"); print("sync: PING macrosteps", n[0])
