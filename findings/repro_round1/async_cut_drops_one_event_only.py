"""Async raise-chain breaker cuts ONE event and resets the counter, although one macrostep can have raised many:
a mutual always-loop (cut by the settle bound after maxIterations laps) whose transitions each raise X leaves
maxIterations X events queued per macrostep; each of those runs the settle loop again and queues maxIterations more.
The queue grows without bound and the run loop never goes idle (the sync engine clears its queue at the bound)."""
import asyncio, os, signal, sys, logging
logging.disable(logging.CRITICAL)
from xstate_statemachine import create_machine, Interpreter, MachineLogic

m = create_machine({"id": "m", "initial": "a", "maxIterations": 20, "states": {
    "a": {"on": {"GO": "b"}},
    "b": {"always": {"target": "c", "actions": [{"type": "raise", "params": {"event": {"type": "X"}}}]}},
    "c": {"always": {"target": "b", "actions": [{"type": "raise", "params": {"event": {"type": "X"}}}]}}}},
    logic=MachineLogic())

it = None
def watchdog(signum, frame):
    print("queue size after 5 s:", it._event_queue.qsize())
    print("FAIL: the self-feeding chain is never cut: the queue keeps growing and the run loop never yields to other tasks")
    os._exit(1)
signal.signal(signal.SIGALRM, watchdog)
signal.alarm(5)

async def main():
    global it
    it = Interpreter(m)
    await it.start()
    await it.send("GO")
    sizes = []
    for _ in range(6):
        await asyncio.sleep(0.2)
        sizes.append(it._event_queue.qsize())
    print("queue sizes over time:", sizes)
    bad = sizes[-1] > 0 and sizes[-1] >= sizes[0]
    it._event_loop_task.cancel()
    if bad:
        print("FAIL: the self-feeding chain is never cut; the queue keeps growing")
        sys.exit(1)
    print("PASS")
asyncio.run(main())
