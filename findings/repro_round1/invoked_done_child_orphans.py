"""An invoked child machine that reaches its final state is popped from parent._actors without being stopped
(async: only stopped when still 'running'); its own spawned actor keeps running after parent.stop()."""
import asyncio, sys
from xstate_statemachine import create_machine, Interpreter, MachineLogic

ticks = []
def tick(i, ctx, ev, a):
    ticks.append(i.id)

grand = create_machine({"id": "grand", "initial": "a", "states": {
    "a": {"after": {"20": {"target": "b", "actions": ["tick"]}}},
    "b": {"after": {"20": {"target": "a", "actions": ["tick"]}}}}}, logic=MachineLogic(actions={"tick": tick}))

child = create_machine({"id": "child", "initial": "work", "states": {
    "work": {"entry": ["spawn_grand"], "after": {"30": "fin"}},
    "fin": {"type": "final"}}}, logic=MachineLogic(services={"grand": grand}))

parent = create_machine({"id": "parent", "initial": "run", "states": {
    "run": {"invoke": {"src": "child", "onDone": "idle"}},
    "idle": {}}}, logic=MachineLogic(services={"child": child}))

async def main():
    it = Interpreter(parent)
    await it.start()
    await asyncio.sleep(0.3)
    print("parent state", it.current_state_ids, "actors", list(it._actors))
    await it.stop()
    n = len(ticks)
    await asyncio.sleep(0.3)
    print("ticks before stop", n, "after", len(ticks))
    if len(ticks) > n:
        print("FAIL: grandchild actor still running after parent.stop()")
        sys.exit(1)
    print("PASS")
asyncio.run(main())
