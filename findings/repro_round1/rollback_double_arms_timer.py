import asyncio, logging
logging.disable(logging.CRITICAL)
from xstate_statemachine import create_machine, Interpreter, MachineLogic
ticks=[]
def tick(i,c,e,a): ticks.append(e.type)
cfg={"id":"m","initial":"p","states":{
  "p":{"initial":"c","after":{"150":{"actions":["tick"]}},
       "states":{"c":{"exit":["missingExit"],"on":{"LEAVE":"#m.out"}}}},
  "out":{}}}
async def main():
    m=create_machine(cfg, logic=MachineLogic(actions={"tick":tick}))
    it=Interpreter(m); await it.start()
    await it.send("LEAVE")          # exit of c aborts (missing action) -> rollback
    await asyncio.sleep(0.6)
    print("states", sorted(it.current_state_ids), "ticks", len(ticks), "tasks for p:", len(it.task_manager.get_tasks_by_owner("m.p")))
    await it.stop()
asyncio.run(main())
