import asyncio
from xstate_statemachine import create_machine, SyncInterpreter, Interpreter, MachineLogic
cfg={"id":"m","initial":"a","on":{"PING":{"actions":["ping"]}},"states":{"a":{"on":{"FIN":"end"}},"end":{"type":"final"}}}
def mk(log):
    return create_machine(cfg, logic=MachineLogic(actions={"ping": lambda i,c,e,a: log.append("ping")}))
log=[]; s=SyncInterpreter(mk(log)); s.start(); s.send_events(["FIN","PING"]); print("sync send_events:", s.status, log)
log=[]; s=SyncInterpreter(mk(log)); s.start(); s.send("FIN"); s.send("PING"); print("sync send,send :", s.status, log)
async def main():
    log=[]; i=Interpreter(mk(log)); await i.start(); await i.send("FIN"); await i.send("PING"); await asyncio.sleep(0.05); print("async send,send:", i.status, log)
    log=[]; i=Interpreter(mk(log)); await i.start()
    if hasattr(i,"send_events"):
        r=i.send_events(["FIN","PING"])
        if asyncio.iscoroutine(r): await r
    await asyncio.sleep(0.05); print("async send_events:", i.status, log); await i.stop()
asyncio.run(main())
