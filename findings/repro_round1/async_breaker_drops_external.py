import asyncio, logging
from xstate_statemachine import create_machine, Interpreter, MachineLogic
logging.disable(logging.CRITICAL)
for wait in range(1,9):
    seen=[]; pings=[0]
    async def slow(i, ctx, ev, a):
        pings[0]+=1
        await asyncio.sleep(0)
    def note(i, ctx, ev, a): seen.append(ev.payload.get("n"))
    cfg={"id":"m","initial":"a","maxIterations":3,"states":{"a":{"on":{
       "PING":{"actions":["slow", {"type":"xstate.raise","params":{"event":"PING"}}]},
       "X":{"actions":["note"]}}}}}
    async def main():
        m=create_machine(cfg, logic=MachineLogic(actions={"slow":slow,"note":note}))
        it=Interpreter(m); await it.start()
        await it.send("PING")
        for _ in range(wait): await asyncio.sleep(0)
        await it.send("X", n=1)
        await asyncio.sleep(0.05)
        await it.stop()
        print("wait",wait,"processed", seen, "pings", pings[0])
    asyncio.run(main())
