#!/bin/sh
# Documentation only. For each of the five templates, flat and parent/child runs: the generator exits 0 and writes a
# runner file that is not valid Python when an event type contains a line break (C17.R3 / C17.R7).
set -u
W=$(mktemp -d); trap 'rm -rf "$W"' EXIT
printf '%s' '{"id":"m","initial":"a","states":{"a":{"on":{"GO\nimport os":"b"}},"b":{}}}' > "$W/parent.json"
printf '%s' '{"id":"kid","initial":"a","states":{"a":{"on":{"GO\nimport os":"b"}},"b":{}}}' > "$W/child.json"
for t in class-json function-json pythonic-builder pythonic-class pythonic-functional; do
  /venv/bin/python -m xstate_statemachine.cli generate-template "$W/parent.json" --template $t -o "$W/f_$t" --force >/dev/null 2>&1; echo "flat $t exit=$?"
  for f in "$W/f_$t"/*runner*.py; do /venv/bin/python -c "import ast; ast.parse(open('$f').read())" 2>&1 | tail -1; done
  /venv/bin/python -m xstate_statemachine.cli generate-template --json-parent "$W/parent.json" --json-child "$W/child.json" --template $t -o "$W/h_$t" --force >/dev/null 2>&1; echo "hier $t exit=$?"
  for f in "$W/h_$t"/*runner*.py; do /venv/bin/python -c "import ast; ast.parse(open('$f').read())" 2>&1 | tail -1; done
done
