"""MAX_ACTION_DEPTH bounds the nesting depth of pure/choose/enqueueActions expansion, not the work: a pure action
that returns itself twice expands 2^(depth+1) times.  MAX_ACTION_DEPTH is lowered to 16 here so the demo finishes;
with the default of 50 send() does not return in any practical time."""
import sys, time
from xstate_statemachine import create_machine, SyncInterpreter, MachineLogic
from xstate_statemachine.base_interpreter import BaseInterpreter

calls = 0
def twice(args):
    global calls
    calls += 1
    twice_def = {"type": "pure", "params": {"get": twice}}
    return [twice_def, twice_def]

m = create_machine({"id": "m", "initial": "a", "maxIterations": 10, "states": {
    "a": {"on": {"GO": {"actions": [{"type": "pure", "params": {"get": twice}}]}}}}}, logic=MachineLogic())
BaseInterpreter.MAX_ACTION_DEPTH = 16
it = SyncInterpreter(m).start()
t0 = time.time()
it.send("GO")
print("callback ran", calls, "times in", round(time.time() - t0, 2), "s; maxIterations = 10, MAX_ACTION_DEPTH = 16")
if calls > 1000:
    print("FAIL: the expansion is bounded in depth only: work grows as 2^depth")
    sys.exit(1)
print("PASS")
