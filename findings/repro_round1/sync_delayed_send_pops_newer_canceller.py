"""Sync engine: a delayed send whose wait has just timed out removes the canceller registered under its id without checking
that it is still its own.  If the id is re-used in that window (forced here with a controlled schedule), the newer send loses
its canceller: cancel(id) no longer prevents it.  The async engine guards the same pop with an identity test."""
import sys, threading, time, logging
logging.disable(logging.CRITICAL)
from xstate_statemachine import create_machine, SyncInterpreter, MachineLogic
import xstate_statemachine.sync_interpreter as si

passed_wait = threading.Event()
newer_registered = threading.Event()
first = []

class HookedEvent(threading.Event):
    def wait(self, timeout=None):
        r = super().wait(timeout)
        if not r and first and first[0] is self and not passed_wait.is_set():
            passed_wait.set()                 # the first send's wait has timed out ...
            newer_registered.wait(5)          # ... and it is held here until the id has been re-used
        return r

class T:                                      # stands in for the threading module inside sync_interpreter
    def __getattr__(self, name):
        return getattr(threading, name)
    def Event(self):
        e = HookedEvent()
        if not first:
            first.append(e)
        return e
si.threading = T()

got = []
m = create_machine({"id": "m", "initial": "a", "states": {"a": {"on": {
    "FIRST": {"actions": [{"type": "raise", "params": {"event": {"type": "TICK1"}, "delay": 30, "id": "x"}}]},
    "SECOND": {"actions": [{"type": "raise", "params": {"event": {"type": "TICK2"}, "delay": 400, "id": "x"}}]},
    "CANCEL": {"actions": [{"type": "cancel", "params": {"sendId": "x"}}]},
    "TICK1": {"actions": ["seen"]}, "TICK2": {"actions": ["seen"]}}}}},
    logic=MachineLogic(actions={"seen": lambda i, c, e, a: got.append(e.type)}))
it = SyncInterpreter(m).start()
it.send("FIRST")
assert passed_wait.wait(5)
it.send("SECOND")                             # re-uses id "x" while the first send is between its wait and its clean-up
newer_registered.set()
time.sleep(0.15)
it.send("CANCEL")                             # must prevent TICK2
time.sleep(0.6)
it.stop()
print("delivered:", got)
if "TICK2" in got:
    print("FAIL: cancel('x') did not prevent the pending delayed send: its canceller had been removed by the earlier send's clean-up")
    sys.exit(1)
print("PASS")
