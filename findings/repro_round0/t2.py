import logging; logging.disable(logging.CRITICAL)
from xstate_statemachine import create_machine, SyncInterpreter, MachineLogic, Interpreter, Event
from xstate_statemachine import raise_, assign
import asyncio, json

# 7. async start(): macrostep outside the consumer races with the consumer
async def t7():
    log=[]
    cfg={"id":"s","initial":"A","states":{
      "A":{"entry":[raise_("GO")],"after":{"60000":"Z"},"always":"B","exit":["xA"],"on":{"GO":"C"}},
      "B":{"on":{"GO":"C"}},"C":{},"Z":{}}}
    m=create_machine(cfg,logic=MachineLogic(actions={"xA":lambda i,c,e,a: log.append("exitA")}))
    it=await Interpreter(m).start()
    await asyncio.sleep(0.05)
    print("7. async start race: config",sorted(n.id for n in it._active_state_nodes),"exit-A runs:",log)
    await it.stop()
asyncio.run(t7())

# 8. sync default-descent entry event identity
seen=[]
cfg={"id":"e","initial":"a","states":{"a":{"on":{"GO":"p"}},
     "p":{"initial":"q","entry":["rec"],"states":{"q":{"entry":["rec"]}}}}}
m=create_machine(cfg,logic=MachineLogic(actions={"rec":lambda i,c,e,a: seen.append((e.type,dict(e.payload)))}))
it=SyncInterpreter(m).start(); it.send("GO",k=1); print("8. sync entry events:",seen)
seen.clear()
async def t8():
    it=await Interpreter(m).start(); await it.send("GO",k=1); await asyncio.sleep(0.02); print("8. async entry events:",seen); await it.stop()
asyncio.run(t8())

# 9. sync builtin containment does not notify on_action_error
from xstate_statemachine import PluginBase
class P(PluginBase):
    def __init__(s): s.errs=[]
    def on_action_error(s,i,a,e): s.errs.append(a.type)
def boom(args): raise RuntimeError("x")
cfg={"id":"b","initial":"a","states":{"a":{"on":{"GO":{"actions":[assign(boom)]}}}}}
m=create_machine(cfg,logic=MachineLogic())
p=P(); it=SyncInterpreter(m); it.use(p); it.start(); it.send("GO"); print("9. sync builtin on_action_error:",p.errs)
async def t9():
    p=P(); it=Interpreter(m); it.use(p); await it.start(); await it.send("GO"); await asyncio.sleep(0.02); print("9. async builtin on_action_error:",p.errs); await it.stop()
asyncio.run(t9())

# 10. LogicLoader: spawn_ action inside invoke.onDone is demanded as an ACTION
class Prov:
    def svc(self,i,c,e): return 1
child=create_machine({"id":"c","initial":"x","states":{"x":{}}},logic=MachineLogic())
cfg={"id":"l","initial":"a","states":{"a":{"invoke":{"src":"svc","onDone":{"actions":["spawn_kid"]}}}}}
try:
    class Prov2(Prov):
        def kid(self,i,c,e): return child
    create_machine(cfg,logic_providers=[Prov2()]); print("10. ok")
except Exception as e: print("10. loader:",type(e).__name__,e)
cfg2={"id":"l","initial":"a","states":{"a":{"entry":["spawn_kid"],"invoke":{"src":"svc"}}}}
try: create_machine(cfg2,logic_providers=[Prov2()]); print("10b. same spawn in entry: ok")
except Exception as e: print("10b.",type(e).__name__,e)

# 11. cli extractor misses state-level onDone actions
from xstate_statemachine.cli.extractor import extract_logic_names
cfg={"id":"x","initial":"p","states":{"p":{"initial":"f","states":{"f":{"type":"final"}},"onDone":{"target":"d","actions":["notify"],"guard":"ok"}},"d":{}}}
print("11. extractor:",extract_logic_names(cfg))

# 12. stop() leaves systemId registry entries
from xstate_statemachine import spawn_child
cfg={"id":"par","initial":"a","states":{"a":{"entry":[spawn_child("kid",actor_id="k",system_id="SYS")]}}}
m=create_machine(cfg,logic=MachineLogic(services={"kid":child}))
it=SyncInterpreter(m).start(); import time; time.sleep(0.05)
it.stop(); print("12. after parent stop, system registry:",list(it.system.get_all()), "actors:",list(it._actors))
