import logging; logging.disable(logging.CRITICAL)
from xstate_statemachine import create_machine, SyncInterpreter, MachineLogic, Interpreter, Event
from xstate_statemachine import raise_, assign, initial_transition, pure_transition
import asyncio, json, signal

# 13. stateIn guard whose params callable raises
def bad(args): raise RuntimeError("p")
cfg={"id":"g","initial":"a","states":{"a":{"on":{"GO":[{"target":"b","guard":{"type":"stateIn","params":bad}},{"target":"c"}]}},"b":{},"c":{}}}
it=SyncInterpreter(create_machine(cfg,logic=MachineLogic())).start()
try: it.send("GO"); print("13. ok ->",it.current_state_ids)
except Exception as e: print("13. stateIn params raise escapes send():",type(e).__name__, "state",it.current_state_ids)

# 14. pure API: raise not interpreted; history forgotten
cfg={"id":"p","initial":"a","states":{"a":{"on":{"GO":{"actions":[raise_("NEXT")]},"NEXT":"b"}},"b":{}}}
m=create_machine(cfg,logic=MachineLogic())
s,_=initial_transition(m); s2,acts=pure_transition(m,s,"GO"); print("14. pure after GO:",sorted(s2.state_ids),[a.type for a in acts])
it=SyncInterpreter(m).start(); it.send("GO"); print("14. sync after GO:",sorted(it.current_state_ids))

# 15. init event identity across engines
seen=[]
cfg={"id":"i","initial":"a","entry":["rec"],"states":{"a":{"entry":["rec"]}}}
m=create_machine(cfg,logic=MachineLogic(actions={"rec":lambda i,c,e,a: seen.append(e.type)}))
SyncInterpreter(m).start(); print("15. sync start entry events:",seen); seen.clear()
async def t():
    it=await Interpreter(m).start(); print("15. async start entry events:",seen); await it.stop()
asyncio.run(t())

# 16. deep-history leaf order follows set iteration order
order=[]
cfg={"id":"d","initial":"p","states":{
 "p":{"type":"parallel","on":{"OUT":"#d.o"},"states":{"hist":{"type":"history","history":"deep"},
   **{f"r{k}":{"initial":"x","states":{"x":{"entry":[f"e{k}"]}}} for k in range(6)}}},
 "o":{"on":{"BACK":"p.hist"}}}}
acts={f"e{k}":(lambda k: (lambda i,c,e,a: order.append(k)))(k) for k in range(6)}
res=set()
for _ in range(12):
    m=create_machine(cfg,logic=MachineLogic(actions=acts)); it=SyncInterpreter(m).start(); it.send("OUT"); order.clear(); it.send("BACK"); res.add(tuple(order))
print("16. distinct deep-history entry orders over 12 rebuilds:",len(res), list(res)[:3])

# 17. async done.state chain: bounded? run with alarm
def on_alarm(*a): print("17. async done.state self-chain: event loop frozen >3s (no yield, unbounded)"); raise SystemExit(0)
signal.signal(signal.SIGALRM,on_alarm); signal.alarm(3)
cfg={"id":"z","initial":"c","maxIterations":50,"states":{"c":{"initial":"f","states":{"f":{"type":"final"}},"onDone":{"target":"c","reenter":True}}}}
m=create_machine(cfg,logic=MachineLogic())
it=SyncInterpreter(m).start(); print("17. sync returns from start(); status",it.status)
async def t17():
    hb=[0]
    async def beat():
        while True: hb[0]+=1; await asyncio.sleep(0.05)
    b=asyncio.create_task(beat())
    it=await Interpreter(m).start(); await asyncio.sleep(1); print("17. async heartbeat in 1s:",hb[0]); await it.stop(); b.cancel()
asyncio.run(t17())
