import logging; logging.disable(logging.CRITICAL)
from xstate_statemachine import create_machine, SyncInterpreter, MachineLogic
def mk(k): return lambda i,c,e: c["order"].append(k)
services={f"s{k}":mk(k) for k in range(6)}
cfg={"id":"d","initial":"p","context":{"order":[]},"states":{
 "p":{"type":"parallel","on":{"OUT":"z"},"states":{f"r{k}":{"invoke":{"src":f"s{k}"}} for k in range(6)}},
 "z":{"entry":["missingAction"]}}}
res=set()
for _ in range(12):
    it=SyncInterpreter(create_machine(cfg,logic=MachineLogic(services=services))).start()
    n=len(it.context["order"])
    try: it.send("OUT")
    except Exception as e: err=type(e).__name__
    res.add(tuple(it.context["order"][n:]))
print("27. rollback re-arm service order over 12 rebuilds:",len(res),"distinct; e.g.",list(res)[:2],"; error:",err)
