import logging; logging.disable(logging.CRITICAL)
from xstate_statemachine import create_machine, SyncInterpreter, MachineLogic, Interpreter, raise_
import asyncio
cfg={"id":"s","initial":"A","states":{"A":{"always":{"target":"B","actions":[raise_("X")]}},"B":{"on":{"X":"C"}},"C":{}}}
m=create_machine(cfg,logic=MachineLogic())
it=SyncInterpreter(m).start(); print("18. sync start with always+raise ->",sorted(it.current_state_ids))
# same always reached via an event (inside drain loop, flag held)
cfg2={"id":"s","initial":"I","states":{"I":{"on":{"GO":"A"}},"A":{"always":{"target":"B","actions":[raise_("X")]}},"B":{"on":{"X":"C"}},"C":{}}}
it=SyncInterpreter(create_machine(cfg2,logic=MachineLogic())).start(); it.send("GO"); print("18. sync same chain via send ->",sorted(it.current_state_ids))
async def t():
    it=await Interpreter(m).start(); await asyncio.sleep(0.02); print("18. async start ->",sorted(it.current_state_ids)); await it.stop()
asyncio.run(t())
